import SE.Spec.Scrape
import SE.Proofs.RegistryCounter
/-
C01, the compositional core: one step of `handleEvent` either applies a touch (and then changes only
the series that touch addresses, by the touch's update) or leaves the registry alone; by induction
over a history the final state of a series is the fold of its own updates.
-/
set_option linter.unusedSectionVars false
namespace SE
open NumOps
variable {V : Type} [NumOps V]

/-! ### `sameValue` -/

theorem Series.sameValue_refl (s : Series V) : s.sameValue s := ⟨rfl, rfl, rfl, rfl⟩

theorem Series.sameValue_symm {s t : Series V} (h : s.sameValue t) : t.sameValue s :=
  ⟨h.1.symm, h.2.1.symm, h.2.2.1.symm, h.2.2.2.symm⟩

theorem Series.sameValue_trans {s t u : Series V} (h1 : s.sameValue t) (h2 : t.sameValue u) : s.sameValue u :=
  ⟨h1.1.trans h2.1, h1.2.1.trans h2.2.1, h1.2.2.1.trans h2.2.2.1, h1.2.2.2.trans h2.2.2.2⟩

theorem sameValue_restart (s : Series V) (now ttl : Int) : ({ s with last := now, ttl := ttl } : Series V).sameValue s :=
  ⟨rfl, rfl, rfl, rfl⟩

theorem freshSeries_sameValue (ty : MType) (vec : VecM V) (a : GetArgs V) (now : Int) :
    (freshSeries ty vec a now).sameValue (zeroSeries ty vec a.labels) := ⟨rfl, rfl, rfl, rfl⟩

/-! ### the update of an event -/

theorem evPlan_upd (p : Pipe V) (rx : Rx) (ev : Ev V) (nm : Bytes) (sorted : Labels) :
    (evPlan p rx ev nm sorted).1 = evType p rx ev ∧ (evPlan p rx ev nm sorted).2.2 = evUpd p rx ev := by
  unfold evPlan evType evUpd
  cases ev.kind
  · exact ⟨rfl, rfl⟩
  · exact ⟨rfl, rfl⟩
  · simp only []
    split
    · rename_i h; simp [h]
    · rename_i h
      have h' : (evObsTy p rx ev == ObsTy.histogram) = false := by simpa using h
      simp [h']

theorem counterAdd_sameValue (v : V) {s t : Series V} (h : s.sameValue t) : (counterAdd s v).sameValue (counterAdd t v) := by
  obtain ⟨h1, h2, h3, h4⟩ := h
  unfold counterAdd
  split
  · exact ⟨h1, h2, by simp only [h3], h4⟩
  · exact ⟨h1, by simp only [h2], h3, h4⟩

theorem observe_sameValue (vec : VecM V) (b : Bool) (x : V) {s t : Series V} (h : s.sameValue t) :
    (observe vec b s x).sameValue (observe vec b t x) := by
  obtain ⟨h1, h2, h3, h4⟩ := h
  unfold observe
  exact ⟨h1, by simp only [h2], by simp only [h3], by simp only [h4]⟩

theorem evUpd_value (p : Pipe V) (rx : Rx) (ev : Ev V) : UpdValue (evUpd p rx ev) := by
  intro v s t h
  unfold evUpd
  cases ev.kind
  · exact counterAdd_sameValue _ h
  · obtain ⟨h1, h2, h3, h4⟩ := h
    simp only []
    split
    · exact ⟨h1, by simp only [h2], h3, h4⟩
    · exact ⟨h1, rfl, h3, h4⟩
  · exact observe_sameValue _ _ _ h

theorem evUpd_keeps (p : Pipe V) (rx : Rx) (ev : Ev V) : UpdKeeps (evUpd p rx ev) := by
  have := evPlan_keeps p rx ev [] []
  rw [(evPlan_upd p rx ev [] []).2] at this
  exact this

/-! ### the event's request depends on the state only through the mapper -/

theorem evRule_congr {p q : Pipe V} (hm : p.mapper = q.mapper) (rx : Rx) (ev : Ev V) : evRule p rx ev = evRule q rx ev := by
  unfold evRule evFound; rw [hm]

theorem evValue_congr {p q : Pipe V} (hm : p.mapper = q.mapper) (rx : Rx) (ev : Ev V) : evValue p rx ev = evValue q rx ev := by
  unfold evValue; rw [evRule_congr hm]

theorem evObsTy_congr {p q : Pipe V} (hm : p.mapper = q.mapper) (rx : Rx) (ev : Ev V) : evObsTy p rx ev = evObsTy q rx ev := by
  unfold evObsTy; rw [evRule_congr hm, hm]

theorem evUpd_congr {p q : Pipe V} (hm : p.mapper = q.mapper) (rx : Rx) (ev : Ev V) : evUpd p rx ev = evUpd q rx ev := by
  unfold evUpd; rw [evValue_congr hm, evObsTy_congr hm]

theorem evType_congr {p q : Pipe V} (hm : p.mapper = q.mapper) (rx : Rx) (ev : Ev V) : evType p rx ev = evType q rx ev := by
  unfold evType; rw [evObsTy_congr hm]

/-! ### one step -/

/-- the touch of an applied event, spelled out -/
theorem touchOf_eq_some {p : Pipe V} {rx : Rx} {ev : Ev V} {tags : Labels} {t : Touch V}
    (h : touchOf p rx ev tags = some t) :
    ∃ c pl reg, evTarget p rx ev tags = some (c, pl) ∧ p.reg.getOrCreate pl.1 pl.2.1 p.now = .ok (.ok reg) ∧
      t = { name := pl.2.1.name, labels := pl.2.1.labels, ty := pl.1, upd := pl.2.2 } := by
  unfold touchOf at h
  split at h
  · cases h
  · rename_i c pl ht
    split at h
    · rename_i reg hg
      injection h with h
      exact ⟨c, pl, reg, ht, hg, h.symm⟩
    · cases h

/-- one successful step: either no touch and the registry is untouched, or a touch and the state is the
    applied state of the touch's request -/
theorem step_cases {p p' : Pipe V} {rx : Rx} {ev : Ev V} {tags : Labels}
    (h : handleEvent p rx ev tags = some (.ok p')) :
    (touchOf p rx ev tags = none ∧ p'.reg = p.reg ∧ p'.counts.applied = p.counts.applied) ∨
    (∃ c pl reg, evTarget p rx ev tags = some (c, pl) ∧ p.reg.getOrCreate pl.1 pl.2.1 p.now = .ok (.ok reg) ∧
      p' = appliedPipe p c pl reg ∧
      touchOf p rx ev tags = some { name := pl.2.1.name, labels := pl.2.1.labels, ty := pl.1, upd := pl.2.2 }) := by
  cases ht : evTarget p rx ev tags with
  | none =>
    left
    have h0 : touchOf p rx ev tags = none := by unfold touchOf; rw [ht]
    rcases handleEvent_no_target ht with h1 | ⟨c', h1, h2, _⟩
    · rw [h1] at h; cases h
    · rw [h1] at h; injection h with h; injection h with h; subst h; exact ⟨h0, rfl, h2⟩
  | some cp =>
    obtain ⟨c, pl⟩ := cp
    have hc := (evTarget_counts ht).1
    rw [handleEvent_of_target ht] at h
    rcases finishPlan_cases p c pl with ⟨pn, _, h1⟩ | ⟨e, hg, h1⟩ | ⟨reg, hg, h1⟩
    · rw [h1] at h; injection h with h; cases h
    · left
      rw [h1] at h; injection h with h; injection h with h; subst h
      refine ⟨?_, rfl, hc⟩
      unfold touchOf; rw [ht]; simp only [hg]
    · right
      rw [h1] at h; injection h with h; injection h with h
      refine ⟨c, pl, reg, rfl, hg, h.symm, ?_⟩
      unfold touchOf; rw [ht]; simp only [hg]

/-- the touch of an applied event is the protocol's: type and update are `evType` and `evUpd` -/
theorem touchOf_spec {p : Pipe V} {rx : Rx} {ev : Ev V} {tags : Labels} {t : Touch V}
    (h : touchOf p rx ev tags = some t) : t.ty = evType p rx ev ∧ t.upd = evUpd p rx ev := by
  obtain ⟨c, pl, reg, ht, _, e⟩ := touchOf_eq_some h
  obtain ⟨_, _, nm, _, hpl⟩ := evTarget_spec ht
  subst e; subst hpl
  exact evPlan_upd p rx ev nm _

/-- a step that does not touch `(name, L)` leaves that series alone -/
theorem step_frame {p p' : Pipe V} {rx : Rx} {ev : Ev V} {tags : Labels}
    (h : handleEvent p rx ev tags = some (.ok p')) (name : Bytes) (L : Labels)
    (hno : ∀ t, touchOf p rx ev tags = some t → t.addresses name L = false) :
    p'.reg.series? name L = p.reg.series? name L := by
  rcases step_cases h with ⟨_, hr, _⟩ | ⟨c, pl, reg, ht, hg, e, htouch⟩
  · rw [hr]
  · subst e
    apply applied_series_frame (evTarget_keeps ht) hg
    intro ⟨h1, h2⟩
    have := hno _ htouch
    simp [Touch.addresses, h1, h2] at this

theorem addresses_iff (t : Touch V) (name : Bytes) (L : Labels) :
    t.addresses name L = true ↔ t.name = name ∧ t.labels = L := by
  simp [Touch.addresses]

/-- a step whose touch addresses an existing series `s0`: the update applied to `s0` (clock and ttl restarted) -/
theorem step_hit {p p' : Pipe V} {rx : Rx} {ev : Ev V} {tags : Labels} (hw : RegWF p.reg)
    (h : handleEvent p rx ev tags = some (.ok p')) {t : Touch V} (ht : touchOf p rx ev tags = some t)
    (s0 : Series V) (hs0 : p.reg.series? t.name t.labels = some s0) :
    ∃ v s0', p.reg.vec? t.name (t.labels.map (·.1)) = some v ∧ s0'.sameValue s0 ∧
      p'.reg.series? t.name t.labels = some (t.upd v s0') := by
  rcases step_cases h with ⟨h0, _, _⟩ | ⟨c, pl, reg, hta, hg, e, htouch⟩
  · rw [h0] at ht; cases ht
  · rw [htouch] at ht; injection ht with ht; subst ht; subst e
    obtain ⟨v, hv, hs⟩ := applied_hit (c := c) hw (evTarget_keeps hta) hg s0 hs0
    exact ⟨v, _, hv, sameValue_restart s0 _ _, hs⟩

/-- a step whose touch addresses a series that does not exist: the update applied to the fresh series,
    in the vector the series now belongs to -/
theorem step_created {p p' : Pipe V} {rx : Rx} {ev : Ev V} {tags : Labels}
    (h : handleEvent p rx ev tags = some (.ok p')) {t : Touch V} (ht : touchOf p rx ev tags = some t)
    (hnone : p.reg.series? t.name t.labels = none) :
    ∃ v s0', p'.reg.vec? t.name (t.labels.map (·.1)) = some v ∧ s0'.sameValue (zeroSeries t.ty v t.labels) ∧
      p'.reg.series? t.name t.labels = some (t.upd v s0') := by
  rcases step_cases h with ⟨h0, _, _⟩ | ⟨c, pl, reg, hta, hg, e, htouch⟩
  · rw [h0] at ht; cases ht
  · rw [htouch] at ht; injection ht with ht; subst ht; subst e
    have hs := applied_created (c := c) (evTarget_keeps hta) hg hnone
    obtain ⟨s, _, _, _, _, hcase⟩ := getOrCreate_addressed hg
    rcases hcase with ⟨s0, hs0, _⟩ | ⟨_, _, hvec⟩
    · simp only at hnone; rw [hnone] at hs0; cases hs0
    · refine ⟨p.reg.vecFor pl.1 pl.2.1, _, ?_, freshSeries_sameValue _ _ _ _, hs⟩
      simp only [appliedPipe]
      rw [vec?_updateSeries]; exact hvec

/-- vectors are never changed or removed by a step -/
theorem step_vec_keep {p p' : Pipe V} {rx : Rx} {ev : Ev V} {tags : Labels}
    (h : handleEvent p rx ev tags = some (.ok p')) (name : Bytes) (names : List Bytes) (v : VecM V)
    (hv : p.reg.vec? name names = some v) : p'.reg.vec? name names = some v := by
  rcases step_cases h with ⟨_, hr, _⟩ | ⟨c, pl, reg, _, hg, e, _⟩
  · rw [hr]; exact hv
  · subst e; exact applied_vec_keep hg name names v hv

/-- after an applied step the addressed name has the requested type -/
theorem step_type {p p' : Pipe V} {rx : Rx} {ev : Ev V} {tags : Labels}
    (h : handleEvent p rx ev tags = some (.ok p')) {t : Touch V} (ht : touchOf p rx ev tags = some t) :
    p'.reg.type? t.name = some t.ty := by
  rcases step_cases h with ⟨h0, _, _⟩ | ⟨c, pl, reg, _, hg, e, htouch⟩
  · rw [h0] at ht; cases ht
  · rw [htouch] at ht; injection ht with ht; subst ht; subst e
    rw [applied_type? hg]; simp

/-- after an applied step the addressed series exists -/
theorem step_exists {p p' : Pipe V} {rx : Rx} {ev : Ev V} {tags : Labels}
    (h : handleEvent p rx ev tags = some (.ok p')) {t : Touch V} (ht : touchOf p rx ev tags = some t) :
    ∃ s, p'.reg.series? t.name t.labels = some s := by
  rcases step_cases h with ⟨h0, _, _⟩ | ⟨c, pl, reg, hta, hg, e, htouch⟩
  · rw [h0] at ht; cases ht
  · rw [htouch] at ht; injection ht with ht; subst ht; subst e
    obtain ⟨s, _, hs, _⟩ := applied_addressed (c := c) (evTarget_keeps hta) hg
    exact ⟨_, hs⟩

/-- a series that exists survives every step (there is no sweep inside `handleEvent`) -/
theorem step_series_stays {p p' : Pipe V} {rx : Rx} {ev : Ev V} {tags : Labels}
    (h : handleEvent p rx ev tags = some (.ok p')) (name : Bytes) (L : Labels)
    (hs : (p.reg.series? name L).isSome = true) : (p'.reg.series? name L).isSome = true := by
  cases ht : touchOf p rx ev tags with
  | none => rw [step_frame h name L (by intro t h'; rw [ht] at h'; cases h')]; exact hs
  | some t =>
    by_cases ha : t.addresses name L = true
    · obtain ⟨h1, h2⟩ := (addresses_iff t name L).mp ha
      subst h1; subst h2
      obtain ⟨s, hs'⟩ := step_exists h ht
      rw [hs']; rfl
    · rw [step_frame h name L (by intro t' h'; rw [ht] at h'; injection h' with h'; subst h'; simpa using ha)]
      exact hs

/-! ### histories -/

theorem runEvs_nil (rx : Rx) (p : Pipe V) : runEvs rx p [] = some (.ok p) := rfl

/-- inversion of a successful history with at least one event -/
theorem runEvs_cons_ok {rx : Rx} {p p' : Pipe V} {ev : Ev V} {tags : Labels} {rest : List (Ev V × Labels)}
    (h : runEvs rx p ((ev, tags) :: rest) = some (.ok p')) :
    ∃ p1, handleEvent p rx ev tags = some (.ok p1) ∧ runEvs rx p1 rest = some (.ok p') := by
  simp only [runEvs] at h
  cases h1 : handleEvent p rx ev tags with
  | none => rw [h1] at h; cases h
  | some x =>
    cases x with
    | error pn => rw [h1] at h; simp only at h; injection h with h; cases h
    | ok p1 => rw [h1] at h; exact ⟨p1, rfl, h⟩

theorem trace_cons {rx : Rx} {p p1 : Pipe V} {ev : Ev V} {tags : Labels} (rest : List (Ev V × Labels))
    (h1 : handleEvent p rx ev tags = some (.ok p1)) :
    trace rx p ((ev, tags) :: rest) =
      (match touchOf p rx ev tags with
       | some t => (ev, t) :: trace rx p1 rest
       | none => trace rx p1 rest) := by
  simp only [trace, h1]
  cases touchOf p rx ev tags <;> rfl

theorem touches_cons_some {rx : Rx} {p p1 : Pipe V} {ev : Ev V} {tags : Labels} (rest : List (Ev V × Labels))
    (h1 : handleEvent p rx ev tags = some (.ok p1)) {t : Touch V} (ht : touchOf p rx ev tags = some t) :
    touches rx p ((ev, tags) :: rest) = t :: touches rx p1 rest := by
  unfold touches; rw [trace_cons rest h1, ht]; rfl

theorem touches_cons_none {rx : Rx} {p p1 : Pipe V} {ev : Ev V} {tags : Labels} (rest : List (Ev V × Labels))
    (h1 : handleEvent p rx ev tags = some (.ok p1)) (ht : touchOf p rx ev tags = none) :
    touches rx p ((ev, tags) :: rest) = touches rx p1 rest := by
  unfold touches; rw [trace_cons rest h1, ht]

theorem ownUpds_cons (name : Bytes) (L : Labels) (t : Touch V) (ts : List (Touch V)) :
    ownUpds name L (t :: ts) = if t.addresses name L then t.upd :: ownUpds name L ts else ownUpds name L ts := by
  unfold ownUpds
  rw [List.filter_cons]
  split <;> rfl

theorem specSeries_cons (s : Series V) (vec : VecM V) (u : VecM V → Series V → Series V)
    (us : List (VecM V → Series V → Series V)) : specSeries s vec (u :: us) = specSeries (u vec s) vec us := rfl

theorem specSeries_append (s : Series V) (vec : VecM V) (us ws : List (VecM V → Series V → Series V)) :
    specSeries s vec (us ++ ws) = specSeries (specSeries s vec us) vec ws := by
  unfold specSeries; rw [List.foldl_append]

/-- the fold respects `sameValue` of the starting state, when every update does -/
theorem specSeries_congr (vec : VecM V) (us : List (VecM V → Series V → Series V)) (hus : ∀ u ∈ us, UpdValue u) :
    ∀ {s t : Series V}, s.sameValue t → (specSeries s vec us).sameValue (specSeries t vec us) := by
  induction us with
  | nil => intro s t h; exact h
  | cons u us ih =>
    intro s t h
    rw [specSeries_cons, specSeries_cons]
    exact ih (fun w hw => hus w (List.mem_cons_of_mem _ hw)) (hus u List.mem_cons_self vec s t h)

/-- the mapper and the clock are the same all along a history -/
theorem runEvs_keeps {rx : Rx} (evs : List (Ev V × Labels)) :
    ∀ {p p' : Pipe V}, runEvs rx p evs = some (.ok p') → p'.mapper = p.mapper ∧ p'.now = p.now := by
  induction evs with
  | nil => intro p p' h; simp only [runEvs] at h; injection h with h; injection h with h; subst h; exact ⟨rfl, rfl⟩
  | cons e rest ih =>
    intro p p' h
    obtain ⟨ev, tags⟩ := e
    obtain ⟨p1, h1, h2⟩ := runEvs_cons_ok h
    have k1 := handleEvent_keeps h1
    have k2 := ih h2
    exact ⟨k2.1.trans k1.1, k2.2.trans k1.2⟩

theorem RegWF_runEvs {rx : Rx} (evs : List (Ev V × Labels)) :
    ∀ {p p' : Pipe V}, RegWF p.reg → runEvs rx p evs = some (.ok p') → RegWF p'.reg := by
  induction evs with
  | nil => intro p p' hw h; simp only [runEvs] at h; injection h with h; injection h with h; subst h; exact hw
  | cons e rest ih =>
    intro p p' hw h
    obtain ⟨ev, tags⟩ := e
    obtain ⟨p1, h1, h2⟩ := runEvs_cons_ok h
    exact ih (RegWF_handleEvent hw h1) h2

theorem runEvs_vec_keep {rx : Rx} (name : Bytes) (names : List Bytes) (v : VecM V) (evs : List (Ev V × Labels)) :
    ∀ {p p' : Pipe V}, runEvs rx p evs = some (.ok p') → p.reg.vec? name names = some v →
      p'.reg.vec? name names = some v := by
  induction evs with
  | nil => intro p p' h hv; simp only [runEvs] at h; injection h with h; injection h with h; subst h; exact hv
  | cons e rest ih =>
    intro p p' h hv
    obtain ⟨ev, tags⟩ := e
    obtain ⟨p1, h1, h2⟩ := runEvs_cons_ok h
    exact ih h2 (step_vec_keep h1 name names v hv)

theorem runEvs_type_keep {rx : Rx} (name : Bytes) (ty : MType) (evs : List (Ev V × Labels)) :
    ∀ {p p' : Pipe V}, runEvs rx p evs = some (.ok p') → p.reg.type? name = some ty →
      p'.reg.type? name = some ty := by
  induction evs with
  | nil => intro p p' h hv; simp only [runEvs] at h; injection h with h; injection h with h; subst h; exact hv
  | cons e rest ih =>
    intro p p' h hv
    obtain ⟨ev, tags⟩ := e
    obtain ⟨p1, h1, h2⟩ := runEvs_cons_ok h
    exact ih h2 (handleEvent_type_keep h1 name ty hv)

theorem runEvs_series_stays {rx : Rx} (name : Bytes) (L : Labels) (evs : List (Ev V × Labels)) :
    ∀ {p p' : Pipe V}, runEvs rx p evs = some (.ok p') → (p.reg.series? name L).isSome = true →
      (p'.reg.series? name L).isSome = true := by
  induction evs with
  | nil => intro p p' h hv; simp only [runEvs] at h; injection h with h; injection h with h; subst h; exact hv
  | cons e rest ih =>
    intro p p' h hv
    obtain ⟨ev, tags⟩ := e
    obtain ⟨p1, h1, h2⟩ := runEvs_cons_ok h
    exact ih h2 (step_series_stays h1 name L hv)

/-- every entry of the trace is an applied event with the protocol's type and update (read in the
    initial state: the mapper never changes along the history) -/
theorem trace_spec {rx : Rx} (evs : List (Ev V × Labels)) :
    ∀ {p p' : Pipe V}, runEvs rx p evs = some (.ok p') → ∀ et ∈ trace rx p evs,
      et.2.ty = evType p rx et.1 ∧ et.2.upd = evUpd p rx et.1 := by
  induction evs with
  | nil => intro p p' _ et h; simp [trace] at h
  | cons e rest ih =>
    intro p p' h et het
    obtain ⟨ev, tags⟩ := e
    obtain ⟨p1, h1, h2⟩ := runEvs_cons_ok h
    have hm := (handleEvent_keeps h1).1
    have hrest : ∀ et ∈ trace rx p1 rest, et.2.ty = evType p rx et.1 ∧ et.2.upd = evUpd p rx et.1 := by
      intro et het
      have := ih h2 et het
      rw [evType_congr hm, evUpd_congr hm] at this
      exact this
    rw [trace_cons rest h1] at het
    cases ht : touchOf p rx ev tags with
    | none => rw [ht] at het; exact hrest et het
    | some t =>
      rw [ht] at het
      rcases List.mem_cons.mp het with e | het
      · subst e; exact touchOf_spec ht
      · exact hrest et het

/-- every entry of the trace passed the negative / NaN check of counter samples -/
theorem trace_not_bad {rx : Rx} (evs : List (Ev V × Labels)) :
    ∀ {p p' : Pipe V}, runEvs rx p evs = some (.ok p') → ∀ et ∈ trace rx p evs, evBadCounter p rx et.1 = false := by
  induction evs with
  | nil => intro p p' _ et h; simp [trace] at h
  | cons e rest ih =>
    intro p p' h et het
    obtain ⟨ev', tags⟩ := e
    obtain ⟨p1, h1, h2⟩ := runEvs_cons_ok h
    have hm1 := (handleEvent_keeps h1).1
    have hrest : ∀ et ∈ trace rx p1 rest, evBadCounter p rx et.1 = false := by
      intro et het
      have := ih h2 et het
      unfold evBadCounter at this ⊢
      rw [evValue_congr hm1] at this
      exact this
    rw [trace_cons rest h1] at het
    cases ht : touchOf p rx ev' tags with
    | none => rw [ht] at het; exact hrest et het
    | some t' =>
      rw [ht] at het
      rcases List.mem_cons.mp het with e | het
      · subst e
        obtain ⟨c, pl, _, hta, _, _⟩ := touchOf_eq_some ht
        exact (evTarget_spec hta).2.1
      · exact hrest et het

theorem touches_updValue {rx : Rx} {evs : List (Ev V × Labels)} {p p' : Pipe V}
    (h : runEvs rx p evs = some (.ok p')) : ∀ t ∈ touches rx p evs, UpdValue t.upd := by
  intro t ht
  unfold touches at ht
  obtain ⟨et, het, e⟩ := List.mem_map.mp ht
  subst e
  rw [(trace_spec evs h et het).2]
  exact evUpd_value _ _ _

theorem ownUpds_updValue {name : Bytes} {L : Labels} {ts : List (Touch V)} (h : ∀ t ∈ ts, UpdValue t.upd) :
    ∀ u ∈ ownUpds name L ts, UpdValue u := by
  intro u hu
  unfold ownUpds at hu
  obtain ⟨t, ht, e⟩ := List.mem_map.mp hu
  subst e
  exact h t (List.mem_filter.mp ht).1

/-! ### the compositional theorem -/

/-- **existing series**: the final state is the fold of the series' own updates, starting from its state `s0` -/
theorem existing_fold (rx : Rx) (name : Bytes) (L : Labels) (vec : VecM V) (evs : List (Ev V × Labels)) :
    ∀ (p p' : Pipe V) (s0 : Series V), RegWF p.reg → runEvs rx p evs = some (.ok p') →
      p.reg.series? name L = some s0 → p.reg.vec? name (L.map (·.1)) = some vec →
      ∃ s, p'.reg.series? name L = some s ∧
        s.sameValue (specSeries s0 vec (ownUpds name L (touches rx p evs))) := by
  induction evs with
  | nil =>
    intro p p' s0 _ h hs0 _
    simp only [runEvs] at h; injection h with h; injection h with h; subst h
    exact ⟨s0, hs0, Series.sameValue_refl _⟩
  | cons e rest ih =>
    intro p p' s0 hw h hs0 hvec
    obtain ⟨ev, tags⟩ := e
    obtain ⟨p1, h1, h2⟩ := runEvs_cons_ok h
    have hw1 := RegWF_handleEvent hw h1
    have hvec1 := step_vec_keep h1 name _ vec hvec
    cases ht : touchOf p rx ev tags with
    | none =>
      rw [touches_cons_none rest h1 ht]
      have hfr := step_frame h1 name L (by intro t h'; rw [ht] at h'; cases h')
      exact ih p1 p' s0 hw1 h2 (hfr.trans hs0) hvec1
    | some t =>
      rw [touches_cons_some rest h1 ht, ownUpds_cons]
      by_cases ha : t.addresses name L = true
      · rw [if_pos ha]
        obtain ⟨e1, e2⟩ := (addresses_iff t name L).mp ha
        subst e1; subst e2
        obtain ⟨v, s0', hv, hsv, hs1⟩ := step_hit hw h1 ht s0 hs0
        rw [hvec] at hv; injection hv with hv; subst hv
        obtain ⟨s, hs, hval⟩ := ih p1 p' _ hw1 h2 hs1 hvec1
        refine ⟨s, hs, Series.sameValue_trans hval ?_⟩
        rw [specSeries_cons]
        apply specSeries_congr _ _ (ownUpds_updValue (touches_updValue h2))
        have hu : UpdValue t.upd := by rw [(touchOf_spec ht).2]; exact evUpd_value _ _ _
        exact hu _ _ _ hsv
      · rw [if_neg ha]
        have hfr := step_frame h1 name L
          (by intro t' h'; rw [ht] at h'; injection h' with h'; subst h'; simpa using ha)
        exact ih p1 p' s0 hw1 h2 (hfr.trans hs0) hvec1

/-- **new series**: a series that does not exist before the history and exists after it was created by the
    first of its own touches, in the vector `vec` it belongs to at the end (the one that touch created or
    found), and its final state is the fold of all its own updates from the zero series -/
theorem new_fold (rx : Rx) (name : Bytes) (L : Labels) (evs : List (Ev V × Labels)) :
    ∀ (p p' : Pipe V) (s : Series V), RegWF p.reg → runEvs rx p evs = some (.ok p') →
      p.reg.series? name L = none → p'.reg.series? name L = some s →
      ∃ t0 ts vec, (touches rx p evs).filter (·.addresses name L) = t0 :: ts ∧
        p'.reg.vec? name (L.map (·.1)) = some vec ∧
        s.sameValue (specSeries (zeroSeries t0.ty vec L) vec (ownUpds name L (touches rx p evs))) := by
  induction evs with
  | nil =>
    intro p p' s _ h hnone hs
    simp only [runEvs] at h; injection h with h; injection h with h; subst h
    rw [hnone] at hs; cases hs
  | cons e rest ih =>
    intro p p' s hw h hnone hs
    obtain ⟨ev, tags⟩ := e
    obtain ⟨p1, h1, h2⟩ := runEvs_cons_ok h
    have hw1 := RegWF_handleEvent hw h1
    cases ht : touchOf p rx ev tags with
    | none =>
      rw [touches_cons_none rest h1 ht]
      have hfr := step_frame h1 name L (by intro t h'; rw [ht] at h'; cases h')
      exact ih p1 p' s hw1 h2 (hfr.trans hnone) hs
    | some t =>
      rw [touches_cons_some rest h1 ht, ownUpds_cons, List.filter_cons]
      by_cases ha : t.addresses name L = true
      · rw [if_pos ha, if_pos ha]
        obtain ⟨e1, e2⟩ := (addresses_iff t name L).mp ha
        subst e1; subst e2
        obtain ⟨v, s0', hv, hsv, hs1⟩ := step_created h1 ht hnone
        obtain ⟨s', hs', hval⟩ := existing_fold rx t.name t.labels v rest p1 p' _ hw1 h2 hs1 hv
        rw [hs] at hs'; injection hs' with hs'; subst hs'
        refine ⟨t, _, v, rfl, runEvs_vec_keep _ _ v rest h2 hv, Series.sameValue_trans hval ?_⟩
        rw [specSeries_cons]
        apply specSeries_congr _ _ (ownUpds_updValue (touches_updValue h2))
        have hu : UpdValue t.upd := by rw [(touchOf_spec ht).2]; exact evUpd_value _ _ _
        exact hu _ _ _ hsv
      · rw [if_neg ha, if_neg ha]
        have hfr := step_frame h1 name L
          (by intro t' h'; rw [ht] at h'; injection h' with h'; subst h'; simpa using ha)
        exact ih p1 p' s hw1 h2 (hfr.trans hnone) hs

/-! ### "and no others" -/

/-- a series with no own touch in the history is exactly as it was (present or absent) -/
theorem untouched_frame (rx : Rx) (name : Bytes) (L : Labels) (evs : List (Ev V × Labels)) :
    ∀ (p p' : Pipe V), runEvs rx p evs = some (.ok p') →
      (∀ t ∈ touches rx p evs, t.addresses name L = false) →
      p'.reg.series? name L = p.reg.series? name L := by
  induction evs with
  | nil =>
    intro p p' h _
    simp only [runEvs] at h; injection h with h; injection h with h; subst h; rfl
  | cons e rest ih =>
    intro p p' h hno
    obtain ⟨ev, tags⟩ := e
    obtain ⟨p1, h1, h2⟩ := runEvs_cons_ok h
    cases ht : touchOf p rx ev tags with
    | none =>
      rw [touches_cons_none rest h1 ht] at hno
      rw [ih p1 p' h2 hno]
      exact step_frame h1 name L (by intro t h'; rw [ht] at h'; cases h')
    | some t =>
      rw [touches_cons_some rest h1 ht] at hno
      rw [ih p1 p' h2 (fun t' ht' => hno t' (List.mem_cons_of_mem _ ht'))]
      exact step_frame h1 name L
        (by intro t' h'; rw [ht] at h'; injection h' with h'; subst h'; exact hno _ List.mem_cons_self)

/-- every touched series exists at the end, with the touch's type -/
theorem touched_exists (rx : Rx) (evs : List (Ev V × Labels)) :
    ∀ (p p' : Pipe V), runEvs rx p evs = some (.ok p') → ∀ t ∈ touches rx p evs,
      (p'.reg.series? t.name t.labels).isSome = true ∧ p'.reg.type? t.name = some t.ty := by
  induction evs with
  | nil => intro p p' _ t ht; simp [touches, trace] at ht
  | cons e rest ih =>
    intro p p' h t ht
    obtain ⟨ev, tags⟩ := e
    obtain ⟨p1, h1, h2⟩ := runEvs_cons_ok h
    cases hto : touchOf p rx ev tags with
    | none =>
      rw [touches_cons_none rest h1 hto] at ht
      exact ih p1 p' h2 t ht
    | some t0 =>
      rw [touches_cons_some rest h1 hto] at ht
      rcases List.mem_cons.mp ht with e | ht
      · subst e
        obtain ⟨s, hs⟩ := step_exists h1 hto
        exact ⟨runEvs_series_stays _ _ rest h2 (by rw [hs]; rfl), runEvs_type_keep _ _ rest h2 (step_type h1 hto)⟩
      · exact ih p1 p' h2 t ht

/-! ### the history formats of the other properties are instances -/

/-- all events of one line = a history in which every event carries the line's tags -/
theorem handleEvents_eq_runEvs (rx : Rx) (tags : Labels) (evs : List (Ev V)) :
    ∀ p : Pipe V, handleEvents p rx tags evs = runEvs rx p (evs.map fun e => (e, tags)) := by
  induction evs with
  | nil => intro p; rfl
  | cons e es ih =>
    intro p
    simp only [handleEvents, List.map_cons, runEvs]
    cases handleEvent p rx e tags with
    | none => rfl
    | some x =>
      cases x with
      | error pn => rfl
      | ok p1 => exact ih p1

/-- the events of a list of parsed lines, each with its line's tags -/
def lineEvs (ls : List (Labels × List (Ev V))) : List (Ev V × Labels) :=
  ls.flatMap fun l => l.2.map fun e => (e, l.1)

theorem runEvs_append (rx : Rx) (es fs : List (Ev V × Labels)) :
    ∀ p : Pipe V, runEvs rx p (es ++ fs) =
      match runEvs rx p es with
      | some (.ok p') => runEvs rx p' fs
      | other => other := by
  induction es with
  | nil => intro p; rfl
  | cons e es ih =>
    intro p
    obtain ⟨ev, tags⟩ := e
    simp only [List.cons_append, runEvs]
    cases handleEvent p rx ev tags with
    | none => rfl
    | some x =>
      cases x with
      | error pn => rfl
      | ok p1 => exact ih p1

/-- a `runOps` history consisting of lines only (no sweep, clock change or reload) is a `runEvs` history -/
theorem runOps_lines_eq_runEvs (rx : Rx) (ls : List (Labels × List (Ev V))) :
    ∀ p : Pipe V, runOps rx p (ls.map fun l => PipeOp.line l.1 l.2) = runEvs rx p (lineEvs ls) := by
  induction ls with
  | nil => intro p; rfl
  | cons l ls ih =>
    intro p
    simp only [List.map_cons, runOps, lineEvs, List.flatMap_cons]
    rw [runEvs_append, ← handleEvents_eq_runEvs]
    cases handleEvents p rx l.1 l.2 with
    | none => rfl
    | some x =>
      cases x with
      | error pn => rfl
      | ok p1 => exact ih p1

end SE
