import SE.Model.Bytes
/-
Reusable lemmas about the byte-string helpers of SE/Model/Bytes.lean on concatenations.
-/
namespace SE

theorem ne_of_not_mem_cons {c b : UInt8} {a : Bytes} (h : c ∉ b :: a) : b ≠ c ∧ c ∉ a := by
  simp only [List.mem_cons, not_or] at h
  exact ⟨fun e => h.1 e.symm, h.2⟩

/-! ### cut -/

theorem cut_of_not_mem {c : UInt8} {a : Bytes} (h : c ∉ a) : cut c a = none := by
  induction a with
  | nil => rfl
  | cons b bs ih =>
    obtain ⟨hb, hbs⟩ := ne_of_not_mem_cons h
    simp [cut, hb, ih hbs]

theorem cut_append {c : UInt8} {a : Bytes} (b : Bytes) (h : c ∉ a) :
    cut c (a ++ c :: b) = some (a, b) := by
  induction a with
  | nil => simp [cut]
  | cons x xs ih =>
    obtain ⟨hx, hxs⟩ := ne_of_not_mem_cons h
    simp [cut, hx, ih hxs]

theorem cut_some {c : UInt8} {s a b : Bytes} (h : cut c s = some (a, b)) :
    s = a ++ c :: b ∧ c ∉ a := by
  induction s generalizing a with
  | nil => simp [cut] at h
  | cons x xs ih =>
    unfold cut at h
    by_cases hx : x = c
    · subst hx
      simp at h
      obtain ⟨h1, h2⟩ := h
      subst h1; subst h2
      simp
    · simp only [beq_iff_eq, hx, if_false] at h
      cases hc : cut c xs with
      | none => simp [hc] at h
      | some lr =>
        obtain ⟨l, r⟩ := lr
        simp [hc] at h
        obtain ⟨h1, h2⟩ := h
        subst h1; subst h2
        obtain ⟨e, hn⟩ := ih hc
        refine ⟨by simp [e], ?_⟩
        simp only [List.mem_cons, not_or]
        exact ⟨fun e => hx e.symm, hn⟩

theorem cut_none {c : UInt8} {s : Bytes} (h : cut c s = none) : c ∉ s := by
  induction s with
  | nil => simp
  | cons x xs ih =>
    unfold cut at h
    by_cases hx : x = c
    · simp [hx] at h
    · simp only [beq_iff_eq, hx, if_false] at h
      cases hc : cut c xs with
      | none =>
        simp only [List.mem_cons, not_or]
        exact ⟨fun e => hx e.symm, ih hc⟩
      | some lr => obtain ⟨l, r⟩ := lr; simp [hc] at h

/-- a string containing `c` can be cut -/
theorem cut_of_mem {c : UInt8} {s : Bytes} (h : c ∈ s) : ∃ a b, cut c s = some (a, b) := by
  cases hc : cut c s with
  | none => exact absurd h (cut_none hc)
  | some ab => exact ⟨ab.1, ab.2, rfl⟩

/-! ### splitOn -/

theorem splitOn_ne_nil (c : UInt8) (s : Bytes) : splitOn c s ≠ [] := by
  induction s with
  | nil => simp [splitOn]
  | cons b bs ih =>
    unfold splitOn
    split
    · simp
    · split <;> simp

theorem splitOn_cons_eq (c : UInt8) (bs : Bytes) : splitOn c (c :: bs) = [] :: splitOn c bs := by
  simp [splitOn]

theorem splitOn_cons_ne {c b : UInt8} {bs p : Bytes} {ps : List Bytes} (hb : b ≠ c)
    (h : splitOn c bs = p :: ps) : splitOn c (b :: bs) = (b :: p) :: ps := by
  simp [splitOn, hb, h]

theorem splitOn_exists (c : UInt8) (s : Bytes) : ∃ p ps, splitOn c s = p :: ps := by
  cases h : splitOn c s with
  | nil => exact absurd h (splitOn_ne_nil c s)
  | cons p ps => exact ⟨p, ps, rfl⟩

theorem splitOn_of_not_mem {c : UInt8} {a : Bytes} (h : c ∉ a) : splitOn c a = [a] := by
  induction a with
  | nil => rfl
  | cons b bs ih =>
    obtain ⟨hb, hbs⟩ := ne_of_not_mem_cons h
    exact splitOn_cons_ne hb (ih hbs)

/-- `strings.Split` distributes over a separator occurrence -/
theorem splitOn_append_sep (c : UInt8) (s t : Bytes) :
    splitOn c (s ++ c :: t) = splitOn c s ++ splitOn c t := by
  induction s with
  | nil => simp [splitOn]
  | cons b bs ih =>
    by_cases hb : b = c
    · subst hb
      simp only [List.cons_append, splitOn_cons_eq, ih]
    · obtain ⟨p, ps, hp⟩ := splitOn_exists c bs
      have h1 : splitOn c (bs ++ c :: t) = p :: (ps ++ splitOn c t) := by rw [ih, hp]; rfl
      rw [List.cons_append, splitOn_cons_ne hb h1, splitOn_cons_ne hb hp]
      rfl

theorem splitOn_append {c : UInt8} {a : Bytes} (b : Bytes) (h : c ∉ a) :
    splitOn c (a ++ c :: b) = a :: splitOn c b := by
  rw [splitOn_append_sep, splitOn_of_not_mem h]; rfl

/-- no piece of a split contains the separator -/
theorem not_mem_of_mem_splitOn {c : UInt8} {s p : Bytes} (h : p ∈ splitOn c s) : c ∉ p := by
  induction s generalizing p with
  | nil => simp [splitOn] at h; subst h; simp
  | cons b bs ih =>
    by_cases hb : b = c
    · subst hb
      rw [splitOn_cons_eq] at h
      rcases List.mem_cons.mp h with h | h
      · subst h; simp
      · exact ih h
    · obtain ⟨q, qs, hq⟩ := splitOn_exists c bs
      rw [splitOn_cons_ne hb hq] at h
      rcases List.mem_cons.mp h with h | h
      · subst h
        have : c ∉ q := ih (by rw [hq]; simp)
        simp only [List.mem_cons, not_or]
        exact ⟨fun e => hb e.symm, this⟩
      · exact ih (by rw [hq]; simp [h])

theorem joinWith_cons_cons (c : UInt8) (p q : Bytes) (ps : List Bytes) :
    joinWith c (p :: q :: ps) = p ++ c :: joinWith c (q :: ps) := rfl

theorem splitOn_joinWith {c : UInt8} {ps : List Bytes} (hne : ps ≠ [])
    (h : ∀ p ∈ ps, c ∉ p) : splitOn c (joinWith c ps) = ps := by
  induction ps with
  | nil => exact absurd rfl hne
  | cons p rest ih =>
    cases rest with
    | nil => simpa [joinWith] using splitOn_of_not_mem (h p (by simp))
    | cons q qs =>
      rw [joinWith_cons_cons, splitOn_append _ (h p (by simp)),
        ih (by simp) (fun x hx => h x (by simp [hx]))]

/-- the head piece of a split is the part before the first separator -/
theorem splitOn_head_cons {c d : UInt8} {s q : Bytes} {ps : List Bytes}
    (h : splitOn c s = (d :: q) :: ps) : ∃ r, s = d :: r := by
  cases s with
  | nil => simp [splitOn] at h
  | cons b bs =>
    by_cases hb : b = c
    · subst hb; rw [splitOn_cons_eq] at h; simp at h
    · obtain ⟨p, ps', hp⟩ := splitOn_exists c bs
      rw [splitOn_cons_ne hb hp] at h
      simp at h
      exact ⟨bs, by rw [h.1.1]⟩

/-! ### indexOf -/

theorem indexOf_of_not_mem {c : UInt8} {a : Bytes} (h : c ∉ a) : indexOf c a = none := by
  induction a with
  | nil => rfl
  | cons b bs ih =>
    obtain ⟨hb, hbs⟩ := ne_of_not_mem_cons h
    simp [indexOf, hb, ih hbs]

theorem indexOf_append {c : UInt8} {a : Bytes} (b : Bytes) (h : c ∉ a) :
    indexOf c (a ++ c :: b) = some a.length := by
  induction a with
  | nil => simp [indexOf]
  | cons x xs ih =>
    obtain ⟨hx, hxs⟩ := ne_of_not_mem_cons h
    simp [indexOf, hx, ih hxs]

/-! ### containsByte -/

theorem containsByte_eq_false {c : UInt8} {a : Bytes} (h : c ∉ a) : containsByte c a = false := by
  induction a with
  | nil => rfl
  | cons b bs ih =>
    obtain ⟨hb, hbs⟩ := ne_of_not_mem_cons h
    have := ih hbs
    simp only [containsByte] at this ⊢
    simp [hb, this]

theorem containsByte_eq_true {c : UInt8} {a : Bytes} (h : c ∈ a) : containsByte c a = true := by
  simp only [containsByte, List.any_eq_true, beq_iff_eq]
  exact ⟨c, h, rfl⟩

/-! ### containsSub -/

theorem containsSub_cons (sub : Bytes) (b : UInt8) (bs : Bytes) :
    containsSub sub (b :: bs) = (sub.isPrefixOf (b :: bs) || containsSub sub bs) := rfl

/-- bytes different from the first byte of the pattern can be skipped -/
theorem containsSub_skip {x : UInt8} (ys : Bytes) {a : Bytes} (t : Bytes) (h : x ∉ a) :
    containsSub (x :: ys) (a ++ t) = containsSub (x :: ys) t := by
  induction a with
  | nil => rfl
  | cons b bs ih =>
    obtain ⟨hb, hbs⟩ := ne_of_not_mem_cons h
    have hb' : x ≠ b := fun e => hb e.symm
    rw [List.cons_append, containsSub_cons, ih hbs]
    simp [List.isPrefixOf, hb']

theorem containsSub_of_suffix {sub : Bytes} (a : Bytes) {t : Bytes} (h : containsSub sub t = true) :
    containsSub sub (a ++ t) = true := by
  induction a with
  | nil => exact h
  | cons b bs ih => rw [List.cons_append, containsSub_cons, ih]; simp

theorem containsSub_of_prefix {x : UInt8} {ys : Bytes} {a : Bytes} (t : Bytes)
    (h : containsSub (x :: ys) a = true) : containsSub (x :: ys) (a ++ t) = true := by
  induction a with
  | nil => simp [containsSub] at h
  | cons b bs ih =>
    rw [containsSub_cons, Bool.or_eq_true] at h
    rw [List.cons_append, containsSub_cons, Bool.or_eq_true]
    rcases h with h | h
    · left
      rw [List.isPrefixOf_iff_prefix] at h ⊢
      exact h.trans (List.prefix_append (b :: bs) t)
    · right; exact ih h

theorem containsSub_pattern (sub t : Bytes) (hs : sub ≠ []) : containsSub sub (sub ++ t) = true := by
  cases sub with
  | nil => exact absurd rfl hs
  | cons x ys =>
    rw [List.cons_append, containsSub_cons, Bool.or_eq_true]
    left
    rw [← List.cons_append, List.isPrefixOf_iff_prefix]
    exact List.prefix_append _ _

/-- a later piece of a `c`-split that starts with `d` witnesses the two-byte pattern `c d` -/
theorem containsSub_of_piece {c d : UInt8} {s p q : Bytes} {ps : List Bytes}
    (h : splitOn c s = p :: ps) (hq : (d :: q) ∈ ps) : containsSub [c, d] s = true := by
  induction s generalizing p ps with
  | nil => simp [splitOn] at h; obtain ⟨_, h2⟩ := h; subst h2; simp at hq
  | cons b bs ih =>
    rw [containsSub_cons, Bool.or_eq_true]
    by_cases hb : b = c
    · subst hb
      rw [splitOn_cons_eq] at h
      simp only [List.cons.injEq] at h
      obtain ⟨_, h2⟩ := h
      obtain ⟨p', ps', hp⟩ := splitOn_exists b bs
      rw [hp] at h2
      subst h2
      rcases List.mem_cons.mp hq with e | hq'
      · subst e
        obtain ⟨r, hr⟩ := splitOn_head_cons hp
        left; subst hr; simp [List.isPrefixOf]
      · right; exact ih hp hq'
    · obtain ⟨p', ps', hp⟩ := splitOn_exists c bs
      rw [splitOn_cons_ne hb hp] at h
      simp only [List.cons.injEq] at h
      obtain ⟨_, h2⟩ := h
      subst h2
      right; exact ih hp hq

/-! ### splitN3 -/

theorem splitN3_of_not_mem {c : UInt8} {s : Bytes} (h : c ∉ s) : splitN3 c s = [s] := by
  simp [splitN3, cut_of_not_mem h]

theorem splitN3_two {c : UInt8} {a r : Bytes} (ha : c ∉ a) (hr : c ∉ r) :
    splitN3 c (a ++ c :: r) = [a, r] := by
  simp [splitN3, cut_append r ha, cut_of_not_mem hr]

theorem splitN3_three {c : UInt8} {a b : Bytes} (r : Bytes) (ha : c ∉ a) (hb : c ∉ b) :
    splitN3 c (a ++ c :: (b ++ c :: r)) = [a, b, r] := by
  simp [splitN3, cut_append _ ha, cut_append r hb]

/-- shape of `SplitN(s, sep, 3)` on a string with at least one separator -/
theorem splitN3_of_cut {c : UInt8} {s a r : Bytes} (h : cut c s = some (a, r)) :
    ∃ p1 tl, splitN3 c s = a :: p1 :: tl ∧
      (p1 = r ∧ c ∉ r ∨ ∃ r', r = p1 ++ c :: r' ∧ c ∉ p1) := by
  cases hr : cut c r with
  | none => exact ⟨r, [], by simp [splitN3, h, hr], Or.inl ⟨rfl, cut_none hr⟩⟩
  | some bc =>
    obtain ⟨b, c'⟩ := bc
    obtain ⟨e, hn⟩ := cut_some hr
    exact ⟨b, [c'], by simp [splitN3, h, hr], Or.inr ⟨c', e, hn⟩⟩

end SE
