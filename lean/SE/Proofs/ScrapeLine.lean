import SE.Proofs.Line
import SE.Proofs.LineTags
/-
C01, the line side: the events of a single-sample line `name:v|T` or `name:v|T|@r`.
A sampled timer/histogram/distribution yields `int(1/r)` identical events, a sampled counter one event
with the value divided by `r`, `ms` values are divided by 1000.
-/
set_option linter.unusedSectionVars false
namespace SE
open NumOps
variable {V : Type} [NumOps V]

/-- the sample `v|T|@r` -/
def ratedSample (v T r : Bytes) : Bytes := v ++ cPipe :: (T ++ cPipe :: cAt :: r)

/-- the sample `v|T` -/
def plainSample (v T : Bytes) : Bytes := v ++ cPipe :: T

/-- was the value written with a sign (`+x` / `-x`)? -/
def signedValue : Bytes → Bool
  | b :: _ => b == cPlus || b == cMinus
  | [] => false

/-- the sampling factor the parser uses: a rate of 0 counts as 1 -/
def effRate (rate : V) : V := if isZero rate then one else rate

/-- the events one sample contributes: `n` copies for the observers (where `n` is the multiplicity),
    one event for counters and gauges, none for sets and unknown types -/
def sampleEvents (st : StatType) (metric : Bytes) (x : V) (signed : Bool) (sf : Option V) : List (Ev V) :=
  match st with
  | .c => [⟨.counter, metric, (match sf with | some r => div x r | none => x), false⟩]
  | .g => [⟨.gauge, metric, x, signed⟩]
  | .ms => List.replicate (match sf with | some r => (recipInt r).toNat | none => 1) ⟨.observer, metric, div x thousand, false⟩
  | .h => List.replicate (match sf with | some r => (recipInt r).toNat | none => 1) ⟨.observer, metric, x, false⟩
  | .d => List.replicate (match sf with | some r => (recipInt r).toNat | none => 1) ⟨.observer, metric, x, false⟩
  | .s => []
  | .bad => []

theorem splitOn_rated {v T r : Bytes} (hv : cPipe ∉ v) (hT : cPipe ∉ T) (hr : cPipe ∉ r) :
    splitOn cPipe (ratedSample v T r) = [v, T, cAt :: r] := by
  unfold ratedSample
  rw [splitOn_append _ hv, splitOn_append _ hT, splitOn_of_not_mem]
  intro h
  rcases List.mem_cons.mp h with e | h
  · exact absurd e (by decide)
  · exact hr h

theorem splitOn_plain {v T : Bytes} (hv : cPipe ∉ v) (hT : cPipe ∉ T) :
    splitOn cPipe (plainSample v T) = [v, T] := by
  unfold plainSample
  rw [splitOn_append _ hv, splitOn_of_not_mem hT]

/-- the events of the sample `v|T|@r` -/
theorem parseSample_rated_events (fl : ParserFlags) (pf : Pf V) (metric : Bytes) (o : ParseOut V)
    {v T r : Bytes} (hv : cPipe ∉ v) (hT : cPipe ∉ T) (hr : cPipe ∉ r) {x : V} (hx : pf v = (x, .ok)) :
    (parseSample fl pf metric o (ratedSample v T r)).events =
      o.events ++ sampleEvents (statTypeOf T) metric x (signedValue v) (some (effRate (pf r).1)) := by
  have hat : (cAt == cAt) = true := rfl
  unfold parseSample
  simp only [splitOn_rated hv hT hr, hx]
  simp only [List.length_cons, List.length_nil, List.foldl_cons, List.foldl_nil, stepComponent, hat, if_true]
  unfold sampleEvents effRate signedValue
  cases statTypeOf T <;> by_cases he : ((pf r).2 != PfErr.ok) = true <;>
    simp [he, buildEvent] <;> (try split) <;> (try simp) <;> (try (cases v <;> rfl))

/-- the events of the sample `v|T` -/
theorem parseSample_plain_events (fl : ParserFlags) (pf : Pf V) (metric : Bytes) (o : ParseOut V)
    {v T : Bytes} (hv : cPipe ∉ v) (hT : cPipe ∉ T) {x : V} (hx : pf v = (x, .ok)) :
    (parseSample fl pf metric o (plainSample v T)).events =
      o.events ++ sampleEvents (statTypeOf T) metric x (signedValue v) none := by
  unfold parseSample
  simp only [splitOn_plain hv hT, hx]
  unfold sampleEvents signedValue
  cases statTypeOf T <;> simp [buildEvent] <;> (try split) <;> (try simp) <;> (try (cases v <;> rfl))

/-- a metric name that no enabled tagging style can cut -/
structure PlainName (fl : ParserFlags) (name : Bytes) : Prop where
  ne : name ≠ []
  colon : cColon ∉ name
  hash : fl.librato = true → cHash ∉ name
  comma : fl.influxdb = true → cComma ∉ name
  lbr : fl.signalfx = true → cLBr ∉ name
  rbr : fl.signalfx = true → cRBr ∉ name

/-- the line `name:v|T|@r` -/
theorem line_rated_events (fl : ParserFlags) (pf : Pf V) {name v T r : Bytes} (hn : PlainName fl name)
    (hv : cPipe ∉ v) (hvc : cColon ∉ v) (hT : cPipe ∉ T) (hTc : cColon ∉ T) (hr : cPipe ∉ r) (hrc : cColon ∉ r)
    {x : V} (hx : pf v = (x, .ok)) :
    (lineToEvents fl pf true (name ++ cColon :: ratedSample v T r)).events =
      sampleEvents (statTypeOf T) name x (signedValue v) (some (effRate (pf r).1)) := by
  rw [lineToEvents_eq fl pf _ hn.ne hn.colon, parseNameAndTags_plain fl hn.hash hn.comma hn.lbr hn.rbr]
  have h1 := afterName_one fl pf name [] 0 (p0 := v) (p1 := T) (rest := cPipe :: cAt :: r) hv hT
    (Or.inr ⟨_, rfl⟩) hvc hTc (Or.inr rfl)
    (by
      intro _ h
      rcases List.mem_cons.mp h with e | h
      · exact absurd e (by decide)
      · rcases List.mem_cons.mp h with e | h
        · exact absurd e (by decide)
        · exact hrc h)
  show (afterName fl pf (name, [], 0) (v ++ cPipe :: (T ++ cPipe :: cAt :: r))).events = _
  rw [h1]
  have := parseSample_rated_events fl pf name (startSt [] 0) hv hT hr hx
  unfold ratedSample at this
  rw [this]
  rfl

/-- the line `name:v|T` -/
theorem line_plain_events (fl : ParserFlags) (pf : Pf V) {name v T : Bytes} (hn : PlainName fl name)
    (hv : cPipe ∉ v) (hvc : cColon ∉ v) (hT : cPipe ∉ T) (hTc : cColon ∉ T)
    {x : V} (hx : pf v = (x, .ok)) :
    (lineToEvents fl pf true (name ++ cColon :: plainSample v T)).events =
      sampleEvents (statTypeOf T) name x (signedValue v) none := by
  rw [lineToEvents_eq fl pf _ hn.ne hn.colon, parseNameAndTags_plain fl hn.hash hn.comma hn.lbr hn.rbr]
  have h1 := afterName_one fl pf name [] 0 (p0 := v) (p1 := T) (rest := []) hv hT
    (Or.inl rfl) hvc hTc (Or.inr rfl) (by intro _ h; cases h)
  rw [List.append_nil] at h1
  show (afterName fl pf (name, [], 0) (v ++ cPipe :: T)).events = _
  rw [h1]
  have := parseSample_plain_events fl pf name (startSt [] 0) hv hT hx
  unfold plainSample at this
  rw [this]
  rfl

end SE
