import SE.Spec.Relay
/-
Helper lemmas for C17 (SE/Props/C17.lean): facts about `relayAccept`, inversion lemmas for the
three step labels of the relay machine (SE/Model/Relay.lean), and three inductive invariants over
reachable states (`RelayBound`: sizes and the packet counter, `RelayCount`: the line counters,
`RelayShape`: conservation of lines) with their preservation by every enabled step, hence by
every schedule.
-/
namespace SE

/-! ### schedules -/

theorem relayRun_append (s : RelaySt) (a b : List RelayLabel) :
    relayRun s (a ++ b) = (relayRun s a).bind (relayRun · b) := by
  induction a generalizing s with
  | nil => simp [relayRun]
  | cons x xs ih =>
    simp only [List.cons_append, relayRun]
    cases relayStep s x <;> simp [ih]

theorem acceptedOf_append (n : Nat) (a b : List RelayLabel) :
    acceptedOf n (a ++ b) = acceptedOf n a ++ acceptedOf n b := by
  simp [acceptedOf]

theorem acceptedOf_snoc (n : Nat) (a : List RelayLabel) (lab : RelayLabel) :
    acceptedOf n (a ++ [lab]) = acceptedOf n a ++ acceptedBy n lab := by
  simp [acceptedOf]

theorem longOf_snoc (n : Nat) (a : List RelayLabel) (lab : RelayLabel) :
    longOf n (a ++ [lab]) = longOf n a + (if longBy n lab then 1 else 0) := by
  simp [longOf, List.countP_append, List.countP_cons]

/-- induction over reachable states: a predicate on (schedule so far, state) that holds initially
    and is preserved by every enabled step holds after every schedule -/
theorem relayRun_induct {P : List RelayLabel → RelaySt → Prop}
    (hstep : ∀ pre s lab s', P pre s → relayStep s lab = some s' → P (pre ++ [lab]) s') :
    ∀ (sched pre : List RelayLabel) (s0 s : RelaySt), P pre s0 → relayRun s0 sched = some s →
      P (pre ++ sched) s := by
  intro sched
  induction sched with
  | nil =>
    intro pre s0 s h0 h
    simp only [relayRun, Option.some.injEq] at h
    subst h
    simpa using h0
  | cons lab rest ih =>
    intro pre s0 s h0 h
    simp only [relayRun] at h
    cases h1 : relayStep s0 lab with
    | none => rw [h1] at h; cases h
    | some s1 =>
      rw [h1, Option.bind_some] at h
      have := ih (pre ++ [lab]) s1 s (hstep pre s0 lab s1 h0 h1) h
      simpa using this

/-! ### `relayAccept` -/

theorem relayAccept_eq (n : Nat) (l : Bytes) :
    relayAccept n l = if lineFits n l then some (terminate l) else none := by
  unfold relayAccept lineFits terminate
  by_cases h1 : l.isEmpty = true
  · simp [h1]
  · by_cases h2 : l.length > n - 1
    · have : ¬ l.length ≤ n - 1 := by omega
      simp [h1, h2, this]
    · have : l.length ≤ n - 1 := by omega
      simp [h1, h2, this]

theorem terminate_good {n : Nat} {l : Bytes} (h : lineFits n l = true) : GoodLine n (terminate l) := by
  simp only [lineFits, Bool.and_eq_true, Bool.not_eq_true', decide_eq_true_eq] at h
  obtain ⟨hne, hle⟩ := h
  have hl : l ≠ [] := by intro e; subst e; simp at hne
  have hpos : 0 < l.length := List.length_pos_iff.2 hl
  unfold terminate
  split
  · rename_i hnl
    exact ⟨hl, by omega, by simpa using hnl⟩
  · exact ⟨by simp, by simp; omega, by simp⟩

theorem relayAccept_good {n : Nat} {l b : Bytes} (h : relayAccept n l = some b) : GoodLine n b := by
  rw [relayAccept_eq] at h
  split at h
  · rename_i hf
    cases h
    exact terminate_good hf
  · cases h

theorem acceptedBy_good {n : Nat} {lab : RelayLabel} {b : Bytes} (h : b ∈ acceptedBy n lab) :
    GoodLine n b := by
  cases lab with
  | line l =>
    simp only [acceptedBy, Option.mem_toList] at h
    exact relayAccept_good h
  | deq ok => simp [acceptedBy] at h
  | tick ok => simp [acceptedBy] at h

theorem acceptedOf_good {n : Nat} {sched : List RelayLabel} {b : Bytes} (h : b ∈ acceptedOf n sched) :
    GoodLine n b := by
  simp only [acceptedOf, List.mem_flatMap] at h
  obtain ⟨lab, _, hb⟩ := h
  exact acceptedBy_good hb

/-- the enqueued lines are exactly the fitting lines of the schedule, in order, each terminated -/
theorem acceptedOf_eq (n : Nat) (sched : List RelayLabel) :
    acceptedOf n sched = ((linesOf sched).filter (lineFits n)).map terminate := by
  induction sched with
  | nil => rfl
  | cons lab rest ih =>
    have hc : acceptedOf n (lab :: rest) = acceptedBy n lab ++ acceptedOf n rest := by
      simp [acceptedOf]
    rw [hc, ih]
    cases lab with
    | line l =>
      simp only [acceptedBy, relayAccept_eq, linesOf, List.filterMap_cons]
      by_cases hf : lineFits n l = true
      · simp [hf]
      · simp [hf]
    | deq ok => simp [acceptedBy, linesOf]
    | tick ok => simp [acceptedBy, linesOf]

/-! ### inversion of the step function -/

theorem sendPacket_cases (s : RelaySt) (ok : Bool) :
    (s.buffer = [] ∧ s.sendPacket ok = s) ∨
    (s.buffer ≠ [] ∧ ok = true ∧
      s.sendPacket ok = { s with sent := s.sent ++ [s.buffer], packets := s.packets + 1 }) ∨
    (s.buffer ≠ [] ∧ ok = false ∧
      s.sendPacket ok = { s with lost := s.lost ++ [s.buffer], packets := s.packets + 1 }) := by
  unfold RelaySt.sendPacket
  by_cases hb : s.buffer = []
  · left; simp [hb]
  · right
    have : s.buffer.isEmpty = false := by simpa using hb
    cases ok
    · right; simp [hb, this]
    · left; simp [hb, this]

/-- a `.line l` step appends what `relayAccept` yields to the channel and bumps the counters; it is
    enabled iff the channel has room or there is nothing to enqueue -/
theorem relayStep_line_inv {s s' : RelaySt} {l : Bytes} (h : relayStep s (.line l) = some s') :
    s' = { s with chan := s.chan ++ acceptedBy s.pktLen (.line l),
                  relayed := s.relayed + (acceptedBy s.pktLen (.line l)).length,
                  longLines := s.longLines + (if lineLong s.pktLen l then 1 else 0) } ∧
    (s.chan.length < relayChanCap ∨ relayAccept s.pktLen l = none) := by
  simp only [relayStep] at h
  simp only [acceptedBy, relayAccept, lineLong]
  by_cases h1 : l.isEmpty = true
  · rw [if_pos h1] at h
    cases h
    simp [h1]
  · rw [if_neg h1] at h
    by_cases h2 : l.length > s.pktLen - 1
    · rw [if_pos h2] at h
      cases h
      simp [h1, h2]
    · rw [if_neg h2] at h
      by_cases h3 : s.chan.length < relayChanCap
      · rw [if_pos h3] at h
        cases h
        simp [h1, h2, h3]
      · rw [if_neg h3] at h
        cases h

theorem relayStep_line_enabled (s : RelaySt) (l : Bytes)
    (h : s.chan.length < relayChanCap ∨ relayAccept s.pktLen l = none) :
    (relayStep s (.line l)).isSome = true := by
  simp only [relayStep]
  unfold relayAccept at h
  by_cases h1 : l.isEmpty = true
  · simp [h1]
  · by_cases h2 : l.length > s.pktLen - 1
    · simp [h1, h2]
    · rcases h with h | h
      · simp [h1, h2, h]
      · simp [h1, h2] at h

/-- a `.deq ok` step takes the oldest line `b`; either it fits and is appended to the buffer, or
    the buffer is handed to `sendPacket` and restarted with `b` -/
theorem relayStep_deq_inv {s s' : RelaySt} {ok : Bool} (h : relayStep s (.deq ok) = some s') :
    ∃ b rest, s.chan = b :: rest ∧
      ((b.length + s.buffer.length ≤ s.pktLen ∧ s' = { s with chan := rest, buffer := s.buffer ++ b }) ∨
       (s.pktLen < b.length + s.buffer.length ∧
          s' = { ({ s with chan := rest } : RelaySt).sendPacket ok with buffer := b })) := by
  simp only [relayStep] at h
  split at h
  · cases h
  · rename_i b rest hch
    refine ⟨b, rest, hch, ?_⟩
    by_cases hgt : b.length + s.buffer.length > s.pktLen
    · rw [if_pos hgt] at h
      right
      cases h
      exact ⟨hgt, rfl⟩
    · rw [if_neg hgt] at h
      left
      cases h
      exact ⟨by omega, rfl⟩

theorem relayStep_deq_enabled (s : RelaySt) (ok : Bool) (h : s.chan ≠ []) :
    (relayStep s (.deq ok)).isSome = true := by
  simp only [relayStep]
  split
  · rename_i hch; exact absurd hch h
  · split <;> rfl

theorem relayStep_tick (s : RelaySt) (ok : Bool) :
    relayStep s (.tick ok) = some { s.sendPacket ok with buffer := [] } := rfl

/-! ### invariant 1: sizes, channel capacity, packet counter -/

structure RelayBound (n : Nat) (s : RelaySt) : Prop where
  pkt : s.pktLen = n
  chanCap : s.chan.length ≤ relayChanCap
  chanGood : ∀ b, b ∈ s.chan → GoodLine n b
  bufLe : s.buffer.length ≤ n
  sentLe : ∀ d, d ∈ s.sent → d.length ≤ n
  lostLe : ∀ d, d ∈ s.lost → d.length ≤ n
  pkts : s.packets = s.sent.length + s.lost.length

theorem RelayBound.init (n : Nat) : RelayBound n (relayInit n) := by
  constructor <;> simp [relayInit]

/-- `sendPacket` preserves the size bounds, whatever the buffer is reset to afterwards -/
theorem RelayBound.flush {n : Nat} {s : RelaySt} (hb : RelayBound n s) (ok : Bool) (buf : Bytes)
    (hbuf : buf.length ≤ n) : RelayBound n { s.sendPacket ok with buffer := buf } := by
  rcases sendPacket_cases s ok with ⟨_, he⟩ | ⟨_, _, he⟩ | ⟨_, _, he⟩ <;> rw [he]
  · exact ⟨hb.pkt, hb.chanCap, hb.chanGood, hbuf, hb.sentLe, hb.lostLe, hb.pkts⟩
  · refine ⟨hb.pkt, hb.chanCap, hb.chanGood, hbuf, ?_, hb.lostLe, ?_⟩
    · intro d hd
      simp only [List.mem_append, List.mem_singleton] at hd
      rcases hd with hd | hd
      · exact hb.sentLe d hd
      · subst hd; exact hb.bufLe
    · have := hb.pkts
      simp only [List.length_append, List.length_singleton]
      omega
  · refine ⟨hb.pkt, hb.chanCap, hb.chanGood, hbuf, hb.sentLe, ?_, ?_⟩
    · intro d hd
      simp only [List.mem_append, List.mem_singleton] at hd
      rcases hd with hd | hd
      · exact hb.lostLe d hd
      · subst hd; exact hb.bufLe
    · have := hb.pkts
      simp only [List.length_append, List.length_singleton]
      omega

theorem RelayBound.step {n : Nat} {s s' : RelaySt} {lab : RelayLabel} (hb : RelayBound n s)
    (h : relayStep s lab = some s') : RelayBound n s' := by
  cases lab with
  | line l =>
    obtain ⟨rfl, hen⟩ := relayStep_line_inv h
    refine ⟨hb.pkt, ?_, ?_, hb.bufLe, hb.sentLe, hb.lostLe, hb.pkts⟩
    · have := hb.chanCap
      simp only [List.length_append, acceptedBy]
      rcases hen with hen | hen
      · cases relayAccept s.pktLen l <;> simp <;> omega
      · simp [hen]; exact this
    · intro b hbm
      simp only [List.mem_append] at hbm
      rcases hbm with hbm | hbm
      · exact hb.chanGood b hbm
      · rw [hb.pkt] at hbm; exact acceptedBy_good hbm
  | deq ok =>
    obtain ⟨b, rest, hch, hcase⟩ := relayStep_deq_inv h
    have hcap := hb.chanCap
    have hgood := hb.chanGood
    rw [hch] at hcap hgood
    have hrest : ∀ x, x ∈ rest → GoodLine n x := fun x hx => hgood x (List.mem_cons_of_mem _ hx)
    have hbl : b.length ≤ n := (hgood b List.mem_cons_self).le
    simp only [List.length_cons] at hcap
    rcases hcase with ⟨hle, rfl⟩ | ⟨_, rfl⟩
    · refine ⟨hb.pkt, by simp only; omega, hrest, ?_, hb.sentLe, hb.lostLe, hb.pkts⟩
      have := hb.pkt
      simp only [List.length_append]
      omega
    · have hb' : RelayBound n { s with chan := rest } :=
        ⟨hb.pkt, by simp only; omega, hrest, hb.bufLe, hb.sentLe, hb.lostLe, hb.pkts⟩
      exact hb'.flush ok b hbl
  | tick ok =>
    rw [relayStep_tick] at h
    cases h
    exact hb.flush ok [] (by simp)

/-! ### invariant 2: the line counters -/

structure RelayCount (n : Nat) (sched : List RelayLabel) (s : RelaySt) : Prop where
  long : s.longLines = longOf n sched
  relayed : s.relayed = (acceptedOf n sched).length

theorem sendPacket_counters (s : RelaySt) (ok : Bool) :
    (s.sendPacket ok).longLines = s.longLines ∧ (s.sendPacket ok).relayed = s.relayed ∧
    (s.sendPacket ok).chan = s.chan ∧ (s.sendPacket ok).pktLen = s.pktLen ∧
    (s.sendPacket ok).buffer = s.buffer := by
  rcases sendPacket_cases s ok with ⟨_, he⟩ | ⟨_, _, he⟩ | ⟨_, _, he⟩ <;> rw [he] <;> simp

theorem RelayCount.step {n : Nat} {pre : List RelayLabel} {s s' : RelaySt} {lab : RelayLabel}
    (hn : s.pktLen = n) (hc : RelayCount n pre s) (h : relayStep s lab = some s') :
    RelayCount n (pre ++ [lab]) s' := by
  have hl := hc.long
  have hr := hc.relayed
  cases lab with
  | line l =>
    obtain ⟨rfl, _⟩ := relayStep_line_inv h
    constructor
    · subst hn
      by_cases hx : lineLong s.pktLen l = true <;> simp [longOf_snoc, longBy, hl, hx]
    · simp [acceptedOf_snoc, List.length_append, hn, hr]
  | deq ok =>
    obtain ⟨b, rest, _, hcase⟩ := relayStep_deq_inv h
    have h1 : longOf n (pre ++ [.deq ok]) = longOf n pre := by simp [longOf_snoc, longBy]
    have h2 : acceptedOf n (pre ++ [.deq ok]) = acceptedOf n pre := by simp [acceptedOf_snoc, acceptedBy]
    rcases hcase with ⟨_, rfl⟩ | ⟨_, rfl⟩
    · exact ⟨by rw [h1]; exact hl, by rw [h2]; exact hr⟩
    · obtain ⟨g1, g2, _⟩ := sendPacket_counters { s with chan := rest } ok
      exact ⟨by rw [h1]; simp only [g1]; exact hl, by rw [h2]; simp only [g2]; exact hr⟩
  | tick ok =>
    rw [relayStep_tick] at h
    cases h
    have h1 : longOf n (pre ++ [.tick ok]) = longOf n pre := by simp [longOf_snoc, longBy]
    have h2 : acceptedOf n (pre ++ [.tick ok]) = acceptedOf n pre := by simp [acceptedOf_snoc, acceptedBy]
    obtain ⟨g1, g2, _⟩ := sendPacket_counters s ok
    exact ⟨by rw [h1]; simp only [g1]; exact hl, by rw [h2]; simp only [g2]; exact hr⟩

/-! ### invariant 3: conservation of lines -/

/-- the datagrams handed to the socket so far, each as the block of lines it was built from, tagged
    with the outcome of its send -/
abbrev Blocks := List (List Bytes × Bool)

/-- the accepted lines `acc` are, in order: the blocks of the datagrams handed to the socket, then
    the lines in the sender's buffer, then the channel; `sent`/`lost` are the datagrams of the
    blocks whose send succeeded/failed, in order; no datagram is empty -/
structure RelayShape (s : RelaySt) (acc : List Bytes) (blocks : Blocks) (pending : List Bytes) : Prop where
  cons : acc = (blocks.map (·.1)).flatten ++ pending ++ s.chan
  buf : s.buffer = pending.flatten
  sent : s.sent = (blocks.filter (·.2)).map (·.1.flatten)
  lost : s.lost = (blocks.filter (!·.2)).map (·.1.flatten)
  ne : ∀ g, g ∈ blocks → g.1.flatten ≠ []

theorem RelayShape.init (n : Nat) : RelayShape (relayInit n) [] [] [] := by
  constructor <;> simp [relayInit]

theorem flatten_eq_nil_of_ne {L : List Bytes} (hne : ∀ b, b ∈ L → b ≠ []) (h : L.flatten = []) : L = [] := by
  cases L with
  | nil => rfl
  | cons b bs =>
    rw [List.flatten_cons, List.append_eq_nil_iff] at h
    exact absurd h.1 (hne b List.mem_cons_self)

/-- handing the buffer to `sendPacket` and restarting it with the lines `newPending` -/
theorem RelayShape.flush {s : RelaySt} {acc : List Bytes} {blocks : Blocks} {pending : List Bytes}
    (hacc : ∀ b, b ∈ acc → b ≠ []) (hs : RelayShape s acc blocks pending) (ok : Bool)
    (newPending : List Bytes) (chan' : List Bytes) (hch : s.chan = newPending ++ chan') :
    ∃ blocks', RelayShape { ({ s with chan := chan' } : RelaySt).sendPacket ok with buffer := newPending.flatten }
      acc blocks' newPending := by
  have hpne : ∀ b, b ∈ pending → b ≠ [] := by
    intro b hb
    apply hacc
    rw [hs.cons]
    simp [hb]
  rcases sendPacket_cases { s with chan := chan' } ok with ⟨hb, he⟩ | ⟨hb, hok, he⟩ | ⟨hb, hok, he⟩ <;>
    rw [he] <;> simp only at hb
  · have hp : pending = [] := flatten_eq_nil_of_ne hpne (by rw [← hs.buf]; exact hb)
    refine ⟨blocks, ?_, rfl, hs.sent, hs.lost, hs.ne⟩
    simp only
    rw [hs.cons, hch, hp]
    simp
  · refine ⟨blocks ++ [(pending, true)], ?_, rfl, ?_, ?_, ?_⟩
    · simp only
      rw [hs.cons, hch]
      simp
    · simp [hs.sent, hs.buf]
    · simp [hs.lost]
    · intro g hg
      simp only [List.mem_append, List.mem_singleton] at hg
      rcases hg with hg | hg
      · exact hs.ne g hg
      · subst hg; rw [← hs.buf]; exact hb
  · refine ⟨blocks ++ [(pending, false)], ?_, rfl, ?_, ?_, ?_⟩
    · simp only
      rw [hs.cons, hch]
      simp
    · simp [hs.sent]
    · simp [hs.lost, hs.buf]
    · intro g hg
      simp only [List.mem_append, List.mem_singleton] at hg
      rcases hg with hg | hg
      · exact hs.ne g hg
      · subst hg; rw [← hs.buf]; exact hb

theorem RelayShape.step {s s' : RelaySt} {acc : List Bytes} {blocks : Blocks} {pending : List Bytes}
    {lab : RelayLabel} (hacc : ∀ b, b ∈ acc → b ≠ []) (hs : RelayShape s acc blocks pending)
    (h : relayStep s lab = some s') :
    ∃ blocks' pending', RelayShape s' (acc ++ acceptedBy s.pktLen lab) blocks' pending' := by
  cases lab with
  | line l =>
    obtain ⟨rfl, _⟩ := relayStep_line_inv h
    refine ⟨blocks, pending, ?_, hs.buf, hs.sent, hs.lost, hs.ne⟩
    simp only
    rw [hs.cons]
    simp
  | deq ok =>
    obtain ⟨b, rest, hch, hcase⟩ := relayStep_deq_inv h
    simp only [acceptedBy, List.append_nil]
    rcases hcase with ⟨_, rfl⟩ | ⟨_, rfl⟩
    · refine ⟨blocks, pending ++ [b], ?_, ?_, hs.sent, hs.lost, hs.ne⟩
      · simp only
        rw [hs.cons, hch]
        simp
      · simp [hs.buf]
    · obtain ⟨blocks', h'⟩ := hs.flush hacc ok [b] rest (by simpa using hch)
      exact ⟨blocks', [b], by simpa using h'⟩
  | tick ok =>
    rw [relayStep_tick] at h
    cases h
    simp only [acceptedBy, List.append_nil]
    obtain ⟨blocks', h'⟩ := hs.flush hacc ok [] s.chan (by simp)
    exact ⟨blocks', [], by simpa using h'⟩

/-! ### invariant 4: without failed sends nothing is lost -/

theorem sendPacket_lost_ok (s : RelaySt) : (s.sendPacket true).lost = s.lost := by
  rcases sendPacket_cases s true with ⟨_, he⟩ | ⟨_, _, he⟩ | ⟨_, hok, _⟩
  · rw [he]
  · rw [he]
  · cases hok

theorem relayStep_lost_ok {s s' : RelaySt} {lab : RelayLabel} (hok : lab.sendOk = true)
    (h : relayStep s lab = some s') : s'.lost = s.lost := by
  cases lab with
  | line l =>
    obtain ⟨rfl, _⟩ := relayStep_line_inv h
    rfl
  | deq ok =>
    simp only [RelayLabel.sendOk] at hok
    subst hok
    obtain ⟨b, rest, _, hcase⟩ := relayStep_deq_inv h
    rcases hcase with ⟨_, rfl⟩ | ⟨_, rfl⟩
    · rfl
    · exact sendPacket_lost_ok _
  | tick ok =>
    simp only [RelayLabel.sendOk] at hok
    subst hok
    rw [relayStep_tick] at h
    cases h
    exact sendPacket_lost_ok _

/-! ### all invariants over reachable states -/

structure RelayInv (n : Nat) (sched : List RelayLabel) (s : RelaySt) : Prop where
  bound : RelayBound n s
  count : RelayCount n sched s
  shape : ∃ blocks pending, RelayShape s (acceptedOf n sched) blocks pending
  lostOk : AllOk sched → s.lost = []

theorem RelayInv.reachable (n : Nat) (sched : List RelayLabel) (s : RelaySt)
    (h : relayRun (relayInit n) sched = some s) : RelayInv n sched s := by
  have := relayRun_induct (P := RelayInv n) ?_ sched [] (relayInit n) s ?_ h
  · simpa using this
  · intro pre s lab s' hi hstep
    obtain ⟨blocks, pending, hsh⟩ := hi.shape
    refine ⟨hi.bound.step hstep, hi.count.step hi.bound.pkt hstep, ?_, ?_⟩
    · have hst := hsh.step (fun b hb => (acceptedOf_good hb).ne) hstep
      rw [hi.bound.pkt] at hst
      rw [acceptedOf_snoc]
      exact hst
    · intro hall
      have h1 : AllOk pre := fun lab hl => hall lab (by simp [hl])
      have h2 : lab.sendOk = true := hall lab (by simp)
      rw [relayStep_lost_ok h2 hstep]
      exact hi.lostOk h1
  · exact ⟨RelayBound.init n, ⟨rfl, rfl⟩, ⟨[], [], RelayShape.init n⟩, fun _ => rfl⟩

/-! ### consequences used by the property theorems -/

theorem relayRun_pktLen (n : Nat) (sched : List RelayLabel) (s : RelaySt)
    (h : relayRun (relayInit n) sched = some s) : s.pktLen = n :=
  (RelayInv.reachable n sched s h).bound.pkt

/-- when no send failed, every block's datagram is in `sent` -/
theorem RelayShape.sent_of_lost_nil {s : RelaySt} {acc : List Bytes} {blocks : Blocks} {pending : List Bytes}
    (hs : RelayShape s acc blocks pending) (hl : s.lost = []) :
    s.sent = (blocks.map (·.1)).map List.flatten := by
  have hall : ∀ g, g ∈ blocks → g.2 = true := by
    intro g hg
    cases h2 : g.2 with
    | true => rfl
    | false =>
      have : g.1.flatten ∈ s.lost := by
        rw [hs.lost, List.mem_map]
        exact ⟨g, List.mem_filter.2 ⟨hg, by simp [h2]⟩, rfl⟩
      rw [hl] at this
      cases this
  have hf : blocks.filter (·.2) = blocks := List.filter_eq_self.2 hall
  rw [hs.sent, hf, List.map_map]
  rfl

/-- a datagram of `sent` or `lost` is the flattening of one of the blocks -/
theorem RelayShape.mem_dgram {s : RelaySt} {acc : List Bytes} {blocks : Blocks} {pending : List Bytes}
    (hs : RelayShape s acc blocks pending) {d : Bytes} (hd : d ∈ s.sent ++ s.lost) :
    ∃ g, g ∈ blocks ∧ d = g.1.flatten := by
  rw [List.mem_append, hs.sent, hs.lost] at hd
  rcases hd with hd | hd <;>
  · obtain ⟨g, hg, rfl⟩ := List.mem_map.1 hd
    exact ⟨g, (List.mem_filter.1 hg).1, rfl⟩

theorem relayStep_deq_chan {s s' : RelaySt} {ok : Bool} (h : relayStep s (.deq ok) = some s') :
    ∃ b, s.chan = b :: s'.chan := by
  obtain ⟨b, rest, hch, hcase⟩ := relayStep_deq_inv h
  refine ⟨b, ?_⟩
  rcases hcase with ⟨_, rfl⟩ | ⟨_, rfl⟩
  · exact hch
  · simp only [(sendPacket_counters _ ok).2.2.1]
    exact hch

/-- the sender can always empty the channel and the buffer, whatever the send outcomes are -/
theorem relay_drain (oks : List Bool) (ok : Bool) :
    ∀ s : RelaySt, s.chan.length = oks.length →
      ∃ s', relayRun s (oks.map .deq ++ [.tick ok]) = some s' ∧ s'.chan = [] ∧ s'.buffer = [] := by
  induction oks with
  | nil =>
    intro s hlen
    have hch : s.chan = [] := List.length_eq_zero_iff.1 hlen
    refine ⟨_, rfl, ?_, rfl⟩
    simp only [(sendPacket_counters s ok).2.2.1]
    exact hch
  | cons o os ih =>
    intro s hlen
    have hne : s.chan ≠ [] := by intro e; rw [e] at hlen; cases hlen
    have hen := relayStep_deq_enabled s o hne
    cases h1 : relayStep s (.deq o) with
    | none => rw [h1] at hen; cases hen
    | some s1 =>
      obtain ⟨b, hb⟩ := relayStep_deq_chan h1
      have hlen1 : s1.chan.length = os.length := by
        rw [hb] at hlen
        simpa using hlen
      obtain ⟨s', hr, hc, hbuf⟩ := ih s1 hlen1
      refine ⟨s', ?_, hc, hbuf⟩
      simp only [List.map_cons, List.cons_append, relayRun, h1, Option.bind_some]
      exact hr

end SE
