import SE.Proofs.Scrape
/-
C01, identity of the touched series: name, type, labels, and — when the event creates the vector — help
text and histogram bounds; a `drop` rule leaves the registry alone.
-/
set_option linter.unusedSectionVars false
namespace SE
open NumOps
variable {V : Type} [NumOps V]

/-- the name stage: the metric name is the escaped mapped name, or the escaped event name when unmapped;
    it is not empty before escaping -/
theorem evNamed_name {p : Pipe V} {rx : Rx} {ev : Ev V} {tags : Labels} {nm : Bytes} {labels : Labels} {c : Counts}
    (h : evNamed p rx ev tags = some (.ok (nm, labels, c))) :
    nm = specEscape (evRawName p rx ev) ∧ evRawName p rx ev ≠ [] := by
  unfold evNamed at h
  unfold evRawName
  split at h
  · rename_i m r hf hr
    rw [hf, hr]
    split at h
    · cases h
    · rename_i nm0 hn
      split at h
      · cases h
      · rename_i hne
        split at h
        · cases h
        · simp only [Option.some.injEq, Except.ok.injEq, Prod.mk.injEq] at h
          simp only [hn, Option.getD_some]
          exact ⟨h.1.symm, by intro e; rw [e] at hne; exact hne rfl⟩
  · rename_i hno
    by_cases he : ev.name.isEmpty = true
    · rw [if_pos he] at h; cases h
    · rw [if_neg he] at h
      simp only [Option.some.injEq, Except.ok.injEq, Prod.mk.injEq] at h
      split
      · rename_i m r hf hr; exact absurd hr (fun hr => hno m r hf hr)
      · exact ⟨h.1.symm, by intro e; rw [e] at he; exact he rfl⟩

/-- for a histogram request the bounds are the rule's buckets or the defaults -/
theorem evPlan_bounds (p : Pipe V) (rx : Rx) (ev : Ev V) (nm : Bytes) (sorted : Labels)
    (h : (evPlan p rx ev nm sorted).1 = .histogram) : (evPlan p rx ev nm sorted).2.1.bounds = evBounds p rx ev := by
  unfold evPlan at h ⊢
  unfold evBounds
  revert h
  cases ev.kind
  · intro h; cases h
  · intro h; cases h
  · simp only []
    split
    · intro _; rfl
    · intro h; cases h

/-- name, type, labels, update, help and bounds of the touch of an applied event -/
theorem touchOf_identity {p : Pipe V} {rx : Rx} {ev : Ev V} {tags : Labels} {t : Touch V}
    (h : touchOf p rx ev tags = some t) :
    t.name = specEscape (evRawName p rx ev) ∧ evRawName p rx ev ≠ [] ∧
    t.ty = evType p rx ev ∧ t.labels = (evLabels p rx ev tags).sorted ∧ t.upd = evUpd p rx ev := by
  obtain ⟨c, pl, reg, ht, _, e⟩ := touchOf_eq_some h
  obtain ⟨_, _, nm, hn, hpl⟩ := evTarget_spec ht
  obtain ⟨h1, h2⟩ := evNamed_name hn
  have ha := evPlan_args p rx ev nm (evLabels p rx ev tags).sorted
  have hu := evPlan_upd p rx ev nm (evLabels p rx ev tags).sorted
  subst e; subst hpl
  exact ⟨ha.1.trans h1, h2, hu.1, ha.2.1, hu.2⟩

theorem vec?_none_existingVec {r : Reg V} {ty : MType} {a : GetArgs V}
    (h : r.vec? a.name (a.labels.map (·.1)) = none) : r.existingVec ty a = none := by
  unfold Reg.vec? at h
  unfold Reg.existingVec
  cases hf : r.find a.name with
  | none => rfl
  | some m =>
    rw [hf] at h
    simp only [Option.bind_some] at h ⊢
    split
    · exact h
    · rfl

/-- **the vector of the touched series.** After an applied event on a well-formed registry: if the vector
    (metric name, label names) existed it is unchanged — help and bounds stay those of its creating event —;
    otherwise it is the one this event creates: its label names, the help string of the first vector ever
    created for the metric name (`helpFor`; the event's own help text when the name has no vector yet) and, for
    a histogram, the event's bounds. -/
theorem step_vec {p p' : Pipe V} {rx : Rx} {ev : Ev V} {tags : Labels} (hw : RegWF p.reg)
    (h : handleEvent p rx ev tags = some (.ok p')) {t : Touch V} (ht : touchOf p rx ev tags = some t) :
    (∀ v, p.reg.vec? t.name (t.labels.map (·.1)) = some v → p'.reg.vec? t.name (t.labels.map (·.1)) = some v) ∧
    (p.reg.vec? t.name (t.labels.map (·.1)) = none →
      ∃ v, p'.reg.vec? t.name (t.labels.map (·.1)) = some v ∧ v.names = t.labels.map (·.1) ∧
        v.help = (p.reg.firstHelp? t.name).getD (evHelp p rx ev) ∧
        (t.ty = .histogram → v.bounds = evBounds p rx ev)) := by
  refine ⟨fun v hv => step_vec_keep h _ _ v hv, ?_⟩
  intro hnone
  rcases step_cases h with ⟨h0, _, _⟩ | ⟨c, pl, reg, hta, hg, e, htouch⟩
  · rw [h0] at ht; cases ht
  · rw [htouch] at ht; injection ht with ht; subst ht; subst e
    simp only at hnone ⊢
    obtain ⟨s, _, _, _, _, hcase⟩ := getOrCreate_addressed hg
    rcases hcase with ⟨s0, hs0, _⟩ | ⟨_, _, hvec⟩
    · obtain ⟨v, hv⟩ := hw.vec?_of_series? hs0
      rw [hnone] at hv; cases hv
    · refine ⟨p.reg.vecFor pl.1 pl.2.1, ?_, ?_⟩
      · simp only [appliedPipe]; rw [vec?_updateSeries]; exact hvec
      · unfold Reg.vecFor
        rw [vec?_none_existingVec hnone]
        simp only [Option.getD_none]
        obtain ⟨_, _, nm, _, hpl⟩ := evTarget_spec hta
        refine ⟨trivial, ?_, ?_⟩
        · show (p.reg.firstHelp? pl.2.1.name).getD pl.2.1.help = _
          rw [(evTarget_args hta).2.2]
        intro hty
        subst hpl
        exact evPlan_bounds p rx ev nm _ hty

/-- the help text an event asks for: the rule's, or the default when the rule has none or no rule matched -/
theorem evHelp_spec (p : Pipe V) (rx : Rx) (ev : Ev V) :
    (∀ r, evRule p rx ev = some r → r.help ≠ [] → evHelp p rx ev = r.help) ∧
    (∀ r, evRule p rx ev = some r → r.help = [] → evHelp p rx ev = defaultHelp) ∧
    (evRule p rx ev = none → evHelp p rx ev = defaultHelp) := by
  unfold evHelp
  refine ⟨?_, ?_, ?_⟩
  · intro r hr hne; rw [hr]
    have : r.help.isEmpty = false := by cases hh : r.help with | nil => exact absurd hh hne | cons _ _ => rfl
    simp [this]
  · intro r hr he; rw [hr]; simp [he]
  · intro hr; rw [hr]


/-- for a mapped applied event the mapper did produce a name (inside the modelled template fragment) -/
theorem evNamed_mapped_name {p : Pipe V} {rx : Rx} {ev : Ev V} {tags : Labels} {nm : Bytes} {labels : Labels} {c : Counts}
    (h : evNamed p rx ev tags = some (.ok (nm, labels, c))) (m : Mapped) (r : Rule V)
    (hf : evFound p rx ev = some m) (hr : evRule p rx ev = some r) : m.name = some (evRawName p rx ev) := by
  unfold evNamed at h
  unfold evRawName
  rw [hf, hr] at h ⊢
  simp only at h ⊢
  split at h
  · cases h
  · rename_i nm0 hn; rw [hn]; rfl

/-- an event is counted as applied iff it has a touch -/
theorem applied_iff_touch {p p' : Pipe V} {rx : Rx} {ev : Ev V} {tags : Labels}
    (h : handleEvent p rx ev tags = some (.ok p')) :
    p'.counts.applied = p.counts.applied + 1 ↔ ∃ t, touchOf p rx ev tags = some t := by
  rcases step_cases h with ⟨h0, _, hc⟩ | ⟨c, pl, reg, hta, _, e, htouch⟩
  · rw [h0, hc]
    constructor
    · intro h'; omega
    · intro ⟨t, ht⟩; cases ht
  · subst e
    have := (evTarget_counts hta).1
    constructor
    · intro _; exact ⟨_, htouch⟩
    · intro _; simp only [appliedPipe]; omega

/-! ### what a scrape collects -/

/-- the families a scrape collects from the statsd series expose exactly the series of the registry:
    `(labels, state)` is listed in the family `name` of type `ty` iff the registry holds that series
    under that name and the name is registered with that type -/
theorem families_series_iff {r : Reg V} (hw : RegWF r) (name : Bytes) (ty : MType) (L : Labels) (s : Series V) :
    (∃ fam ∈ r.families, fam.name = name ∧ fam.ty = ty ∧ ∃ bs, (L, s, bs) ∈ fam.series) ↔
      (r.series? name L = some s ∧ r.type? name = some ty) := by
  constructor
  · rintro ⟨fam, hfam, hn, hty, bs, hmem⟩
    unfold Reg.families at hfam
    obtain ⟨m, hm, hsome⟩ := List.mem_filterMap.mp hfam
    split at hsome
    · cases hsome
    · injection hsome with hsome
      subst hsome
      simp only at hn hty hmem
      obtain ⟨s', hs', e⟩ := List.mem_map.mp hmem
      simp only [Prod.mk.injEq] at e
      obtain ⟨e1, e2, _⟩ := e
      subst e2; subst e1; subst hn
      refine ⟨(hw.hasSeries_iff m.name s').mp ⟨m, hm, rfl, hs'⟩, ?_⟩
      unfold Reg.type?
      rw [hw.find_of_mem hm, ← hty]; rfl
  · rintro ⟨hs, hty⟩
    unfold Reg.series? at hs
    unfold Reg.type? at hty
    cases hf : r.find name with
    | none => rw [hf] at hs; cases hs
    | some m =>
      rw [hf] at hs hty
      simp only [Option.bind_some] at hs
      simp only [Option.map_some, Option.some.injEq] at hty
      have hsm := List.mem_of_find?_eq_some hs
      have hsl : s.labels = L := by simpa using List.find?_some hs
      have hne : m.series.isEmpty = false := by cases hm : m.series with | nil => rw [hm] at hsm; cases hsm | cons _ _ => rfl
      refine ⟨_, List.mem_filterMap.mpr ⟨m, (mem_of_find hf).1, by rw [hne]; rfl⟩, (mem_of_find hf).2, hty, ?_⟩
      exact ⟨_, List.mem_map.mpr ⟨s, hsm, by rw [hsl]⟩⟩

theorem families_bounds_help {r : Reg V} (hw : RegWF r) (fam : Family V) (hfam : fam ∈ r.families) :
    (∀ L s bs, (L, s, bs) ∈ fam.series →
      bs = ((r.vec? fam.name (L.map (·.1))).map fun v => effBounds v.bounds).getD []) ∧
    (∀ L s bs, fam.series.head? = some (L, s, bs) →
      fam.help = ((r.vec? fam.name (L.map (·.1))).map (·.help)).getD []) := by
  unfold Reg.families at hfam
  obtain ⟨m, hm, hsome⟩ := List.mem_filterMap.mp hfam
  split at hsome
  · cases hsome
  · injection hsome with hsome
    subst hsome
    have hvec : ∀ names, r.vec? m.name names = m.vecs.find? (·.names == names) := by
      intro names; unfold Reg.vec?; rw [hw.find_of_mem hm]; rfl
    constructor
    · intro L s bs hmem
      simp only at hmem ⊢
      obtain ⟨s', _, e⟩ := List.mem_map.mp hmem
      simp only [Prod.mk.injEq] at e
      obtain ⟨e1, _, e3⟩ := e
      rw [hvec, ← e1, ← e3]
    · intro L s bs hhead
      simp only at hhead ⊢
      rw [List.head?_map] at hhead
      cases hh : m.series.head? with
      | none => rw [hh] at hhead; cases hhead
      | some s0 =>
        rw [hh] at hhead
        simp only [Option.map_some, Option.some.injEq, Prod.mk.injEq] at hhead
        rw [hvec, ← hhead.1]

/-! ### drop -/

/-- an event whose matched rule says `action: drop` only increments the drop counter -/
theorem handleEvent_drop {p : Pipe V} {rx : Rx} {ev : Ev V} (tags : Labels) {r : Rule V}
    (hr : evRule p rx ev = some r) (ha : r.action = .drop) :
    handleEvent p rx ev tags = some (.ok { p with counts := { p.counts with dropped := p.counts.dropped + 1 } }) ∧
    touchOf p rx ev tags = none := by
  have hd : evDropped p rx ev = true := by unfold evDropped; rw [hr]; simp [ha]
  constructor
  · rw [handleEvent_eq, if_pos hd]
  · unfold touchOf evTarget; rw [if_pos hd]

end SE
