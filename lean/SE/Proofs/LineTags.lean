import SE.Proofs.Line
/-
Lemmas for C09: the tag loops compute `specTags` on rendered tag lists, and `parseNameAndTags`
on the three name-side syntaxes.
-/
namespace SE
variable {V : Type} [NumOps V]

/-- one step of the tag loop, as a fold step on (labels, errors) -/
def tagStep (trim : Bytes → Bytes) (sep : UInt8) (acc : Labels × Nat) (p : Bytes) : Labels × Nat :=
  ((parseTag (trim p) sep acc.1).1, acc.2 + (parseTag (trim p) sep acc.1).2)

/-- when the last piece is non-empty the tag loop is a plain fold over all pieces -/
theorem parseTagPieces_eq_foldl (trim : Bytes → Bytes) (sep : UInt8) (xs : List Bytes) (l : Bytes)
    (hl : l ≠ []) :
    ∀ (L : Labels) (e : Nat), parseTagPieces trim sep (xs ++ [l]) L e =
      (xs ++ [l]).foldl (tagStep trim sep) (L, e) := by
  induction xs with
  | nil =>
    intro L e
    have : l.isEmpty = false := by cases l <;> simp at hl ⊢
    simp [parseTagPieces, this, tagStep]
  | cons x xs ih =>
    intro L e
    cases hxs : xs ++ [l] with
    | nil => simp at hxs
    | cons q qs =>
      rw [List.cons_append, hxs]
      simp only [parseTagPieces]
      rw [← hxs, ih]
      rfl

theorem not_mem_render {x sep : UInt8} {t : TagEntry} (hx : x ≠ sep) (hk : x ∉ t.keyPart)
    (hv : x ∉ t.valPart) : x ∉ t.render sep := by
  cases t with
  | kv k v =>
    simp only [TagEntry.render, List.mem_append, List.mem_cons, not_or]
    exact ⟨hk, hx, hv⟩
  | bare y => exact hk

/-- `parseTag` on a rendered entry is the specification step -/
theorem tagStep_render (sep : UInt8) (t : TagEntry) (hsep : sep ∉ t.keyPart) (acc : Labels × Nat) :
    tagStep id sep acc (t.render sep) = specTagStep acc t := by
  cases t with
  | kv k v =>
    have hsep : sep ∉ k := hsep
    have hne : (k ++ sep :: v).isEmpty = false := by cases k <;> simp
    simp only [tagStep, id, TagEntry.render, parseTag, hne, cut_append v hsep, specTagStep]
    by_cases h : (k.isEmpty || v.isEmpty) = true
    · simp [h]
    · simp [h]
  | bare x =>
    have hsep : sep ∉ x := hsep
    simp only [tagStep, id, TagEntry.render, parseTag, specTagStep, cut_of_not_mem hsep]
    cases x <;> simp

theorem foldl_tagStep_render (sep : UInt8) (ts : List TagEntry)
    (h : ∀ t ∈ ts, sep ∉ t.keyPart) :
    ∀ acc, (ts.map (TagEntry.render sep)).foldl (tagStep id sep) acc = ts.foldl specTagStep acc := by
  induction ts with
  | nil => intro acc; rfl
  | cons t ts ih =>
    intro acc
    rw [List.map_cons, List.foldl_cons, List.foldl_cons, tagStep_render sep t (h t (by simp)),
      ih (fun x hx => h x (by simp [hx]))]

theorem render_ne_nil {sep : UInt8} {t : TagEntry} (h : t ≠ .bare []) : t.render sep ≠ [] := by
  cases t with
  | kv k v => cases k <;> simp [TagEntry.render]
  | bare x => intro e; simp [TagEntry.render] at e; subst e; exact h rfl

theorem TagEntry.Ok.key {t : TagEntry} (h : t.Ok) {c : UInt8} (hc : c ∈ cEq :: tagDelims) :
    c ∉ t.keyPart := h.1 c hc
theorem TagEntry.Ok.val {t : TagEntry} (h : t.Ok) {c : UInt8} (hc : c ∈ tagDelims) :
    c ∉ t.valPart := h.2 c hc

/-- a delimiter other than the separator does not occur in a rendered entry -/
theorem TagEntry.Ok.render_free {t : TagEntry} (h : t.Ok) {c sep : UInt8} (hc : c ∈ tagDelims)
    (hs : c ≠ sep) : c ∉ t.render sep :=
  not_mem_render hs (h.key (by simp [hc])) (h.val hc)

/-- the comma-split of a rendered tag list gives back the rendered entries -/
theorem splitOn_render (sep : UInt8) (hsep : cComma ≠ sep) {ts : List TagEntry} (h : TagsOk ts) :
    splitOn cComma (joinWith cComma (ts.map (TagEntry.render sep))) = ts.map (TagEntry.render sep) := by
  obtain ⟨hok, init, last, e, _⟩ := h
  apply splitOn_joinWith
  · rw [e]; simp
  · intro p hp
    obtain ⟨t, ht, rfl⟩ := List.mem_map.mp hp
    exact (hok t ht).render_free (by simp [tagDelims]) hsep

/-- name-side tags: the parser computes the specification -/
theorem parseNameTags_render {ts : List TagEntry} (h : TagsOk ts) :
    parseNameTags (renderEq ts) [] = specTags ts := by
  unfold parseNameTags renderEq
  rw [splitOn_render cEq (by decide) h]
  obtain ⟨hok, init, last, e, hl⟩ := h
  have : ts.map (TagEntry.render cEq) = init.map (TagEntry.render cEq) ++ [last.render cEq] := by
    rw [e]; simp
  rw [this, parseTagPieces_eq_foldl id cEq _ _ (render_ne_nil hl), ← this,
    foldl_tagStep_render cEq ts (fun t ht => (hok t ht).key (by simp))]
  rfl

theorem trimLeftHash_of_free {p : Bytes} (h : cHash ∉ p) : trimLeftHash p = p := by
  cases p with
  | nil => rfl
  | cons b bs =>
    have := (ne_of_not_mem_cons h).1
    simp [trimLeftHash, this]

theorem foldl_tagStep_trim (sep : UInt8) (ps : List Bytes) (h : ∀ p ∈ ps, cHash ∉ p) :
    ∀ acc, ps.foldl (tagStep trimLeftHash sep) acc = ps.foldl (tagStep id sep) acc := by
  induction ps with
  | nil => intro acc; rfl
  | cons p ps ih =>
    intro acc
    rw [List.foldl_cons, List.foldl_cons, ih (fun x hx => h x (by simp [hx]))]
    simp only [tagStep, trimLeftHash_of_free (h p (by simp)), id]

/-- DogStatsD tags: the parser computes the specification, from any starting error count -/
theorem parseDogStatsDTags_render (fl : ParserFlags) (hfl : fl.dogstatsd = true)
    {ts : List TagEntry} (h : TagsOk ts) :
    parseDogStatsDTags fl (renderColon ts) [] = specTags ts := by
  unfold parseDogStatsDTags renderColon
  rw [if_pos hfl, splitOn_render cColon (by decide) h]
  obtain ⟨hok, init, last, e, hl⟩ := h
  have : ts.map (TagEntry.render cColon) = init.map (TagEntry.render cColon) ++ [last.render cColon] := by
    rw [e]; simp
  rw [this, parseTagPieces_eq_foldl trimLeftHash cColon _ _ (render_ne_nil hl), ← this,
    foldl_tagStep_trim, foldl_tagStep_render cColon ts (fun t ht => (hok t ht).key (by simp [tagDelims]))]
  · rfl
  · intro p hp
    obtain ⟨t, ht, rfl⟩ := List.mem_map.mp hp
    exact (hok t ht).render_free (by simp [tagDelims]) (by decide)


theorem firstNameTagSep_none (fl : ParserFlags) {a : Bytes}
    (hh : fl.librato = true → cHash ∉ a) (hc : fl.influxdb = true → cComma ∉ a) :
    firstNameTagSep fl a = none := by
  induction a with
  | nil => rfl
  | cons b bs ih =>
    have h1 : (b == cHash && fl.librato) = false := by
      cases hl : fl.librato with
      | false => simp
      | true => simp [(ne_of_not_mem_cons (hh hl)).1]
    have h2 : (b == cComma && fl.influxdb) = false := by
      cases hl : fl.influxdb with
      | false => simp
      | true => simp [(ne_of_not_mem_cons (hc hl)).1]
    have := ih (fun h => (ne_of_not_mem_cons (hh h)).2) (fun h => (ne_of_not_mem_cons (hc h)).2)
    simp [firstNameTagSep, h1, h2, this]

theorem firstNameTagSep_append (fl : ParserFlags) {a : Bytes} (b : UInt8) (x : Bytes)
    (hh : fl.librato = true → cHash ∉ a) (hc : fl.influxdb = true → cComma ∉ a)
    (hb : ((b == cHash && fl.librato) || (b == cComma && fl.influxdb)) = true) :
    firstNameTagSep fl (a ++ b :: x) = some a.length := by
  induction a with
  | nil => simp [firstNameTagSep, hb]
  | cons y ys ih =>
    have h1 : (y == cHash && fl.librato) = false := by
      cases hl : fl.librato with
      | false => simp
      | true => simp [(ne_of_not_mem_cons (hh hl)).1]
    have h2 : (y == cComma && fl.influxdb) = false := by
      cases hl : fl.influxdb with
      | false => simp
      | true => simp [(ne_of_not_mem_cons (hc hl)).1]
    have := ih (fun h => (ne_of_not_mem_cons (hh h)).2) (fun h => (ne_of_not_mem_cons (hc h)).2)
    simp [firstNameTagSep, h1, h2, this]

/-- a name without any enabled marker is returned untouched -/
theorem parseNameAndTags_plain (fl : ParserFlags) {a : Bytes}
    (hh : fl.librato = true → cHash ∉ a) (hc : fl.influxdb = true → cComma ∉ a)
    (hl : fl.signalfx = true → cLBr ∉ a) (hr : fl.signalfx = true → cRBr ∉ a) :
    parseNameAndTags fl a = (a, [], 0) := by
  unfold parseNameAndTags
  simp only [firstNameTagSep_none fl hh hc]
  cases hs : fl.signalfx with
  | false => simp
  | true => simp [indexOf_of_not_mem (hl hs), indexOf_of_not_mem (hr hs)]

/-- Librato / InfluxDB shape: `n <marker> x` -/
theorem parseNameAndTags_marker (fl : ParserFlags) {n : Bytes} (b : UInt8) (x : Bytes)
    (hh : fl.librato = true → cHash ∉ n) (hc : fl.influxdb = true → cComma ∉ n)
    (hb : ((b == cHash && fl.librato) || (b == cComma && fl.influxdb)) = true)
    (hl : fl.signalfx = true → cLBr ∉ n ++ b :: x) (hr : fl.signalfx = true → cRBr ∉ n ++ b :: x) :
    parseNameAndTags fl (n ++ b :: x) = (n, (parseNameTags x []).1, (parseNameTags x []).2) := by
  unfold parseNameAndTags
  simp only [firstNameTagSep_append fl b x hh hc hb]
  have h1 : (n ++ b :: x).take n.length = n := by simp
  have h2 : (n ++ b :: x).drop (n.length + 1) = x := by
    rw [← List.drop_drop]; simp
  cases hs : fl.signalfx with
  | false => simp [h1, h2]
  | true => simp [indexOf_of_not_mem (hl hs), indexOf_of_not_mem (hr hs), h1, h2]

/-- SignalFX shape: `pre [ x ] post` -/
theorem parseNameAndTags_signalfx (fl : ParserFlags) (hs : fl.signalfx = true) {pre x : Bytes} (post : Bytes)
    (hl1 : cLBr ∉ pre) (hr1 : cRBr ∉ pre) (hr2 : cRBr ∉ x) :
    parseNameAndTags fl (pre ++ cLBr :: (x ++ cRBr :: post)) =
      (pre ++ post, (parseNameTags x []).1, (parseNameTags x []).2) := by
  unfold parseNameAndTags
  have hi1 : indexOf cLBr (pre ++ cLBr :: (x ++ cRBr :: post)) = some pre.length := indexOf_append _ hl1
  have hi2 : indexOf cRBr (pre ++ cLBr :: (x ++ cRBr :: post)) = some (pre.length + 1 + x.length) := by
    have e : pre ++ cLBr :: (x ++ cRBr :: post) = (pre ++ cLBr :: x) ++ cRBr :: post := by simp
    rw [e, indexOf_append]
    · simp; omega
    · simp only [List.mem_append, List.mem_cons, not_or]
      exact ⟨hr1, by decide, hr2⟩
  have hlt : pre.length < pre.length + 1 + x.length := by omega
  have h1 : (pre ++ cLBr :: (x ++ cRBr :: post)).take pre.length = pre := by simp
  have h2 : ((pre ++ cLBr :: (x ++ cRBr :: post)).drop (pre.length + 1)).take
      (pre.length + 1 + x.length - pre.length - 1) = x := by
    rw [← List.drop_drop]
    have : pre.length + 1 + x.length - pre.length - 1 = x.length := by omega
    simp [this]
  have h3 : (pre ++ cLBr :: (x ++ cRBr :: post)).drop (pre.length + 1 + x.length + 1) = post := by
    have e : pre ++ cLBr :: (x ++ cRBr :: post) = (pre ++ cLBr :: x) ++ cRBr :: post := by simp
    have : pre.length + 1 + x.length + 1 = (pre ++ cLBr :: x).length + 1 := by simp; omega
    rw [this, e, ← List.drop_drop]; simp
  simp only [hs, hi1, hi2, hlt, if_true, h1, h2, h3]


theorem buildEvent_name {st : StatType} {m : Bytes} {v : V} {r : Bool} {ev : Ev V}
    (h : buildEvent st m v r = some ev) : ev.name = m := by
  cases st <;> simp [buildEvent] at h <;> rw [← h]

theorem parseSample_event_names (fl : ParserFlags) (pf : Pf V) (m : Bytes) (o : ParseOut V) (s : Bytes)
    (ho : ∀ ev ∈ o.events, ev.name = m) :
    ∀ ev ∈ (parseSample fl pf m o s).events, ev.name = m := by
  rw [parseSample_frame]
  simp only []
  intro ev hev
  rcases List.mem_append.mp hev with h | h
  · exact ho ev h
  · revert h
    rcases hsp : splitOn cPipe s with _ | ⟨v, _ | ⟨stB, extra⟩⟩
    · simp [parseSample, hsp]
    · simp [parseSample, hsp]
    · by_cases hl : extra.length > 2
      · simp [parseSample, hsp, hl]
      · by_cases hv : ((pf v).2 != PfErr.ok) = true
        · simp [parseSample, hsp, hl, hv]
        · by_cases he : extra.any (·.isEmpty) = true
          · simp [parseSample, hsp, hl, hv, he]
          · simp only [parseSample, hsp, hl, hv, he]
            simp only [if_false, Bool.false_eq_true]
            split
            · rename_i ev' hb
              have := buildEvent_name hb
              intro h
              have h' : ev = ev' := by
                revert h; split <;> simp [List.mem_replicate]
              rw [h']; exact this
            · split <;> simp

theorem foldl_parseSample_event_names (fl : ParserFlags) (pf : Pf V) (m : Bytes) (ss : List Bytes) :
    ∀ (o : ParseOut V), (∀ ev ∈ o.events, ev.name = m) →
      ∀ ev ∈ (ss.foldl (parseSample fl pf m) o).events, ev.name = m := by
  induction ss with
  | nil => intro o ho; exact ho
  | cons s ss ih => intro o ho; exact ih _ (parseSample_event_names fl pf m o s ho)

/-- every event of a line carries the metric name computed by `parseNameAndTags` -/
theorem afterName_event_names (fl : ParserFlags) (pf : Pf V) (m : Bytes) (L : Labels) (E : Nat) (e1 : Bytes) :
    ∀ ev ∈ (afterName fl pf (m, L, E) e1).events, ev.name = m := by
  unfold afterName
  simp only []
  split
  · simp
  · split
    · split
      · split
        · exact foldl_parseSample_event_names fl pf m _ _ (by simp)
        · simp
      · split
        · exact parseSample_event_names fl pf m _ _ (by simp)
        · exact foldl_parseSample_event_names fl pf m _ _ (by simp)
    · simp

/-- with DogStatsD parsing disabled nothing after the name touches labels or tag errors -/
theorem afterName_dog_off (fl : ParserFlags) (pf : Pf V) (hfl : fl.dogstatsd = false)
    (m : Bytes) (L : Labels) (E : Nat) (e1 : Bytes) :
    (afterName fl pf (m, L, E) e1).tagErrs = E ∧
    ((afterName fl pf (m, L, E) e1).labels = L ∨
      ((afterName fl pf (m, L, E) e1).labels = [] ∧ (afterName fl pf (m, L, E) e1).events = [])) := by
  have hin : ∀ ss : List Bytes, ∀ s ∈ ss, ∀ c ∈ (splitOn cPipe s).drop 2, Inert fl c :=
    fun _ _ _ _ _ => Or.inl hfl
  unfold afterName
  simp only []
  split
  · exact ⟨rfl, Or.inr ⟨rfl, rfl⟩⟩
  · split
    · split
      · split
        · exact ⟨(foldl_parseSample_inert fl pf m _ (hin _) _).2,
            Or.inl (foldl_parseSample_inert fl pf m _ (hin _) _).1⟩
        · exact ⟨rfl, Or.inr ⟨rfl, rfl⟩⟩
      · split
        · exact ⟨(parseSample_inert fl pf m _ e1 (hin [e1] e1 (by simp))).2,
            Or.inl (parseSample_inert fl pf m _ e1 (hin [e1] e1 (by simp))).1⟩
        · exact ⟨(foldl_parseSample_inert fl pf m _ (hin _) _).2,
            Or.inl (foldl_parseSample_inert fl pf m _ (hin _) _).1⟩
    · exact ⟨rfl, Or.inr ⟨rfl, rfl⟩⟩

/-- `tagsReceived` for a sample whose components cannot touch the label map -/
theorem parseSample_inert_tagsRecv (fl : ParserFlags) (pf : Pf V) (m : Bytes) (o : ParseOut V) (s : Bytes)
    (h : ∀ c ∈ (splitOn cPipe s).drop 2, Inert fl c) :
    (parseSample fl pf m o s).tagsRecv =
      o.tagsRecv + (if o.labels.isEmpty || !sampleAccepted pf s then 0 else 1) := by
  unfold sampleAccepted
  rcases hsp : splitOn cPipe s with _ | ⟨v, _ | ⟨stB, extra⟩⟩
  · simp [parseSample, hsp]
  · simp [parseSample, hsp]
  · by_cases hl : extra.length > 2
    · have : ¬ extra.length ≤ 2 := by omega
      simp [parseSample, hsp, hl, this]
    · have hl' : extra.length ≤ 2 := by omega
      by_cases hv : ((pf v).2 != PfErr.ok) = true
      · have : ((pf v).2 == PfErr.ok) = false := by simpa using hv
        simp [parseSample, hsp, hl, hv, this]
      · have hv' : ((pf v).2 == PfErr.ok) = true := by simpa using hv
        by_cases he : extra.any (·.isEmpty) = true
        · simp [parseSample, hsp, hl, hv, he]
        · rw [hsp] at h
          obtain ⟨c1, c2⟩ := foldl_stepComponent_inert fl pf (statTypeOf stB) extra
            ⟨(pf v).1, 1, o.labels, [], 0⟩ (by simpa using h)
          simp only [parseSample, hsp, hl, hv, he]
          simp only [if_false, Bool.false_eq_true]
          rw [c1]
          simp only [hl', hv', decide_true, Bool.true_and, Bool.not_false, Bool.not_true, Bool.or_false]
          cases hL : o.labels.isEmpty <;> (repeat' split) <;> simp_all


omit [NumOps V] in
theorem sampleAccepted_nopipe (pf : Pf V) {s : Bytes} (h : cPipe ∉ s) : sampleAccepted pf s = false := by
  simp [sampleAccepted, splitOn_of_not_mem h]

/-- the same single sample parsed under name-side labels `L` / tag errors `E` and under none -/
theorem afterName_relabel_single (fl : ParserFlags) (pf : Pf V) (m : Bytes) (L : Labels) (E : Nat)
    (s : Bytes) (hc : cColon ∉ s) (hd : containsSub [cPipe, cHash] s = false) :
    let r := afterName fl pf (m, L, E) s
    let p := afterName fl pf (m, [], 0) s
    r.events = p.events ∧ r.errs = p.errs ∧ r.samples = p.samples ∧
    r.tagErrs = E ∧ p.tagErrs = 0 ∧ p.labels = [] ∧ p.tagsRecv = 0 ∧
    (cPipe ∈ s → r.labels = L) ∧
    r.tagsRecv = (if L.isEmpty || !sampleAccepted pf s then 0 else 1) := by
  intro r p
  by_cases hp : cPipe ∈ s
  · have hr : r = parseSample fl pf m (startSt L E) s := afterName_single fl pf m L E s hp hc hd
    have hpp : p = parseSample fl pf m (startSt [] 0) s := afterName_single fl pf m [] 0 s hp hc hd
    have hin := inert_of_no_dog fl hd
    refine ⟨?_, ?_, ?_, ?_, ?_, ?_, ?_, ?_, ?_⟩
    · rw [hr, hpp, parseSample_events, parseSample_events]; rfl
    · rw [hr, hpp, parseSample_errs, parseSample_errs]; rfl
    · rw [hr, hpp, parseSample_samples, parseSample_samples]; rfl
    · rw [hr, (parseSample_inert fl pf m _ s hin).2]; rfl
    · rw [hpp, (parseSample_inert fl pf m _ s hin).2]; rfl
    · rw [hpp, (parseSample_inert fl pf m _ s hin).1]; rfl
    · rw [hpp, parseSample_inert_tagsRecv fl pf m _ s hin]; simp [startSt]
    · intro _; rw [hr, (parseSample_inert fl pf m _ s hin).1]; rfl
    · rw [hr, parseSample_inert_tagsRecv fl pf m _ s hin]; simp [startSt]
  · have hr : r = _ := afterName_nopipe fl pf m L E s hp
    have hpp : p = _ := afterName_nopipe fl pf m [] 0 s hp
    rw [hr, hpp]
    refine ⟨rfl, rfl, rfl, rfl, rfl, rfl, rfl, fun h => absurd h hp, ?_⟩
    simp [sampleAccepted_nopipe pf hp]

theorem NameOk.colon {n : Bytes} (h : NameOk n) : cColon ∉ n := h.free _ (by simp)
theorem NameOk.hash {n : Bytes} (h : NameOk n) : cHash ∉ n := h.free _ (by simp)
theorem NameOk.comma {n : Bytes} (h : NameOk n) : cComma ∉ n := h.free _ (by simp)
theorem NameOk.lbr {n : Bytes} (h : NameOk n) : cLBr ∉ n := h.free _ (by simp)
theorem NameOk.rbr {n : Bytes} (h : NameOk n) : cRBr ∉ n := h.free _ (by simp)

/-- a rendered `k=v,…` list contains no delimiter other than `,` (and `=`) -/
theorem renderEq_free {ts : List TagEntry} (h : TagsOk ts) {c : UInt8} (hc : c ∈ tagDelims)
    (h1 : c ≠ cComma) (h2 : c ≠ cEq) : c ∉ renderEq ts := by
  apply not_mem_joinWith h1
  intro p hp
  obtain ⟨t, ht, rfl⟩ := List.mem_map.mp hp
  exact (h.1 t ht).render_free hc h2

theorem tagged_name_colon {n : Bytes} {ts : List TagEntry} (hn : NameOk n) (ht : TagsOk ts)
    (b : UInt8) (hb : cColon ≠ b) : cColon ∉ n ++ b :: renderEq ts := by
  simp only [List.mem_append, List.mem_cons, not_or]
  exact ⟨hn.colon, hb, renderEq_free ht (by simp [tagDelims]) (by decide) (by decide)⟩


theorem statTypeOf_hash (x : Bytes) : statTypeOf (cHash :: x) = .bad := by
  have h : ∀ (c : UInt8) (l : Bytes), c ≠ cHash → (cHash :: x == c :: l) = false := by
    intro c l hc
    simp only [List.cons_beq_cons, Bool.and_eq_false_imp, beq_iff_eq]
    intro e; exact absurd e.symm hc
  simp [statTypeOf, h 99 [] (by decide), h 103 [] (by decide), h 109 [115] (by decide),
    h 104 [] (by decide), h 100 [] (by decide), h 115 [] (by decide)]

theorem splitOn_dog (s tags : Bytes) (ht : cPipe ∉ tags) :
    splitOn cPipe (s ++ cPipe :: cHash :: tags) = splitOn cPipe s ++ [cHash :: tags] := by
  have : cPipe ∉ cHash :: tags := by
    simp only [List.mem_cons, not_or]; exact ⟨by decide, ht⟩
  rw [splitOn_append_sep, splitOn_of_not_mem this]

/-- a `#tags` section appended to a one-field "sample" yields no event -/
theorem parseSample_dog_one (fl : ParserFlags) (pf : Pf V) (m : Bytes) (o : ParseOut V)
    (s tags : Bytes) (hs : cPipe ∉ s) (ht : cPipe ∉ tags) :
    (parseSample fl pf m o (s ++ cPipe :: cHash :: tags)).events = o.events := by
  have hsp := splitOn_dog s tags ht
  rw [splitOn_of_not_mem hs] at hsp
  by_cases hv : ((pf s).2 != PfErr.ok) = true
  · simp [parseSample, hsp, hv]
  · simp only [parseSample, hsp, List.singleton_append, List.length_nil, Nat.not_lt_zero, hv,
      List.any_nil, statTypeOf_hash, List.foldl_nil, buildEvent]
    simp only [if_false, Bool.false_eq_true]
    (repeat' split) <;> rfl

/-- effect of an appended `|#tags` section on a sample with two or three fields -/
theorem parseSample_dog (fl : ParserFlags) (pf : Pf V) (m : Bytes) (o : ParseOut V)
    (s tags v stB : Bytes) (extra : List Bytes) (ht : cPipe ∉ tags)
    (hsp : splitOn cPipe s = v :: stB :: extra) (hlen : extra.length ≤ 1) :
    let od := parseSample fl pf m o (s ++ cPipe :: cHash :: tags)
    let o' := parseSample fl pf m o s
    od.events = o'.events ∧ od.errs = o'.errs ∧ od.samples = o'.samples ∧
    (sampleAccepted pf s = false → od.labels = o'.labels ∧ od.tagErrs = o'.tagErrs ∧
      od.tagsRecv = o'.tagsRecv) ∧
    (sampleAccepted pf s = true → (∀ c ∈ extra, Inert fl c) →
      od.labels = (parseDogStatsDTags fl tags o.labels).1 ∧
      od.tagErrs = o.tagErrs + (parseDogStatsDTags fl tags o.labels).2 ∧
      od.tagsRecv = o.tagsRecv + (if (parseDogStatsDTags fl tags o.labels).1.isEmpty then 0 else 1)) := by
  intro od o'
  have hspd : splitOn cPipe (s ++ cPipe :: cHash :: tags) = v :: stB :: (extra ++ [cHash :: tags]) := by
    rw [splitOn_dog s tags ht, hsp]; rfl
  have hl1 : ¬ extra.length > 2 := by omega
  have hl2 : ¬ (extra ++ [cHash :: tags]).length > 2 := by simp; omega
  have hl3 : ¬ 2 < extra.length + 1 := by omega
  have hany : (extra ++ [cHash :: tags]).any (·.isEmpty) = extra.any (·.isEmpty) := by simp
  unfold sampleAccepted
  rw [hsp]
  simp only []
  by_cases hv : ((pf v).2 != PfErr.ok) = true
  · have hv' : ((pf v).2 == PfErr.ok) = false := by simpa using hv
    simp [od, o', parseSample, hsp, hspd, hl1, hl3, hv, hv']
  · have hv' : ((pf v).2 == PfErr.ok) = true := by simpa using hv
    by_cases he : extra.any (·.isEmpty) = true
    · have he' : (extra ++ [cHash :: tags]).any (·.isEmpty) = true := by rw [hany]; exact he
      simp [od, o', parseSample, hsp, hspd, hl1, hl3, hv, he, he']
    · have he' : ¬ (extra ++ [cHash :: tags]).any (·.isEmpty) = true := by rw [hany]; exact he
      have hacc : (decide (extra.length ≤ 2) && ((pf v).2 == PfErr.ok) && !extra.any (·.isEmpty)) = true := by
        have : extra.length ≤ 2 := by omega
        simp [this, hv', he]
      rw [hacc]
      -- the component fold
      generalize hcs : extra.foldl (stepComponent fl pf (statTypeOf stB)) ⟨(pf v).1, 1, o.labels, [], 0⟩ = cs
      have hfold : (extra ++ [cHash :: tags]).foldl (stepComponent fl pf (statTypeOf stB))
          ⟨(pf v).1, 1, o.labels, [], 0⟩ =
          { cs with labels := (parseDogStatsDTags fl tags cs.labels).1,
                    tagErrs := cs.tagErrs + (parseDogStatsDTags fl tags cs.labels).2 } := by
        rw [List.foldl_append, hcs]
        simp [stepComponent, show (cHash == cAt) = false by decide]
      have hod : od = parseSample fl pf m o (s ++ cPipe :: cHash :: tags) := rfl
      have ho' : o' = parseSample fl pf m o s := rfl
      simp only [parseSample, hspd, hl2, hv, he', hfold] at hod
      simp only [parseSample, hsp, hl1, hv, he, hcs] at ho'
      simp only [if_false, Bool.false_eq_true] at hod ho'
      refine ⟨?_, ?_, ?_, fun h => absurd h (by simp), ?_⟩
      · rw [hod, ho']; (repeat' split) <;> first | rfl | simp_all
      · rw [hod, ho']; (repeat' split) <;> first | rfl | simp_all
      · rw [hod, ho']; (repeat' split) <;> first | rfl | simp_all
      · intro _ hin
        obtain ⟨c1, c2⟩ := foldl_stepComponent_inert fl pf (statTypeOf stB) extra
          ⟨(pf v).1, 1, o.labels, [], 0⟩ hin
        rw [hcs] at c1 c2
        simp only [] at c1 c2
        rw [c1, c2] at hod
        refine ⟨?_, ?_, ?_⟩
        · rw [hod]; (repeat' split) <;> first | rfl | simp_all
        · rw [hod]; (repeat' split) <;> first | rfl | simp_all
        · rw [hod]; (repeat' split) <;> first | rfl | simp_all


theorem containsSub_dog (s tags : Bytes) :
    containsSub [cPipe, cHash] (s ++ cPipe :: cHash :: tags) = true :=
  containsSub_of_suffix s (containsSub_pattern [cPipe, cHash] tags (by simp))

/-- a line `name:s|#tags` with an untagged name and a colon-free `s` is one `parseSample` -/
theorem afterName_dog (fl : ParserFlags) (pf : Pf V) (m : Bytes) (E : Nat) (s tags : Bytes)
    (hc : cColon ∉ s) :
    afterName fl pf (m, [], E) (s ++ cPipe :: cHash :: tags) =
      parseSample fl pf m (startSt [] E) (s ++ cPipe :: cHash :: tags) := by
  have hcut : ∃ a r, cut cPipe (s ++ cPipe :: cHash :: tags) = some (a, r) ∧ cColon ∉ a := by
    by_cases hp : cPipe ∈ s
    · obtain ⟨a, r, h⟩ := cut_of_mem hp
      obtain ⟨e, ha⟩ := cut_some h
      refine ⟨a, r ++ cPipe :: cHash :: tags, ?_, ?_⟩
      · rw [e, List.append_assoc, List.cons_append]; exact cut_append _ ha
      · intro h; exact hc (by rw [e]; simp [h])
    · exact ⟨s, cHash :: tags, cut_append _ hp, hc⟩
  obtain ⟨a, r, hcut, hca⟩ := hcut
  obtain ⟨p1, tl, h3, _⟩ := splitN3_of_cut hcut
  unfold afterName
  simp only [containsSub_dog, h3, containsByte_eq_false hca]
  simp [startSt]


theorem containsSub_of_not_mem_snd {x y : UInt8} {s : Bytes} (h : y ∉ s) :
    containsSub [x, y] s = false := by
  induction s with
  | nil => rfl
  | cons b bs ih =>
    obtain ⟨_, hbs⟩ := ne_of_not_mem_cons h
    rw [containsSub_cons, ih hbs, Bool.or_false]
    cases bs with
    | nil => simp [List.isPrefixOf]
    | cons c cs =>
      have : c ≠ y := (ne_of_not_mem_cons hbs).1
      have : y ≠ c := fun e => this e.symm
      simp [List.isPrefixOf, this]

theorem splitOn_two_of_mem {c : UInt8} {s : Bytes} (h : c ∈ s) :
    ∃ v t extra, splitOn c s = v :: t :: extra := by
  obtain ⟨a, r, hcut⟩ := cut_of_mem h
  obtain ⟨e, ha⟩ := cut_some hcut
  obtain ⟨t, extra, ht⟩ := splitOn_exists c r
  exact ⟨a, t, extra, by rw [e, splitOn_append _ ha, ht]⟩

/-- a rendered tag list contains no delimiter other than `,` and the separator -/
theorem render_join_free (sep : UInt8) {ts : List TagEntry} (h : TagsOk ts) {c : UInt8}
    (hc : c ∈ tagDelims) (h1 : c ≠ cComma) (h2 : c ≠ sep) :
    c ∉ joinWith cComma (ts.map (TagEntry.render sep)) := by
  apply not_mem_joinWith h1
  intro p hp
  obtain ⟨t, ht, rfl⟩ := List.mem_map.mp hp
  exact (h.1 t ht).render_free hc h2

/-- `name:s|#tags` against `name:s` for an untagged name: same events; the `#` section is
    looked at only if the sample is accepted -/
theorem afterName_dog_vs_plain (fl : ParserFlags) (pf : Pf V) (m : Bytes) (s tags : Bytes)
    (hc : cColon ∉ s) (hh : cHash ∉ s) (ht : cPipe ∉ tags) (hlen : (splitOn cPipe s).length ≤ 3) :
    let r := afterName fl pf (m, [], 0) (s ++ cPipe :: cHash :: tags)
    let p := afterName fl pf (m, [], 0) s
    r.events = p.events ∧ (cPipe ∈ s → r.errs = p.errs ∧ r.samples = p.samples) ∧
    (sampleAccepted pf s = true →
      r.labels = (parseDogStatsDTags fl tags []).1 ∧ r.tagErrs = (parseDogStatsDTags fl tags []).2 ∧
      r.tagsRecv = (if (parseDogStatsDTags fl tags []).1.isEmpty then 0 else 1)) ∧
    (sampleAccepted pf s = false → r.labels = [] ∧ r.tagErrs = 0 ∧ r.tagsRecv = 0) := by
  intro r p
  have hd : containsSub [cPipe, cHash] s = false := containsSub_of_not_mem_snd hh
  have hr : r = parseSample fl pf m (startSt [] 0) (s ++ cPipe :: cHash :: tags) :=
    afterName_dog fl pf m 0 s tags hc
  by_cases hp : cPipe ∈ s
  · have hpp : p = parseSample fl pf m (startSt [] 0) s := afterName_single fl pf m [] 0 s hp hc hd
    obtain ⟨v, stB, extra, hsp⟩ := splitOn_two_of_mem hp
    have hl : extra.length ≤ 1 := by rw [hsp] at hlen; simp at hlen; omega
    have hin : ∀ c ∈ extra, Inert fl c := by
      have := inert_of_no_dog fl hd
      rw [hsp] at this; simpa using this
    obtain ⟨a1, a2, a3, a4, a5⟩ := parseSample_dog fl pf m (startSt [] 0) s tags v stB extra ht hsp hl
    have hin2 := inert_of_no_dog fl hd
    rw [hr, hpp]
    refine ⟨a1, fun _ => ⟨a2, a3⟩, ?_, ?_⟩
    · intro hacc
      obtain ⟨b1, b2, b3⟩ := a5 hacc hin
      refine ⟨b1, ?_, ?_⟩
      · rw [b2]; simp [startSt]
      · rw [b3]; simp [startSt]
    · intro hacc
      obtain ⟨b1, b2, b3⟩ := a4 hacc
      rw [b1, b2, b3, (parseSample_inert fl pf m _ s hin2).1, (parseSample_inert fl pf m _ s hin2).2,
        parseSample_inert_tagsRecv fl pf m _ s hin2]
      simp [startSt]
  · have hpp : p = _ := afterName_nopipe fl pf m [] 0 s hp
    have hsp : splitOn cPipe (s ++ cPipe :: cHash :: tags) = [s, cHash :: tags] := by
      rw [splitOn_dog s tags ht, splitOn_of_not_mem hp]; rfl
    rw [hr, hpp]
    refine ⟨?_, fun h => absurd h hp, ?_, ?_⟩
    · rw [parseSample_dog_one fl pf m _ s tags hp ht]; rfl
    · intro h; rw [sampleAccepted_nopipe pf hp] at h; exact absurd h (by simp)
    · intro _
      by_cases hv : ((pf s).2 != PfErr.ok) = true
      · simp [parseSample, hsp, hv, startSt]
      · simp only [parseSample, hsp, List.length_nil, hv, List.any_nil, statTypeOf_hash,
          List.foldl_nil, buildEvent]
        simp only [if_false, Bool.false_eq_true]
        refine ⟨?_, ?_, ?_⟩ <;> (repeat' split) <;> first | rfl | simp_all [startSt]


/-- a sample that is not accepted contributes no event -/
theorem sOut_not_accepted (fl : ParserFlags) (pf : Pf V) (m : Bytes) (s : Bytes)
    (h : sampleAccepted pf s = false) : (sOut fl pf m s).events = [] := by
  unfold sampleAccepted at h
  rcases hsp : splitOn cPipe s with _ | ⟨v, _ | ⟨stB, extra⟩⟩
  · simp [sOut, parseSample, hsp]
  · simp [sOut, parseSample, hsp]
  · rw [hsp] at h
    simp only [] at h
    by_cases hl : extra.length > 2
    · simp [sOut, parseSample, hsp, hl]
    · by_cases hv : ((pf v).2 != PfErr.ok) = true
      · simp [sOut, parseSample, hsp, hl, hv]
      · by_cases he : extra.any (·.isEmpty) = true
        · simp [sOut, parseSample, hsp, hl, hv, he]
        · have : extra.length ≤ 2 := by omega
          have hv' : ((pf v).2 == PfErr.ok) = true := by simpa using hv
          simp [this, hv', he] at h

end SE
