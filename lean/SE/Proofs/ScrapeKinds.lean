import SE.Proofs.Scrape
/-
C01, per kind: closed forms of the folds of `counter.Add`, gauge `Set`/`Add` and `Observe`, and the
instantiation of the compositional theorem for the events of a history that address one series.
-/
set_option linter.unusedSectionVars false
namespace SE
open NumOps
variable {V : Type} [NumOps V]

/-! ### counter -/

theorem counterFold_cons (s0 : Series V) (v : V) (vs : List V) :
    counterFold s0 (v :: vs) = counterFold (counterAdd s0 v) vs := rfl

theorem specSeries_counter (s0 : Series V) (vec : VecM V) (vs : List V) :
    specSeries s0 vec (vs.map fun v => fun (_ : VecM V) s => counterAdd s v) = counterFold s0 vs := by
  unfold specSeries counterFold
  rw [List.foldl_map]

/-- the float accumulator: the left sum of the increments that do not take the integer path -/
theorem counterFold_f (vs : List V) : ∀ s0 : Series V,
    (counterFold s0 vs).f = sumFrom s0.f (vs.filter fun v => !intPath v) := by
  induction vs with
  | nil => intro s0; rfl
  | cons v vs ih =>
    intro s0
    rw [counterFold_cons, ih, List.filter_cons]
    unfold counterAdd intPath
    cases h : toUInt64Exact v with
    | some k => simp
    | none => simp [sumFrom]

/-- the integer accumulator: the sum of the integer increments, modulo 2^64 -/
theorem counterFold_n_mod (vs : List V) : ∀ s0 : Series V,
    (counterFold s0 vs).n % two64 = (s0.n + (vs.filterMap toUInt64Exact).sum) % two64 := by
  induction vs with
  | nil => intro s0; simp [counterFold]
  | cons v vs ih =>
    intro s0
    rw [counterFold_cons, ih, List.filterMap_cons]
    unfold counterAdd
    cases h : toUInt64Exact v with
    | some k =>
      simp only [List.sum_cons]
      rw [Nat.mod_add_mod, Nat.add_assoc]
    | none => simp

theorem counterFold_n_lt (vs : List V) : ∀ s0 : Series V, s0.n < two64 → (counterFold s0 vs).n < two64 := by
  induction vs with
  | nil => intro s0 h; exact h
  | cons v vs ih =>
    intro s0 h
    rw [counterFold_cons]
    apply ih
    unfold counterAdd
    cases toUInt64Exact v with
    | some k => exact Nat.mod_lt _ (by decide)
    | none => exact h

theorem counterFold_n (vs : List V) (s0 : Series V) (h : s0.n < two64) :
    (counterFold s0 vs).n = (s0.n + (vs.filterMap toUInt64Exact).sum) % two64 := by
  rw [← counterFold_n_mod, Nat.mod_eq_of_lt (counterFold_n_lt vs s0 h)]

theorem counterFold_rest (vs : List V) : ∀ s0 : Series V,
    (counterFold s0 vs).bk = s0.bk ∧ (counterFold s0 vs).labels = s0.labels := by
  induction vs with
  | nil => intro s0; exact ⟨rfl, rfl⟩
  | cons v vs ih =>
    intro s0
    rw [counterFold_cons]
    obtain ⟨h1, h2⟩ := ih (counterAdd s0 v)
    rw [h1, h2]
    unfold counterAdd
    split <;> exact ⟨rfl, rfl⟩

theorem filter_not_intPath_of_none (vs : List V) (h : ∀ v ∈ vs, toUInt64Exact v = none) :
    (vs.filter fun v => !intPath v) = vs ∧ vs.filterMap toUInt64Exact = [] := by
  constructor
  · rw [List.filter_eq_self]
    intro v hv; simp [intPath, h v hv]
  · rw [List.filterMap_eq_nil_iff]
    exact h

/-- no increment takes the integer path: the float accumulator is the plain left sum, the integer
    accumulator does not move -/
theorem counterFold_no_int (vs : List V) (s0 : Series V) (h : ∀ v ∈ vs, toUInt64Exact v = none) :
    (counterFold s0 vs).f = sumFrom s0.f vs ∧ (counterFold s0 vs).n = s0.n := by
  constructor
  · rw [counterFold_f, (filter_not_intPath_of_none vs h).1]
  · induction vs generalizing s0 with
    | nil => rfl
    | cons v vs ih =>
      rw [counterFold_cons, ih _ (fun w hw => h w (List.mem_cons_of_mem _ hw))]
      unfold counterAdd
      rw [h v List.mem_cons_self]

/-! ### gauge -/

/-- the update of a gauge sample -/
def gaugeUpd (op : Bool × V) : VecM V → Series V → Series V :=
  fun _ s => if op.1 then { s with f := add s.f op.2 } else { s with f := op.2 }

theorem specSeries_gauge (vec : VecM V) (ops : List (Bool × V)) : ∀ s0 : Series V,
    (specSeries s0 vec (ops.map gaugeUpd)).f = gaugeSpec ops s0.f ∧
    (specSeries s0 vec (ops.map gaugeUpd)).n = s0.n ∧ (specSeries s0 vec (ops.map gaugeUpd)).bk = s0.bk ∧
    (specSeries s0 vec (ops.map gaugeUpd)).labels = s0.labels := by
  induction ops with
  | nil => intro s0; exact ⟨rfl, rfl, rfl, rfl⟩
  | cons op ops ih =>
    intro s0
    rw [List.map_cons, specSeries_cons]
    obtain ⟨h1, h2, h3, h4⟩ := ih (gaugeUpd op vec s0)
    rw [h1, h2, h3, h4]
    unfold gaugeUpd gaugeSpec
    rw [List.foldl_cons]
    unfold gaugeStep
    cases op.1 <;> exact ⟨rfl, rfl, rfl, rfl⟩

theorem gaugeSpec_append (xs ys : List (Bool × V)) (v0 : V) :
    gaugeSpec (xs ++ ys) v0 = gaugeSpec ys (gaugeSpec xs v0) := by
  unfold gaugeSpec; rw [List.foldl_append]

/-- only signed samples: the deltas are added to the starting value, in order -/
theorem gaugeSpec_relative (deltas : List (Bool × V)) (h : ∀ d ∈ deltas, d.1 = true) : ∀ v0 : V,
    gaugeSpec deltas v0 = sumFrom v0 (deltas.map (·.2)) := by
  induction deltas with
  | nil => intro v0; rfl
  | cons d ds ih =>
    intro v0
    have hd := h d List.mem_cons_self
    unfold gaugeSpec sumFrom
    rw [List.foldl_cons, List.map_cons, List.foldl_cons]
    have := ih (fun x hx => h x (List.mem_cons_of_mem _ hx)) (gaugeStep v0 d)
    unfold gaugeSpec sumFrom at this
    rw [this]
    simp [gaugeStep, hd]

/-- **a gauge is its last absolute value plus the later signed deltas** (whatever came before) -/
theorem gaugeSpec_last_absolute (pre deltas : List (Bool × V)) (a v0 : V) (h : ∀ d ∈ deltas, d.1 = true) :
    gaugeSpec (pre ++ (false, a) :: deltas) v0 = sumFrom a (deltas.map (·.2)) := by
  rw [gaugeSpec_append]
  show gaugeSpec deltas (gaugeStep (gaugeSpec pre v0) (false, a)) = _
  rw [gaugeSpec_relative deltas h]
  rfl

/-! ### observers -/

theorem observeFold_cons (vec : VecM V) (b : Bool) (s0 : Series V) (x : V) (xs : List V) :
    observeFold vec b s0 (x :: xs) = observeFold vec b (observe vec b s0 x) xs := rfl

theorem specSeries_observe (s0 : Series V) (vec : VecM V) (b : Bool) (xs : List V) :
    specSeries s0 vec (xs.map fun x => fun v s => observe v b s x) = observeFold vec b s0 xs := by
  unfold specSeries observeFold
  rw [List.foldl_map]

theorem bumpAll_cons (bk : List Nat) (i : Nat) (is : List Nat) : bumpAll bk (i :: is) = bumpAll (bumpAt bk i) is := rfl

/-- count = number of observations, sum = left sum of the observations, bucket counts = the buckets of the
    observations' `bucketIndex` incremented (histogram) or untouched (summary) -/
theorem observeFold_spec (vec : VecM V) (b : Bool) (xs : List V) : ∀ s0 : Series V,
    (observeFold vec b s0 xs).n = s0.n + xs.length ∧
    (observeFold vec b s0 xs).f = sumFrom s0.f xs ∧
    (observeFold vec b s0 xs).bk =
      (if b then bumpAll s0.bk (xs.map (bucketIndex (effBounds vec.bounds))) else s0.bk) ∧
    (observeFold vec b s0 xs).labels = s0.labels := by
  induction xs with
  | nil => intro s0; refine ⟨rfl, rfl, ?_, rfl⟩; cases b <;> rfl
  | cons x xs ih =>
    intro s0
    rw [observeFold_cons]
    obtain ⟨h1, h2, h3, h4⟩ := ih (observe vec b s0 x)
    rw [h1, h2, h3, h4]
    unfold observe
    refine ⟨?_, rfl, ?_, rfl⟩
    · simp only [List.length_cons]; omega
    · cases b
      · rfl
      · simp only [if_true, List.map_cons, bumpAll_cons]

theorem bumpAt_getElem? (bk : List Nat) : ∀ (j i : Nat),
    (bumpAt bk j)[i]? = (bk[i]?).map fun c => if i = j then c + 1 else c := by
  induction bk with
  | nil => intro j i; simp [bumpAt]
  | cons x xs ih =>
    intro j i
    cases j with
    | zero =>
      cases i with
      | zero => simp [bumpAt]
      | succ i => simp [bumpAt]
    | succ j =>
      cases i with
      | zero => simp [bumpAt]
      | succ i => simp [bumpAt, ih j i]

theorem bumpAt_length (bk : List Nat) : ∀ j, (bumpAt bk j).length = bk.length := by
  induction bk with
  | nil => intro j; rfl
  | cons x xs ih =>
    intro j
    cases j with
    | zero => rfl
    | succ j => simp [bumpAt, ih j]

theorem bumpAll_length (is : List Nat) : ∀ bk : List Nat, (bumpAll bk is).length = bk.length := by
  induction is with
  | nil => intro bk; rfl
  | cons i is ih => intro bk; rw [bumpAll_cons, ih, bumpAt_length]

/-- per bucket: the count of bucket `i` goes up by the number of indices equal to `i` -/
theorem bumpAll_getElem? (is : List Nat) : ∀ (bk : List Nat) (i : Nat),
    (bumpAll bk is)[i]? = (bk[i]?).map fun c => c + is.count i := by
  induction is with
  | nil => intro bk i; simp [bumpAll]
  | cons j is ih =>
    intro bk i
    rw [bumpAll_cons, ih, bumpAt_getElem?]
    cases bk[i]? with
    | none => rfl
    | some c =>
      simp only [Option.map_some, List.count_cons]
      by_cases h : i = j
      · subst h; simp; omega
      · have : (j == i) = false := by simpa using fun h' => h h'.symm
        simp [h, this]

/-- **histogram buckets**: bucket `i` counts the observations whose `bucketIndex` is `i` -/
theorem observeFold_bucket (vec : VecM V) (xs : List V) (s0 : Series V) (i : Nat) :
    (observeFold vec true s0 xs).bk[i]? =
      (s0.bk[i]?).map fun c => c + xs.countP fun x => bucketIndex (effBounds vec.bounds) x == i := by
  rw [(observeFold_spec vec true xs s0).2.2.1]
  simp only [if_true]
  rw [bumpAll_getElem?]
  have : (xs.map (bucketIndex (effBounds vec.bounds))).count i =
      xs.countP fun x => bucketIndex (effBounds vec.bounds) x == i := by
    unfold List.count
    rw [List.countP_map]
    rfl
  rw [this]

/-! #### every observation lands in one of the `len + 1` buckets -/

theorem goSearch_le (f : Nat → Bool) : ∀ (fuel i j : Nat), i ≤ j → goSearch f fuel i j ≤ j := by
  intro fuel
  induction fuel with
  | zero => intro i j h; exact h
  | succ fuel ih =>
    intro i j h
    unfold goSearch
    split
    · rename_i hlt
      simp only []
      split
      · exact ih _ _ (by omega)
      · exact Nat.le_trans (ih _ _ (by omega)) (by omega)
    · exact h

theorem bucketIndex_le (bounds : List V) (v : V) : bucketIndex bounds v ≤ bounds.length := by
  unfold bucketIndex
  split
  · split
    · exact Nat.zero_le _
    · split
      · exact Nat.le_refl _
      · split
        · split
          · rename_i i hi
            have := (List.findIdx?_eq_some_iff_getElem.mp hi).1
            omega
          · exact Nat.le_refl _
        · exact goSearch_le _ _ _ _ (Nat.zero_le _)
  · exact Nat.zero_le _

theorem bumpAt_sum (bk : List Nat) : ∀ j, j < bk.length → (bumpAt bk j).sum = bk.sum + 1 := by
  induction bk with
  | nil => intro j h; simp at h
  | cons x xs ih =>
    intro j h
    cases j with
    | zero => simp [bumpAt]; omega
    | succ j =>
      simp only [bumpAt, List.sum_cons]
      rw [ih j (by simpa using h)]
      omega

theorem bumpAll_sum (is : List Nat) : ∀ bk : List Nat, (∀ i ∈ is, i < bk.length) →
    (bumpAll bk is).sum = bk.sum + is.length := by
  induction is with
  | nil => intro bk _; rfl
  | cons i is ih =>
    intro bk h
    rw [bumpAll_cons, ih _ (by intro k hk; rw [bumpAt_length]; exact h k (List.mem_cons_of_mem _ hk)),
      bumpAt_sum _ _ (h i List.mem_cons_self)]
    simp only [List.length_cons]; omega

/-- with one bucket per effective bound plus `+Inf`, no observation is lost: the bucket counts go up by
    the number of observations in total -/
theorem observeFold_bucket_total (vec : VecM V) (xs : List V) (s0 : Series V)
    (hlen : s0.bk.length = (effBounds vec.bounds).length + 1) :
    (observeFold vec true s0 xs).bk.sum = s0.bk.sum + xs.length ∧
    (observeFold vec true s0 xs).bk.length = s0.bk.length := by
  rw [(observeFold_spec vec true xs s0).2.2.1]
  simp only [if_true]
  refine ⟨?_, bumpAll_length _ _⟩
  rw [bumpAll_sum, List.length_map]
  intro i hi
  obtain ⟨x, _, e⟩ := List.mem_map.mp hi
  subst e
  have := bucketIndex_le (effBounds vec.bounds) x
  omega

/-! ### the own events of a series in a history -/

theorem ownUpds_eq_map (name : Bytes) (L : Labels) (g : Ev V → VecM V → Series V → Series V)
    (tr : List (Ev V × Touch V)) (h : ∀ et ∈ tr, et.2.upd = g et.1) :
    ownUpds name L (tr.map (·.2)) = (ownEvents name L tr).map g := by
  induction tr with
  | nil => rfl
  | cons et tr ih =>
    have ih' := ih (fun x hx => h x (List.mem_cons_of_mem _ hx))
    unfold ownUpds ownEvents at ih' ⊢
    rw [List.map_cons, List.filter_cons, List.filter_cons]
    split
    · simp only [List.map_cons, ih', h et List.mem_cons_self]
    · exact ih'

/-- the updates a series receives in a history are the protocol's updates of its own events -/
theorem ownUpds_touches {rx : Rx} {evs : List (Ev V × Labels)} {p p' : Pipe V}
    (h : runEvs rx p evs = some (.ok p')) (name : Bytes) (L : Labels) :
    ownUpds name L (touches rx p evs) = (ownEvents name L (trace rx p evs)).map (evUpd p rx) :=
  ownUpds_eq_map name L (evUpd p rx) _ (fun et het => (trace_spec evs h et het).2)

theorem mem_ownEvents {name : Bytes} {L : Labels} {tr : List (Ev V × Touch V)} {ev : Ev V}
    (h : ev ∈ ownEvents name L tr) : ∃ t, (ev, t) ∈ tr ∧ t.name = name ∧ t.labels = L := by
  unfold ownEvents at h
  obtain ⟨et, het, e⟩ := List.mem_map.mp h
  obtain ⟨hm, ha⟩ := List.mem_filter.mp het
  obtain ⟨ev', t⟩ := et
  simp only at e; subst e
  exact ⟨t, hm, (addresses_iff t name L).mp ha⟩

/-- the own events of a series all ask for the type its metric has at the end -/
theorem ownEvents_type {rx : Rx} {evs : List (Ev V × Labels)} {p p' : Pipe V}
    (h : runEvs rx p evs = some (.ok p')) {name : Bytes} {L : Labels} {ty : MType}
    (hty : p'.reg.type? name = some ty) {ev : Ev V} (hev : ev ∈ ownEvents name L (trace rx p evs)) :
    evType p rx ev = ty := by
  obtain ⟨t, hm, hn, _⟩ := mem_ownEvents hev
  have h1 := (trace_spec evs h (ev, t) hm).1
  have h2 := (touched_exists rx evs p p' h t (List.mem_map.mpr ⟨(ev, t), hm, rfl⟩)).2
  rw [hn, hty] at h2
  injection h2 with h2
  simp only at h1
  rw [← h1, h2]

theorem evType_counter {p : Pipe V} {rx : Rx} {ev : Ev V} (h : evType p rx ev = .counter) : ev.kind = .counter := by
  unfold evType at h
  cases hk : ev.kind with
  | counter => rfl
  | gauge => rw [hk] at h; cases h
  | observer => rw [hk] at h; simp only at h; split at h <;> cases h

theorem evType_gauge {p : Pipe V} {rx : Rx} {ev : Ev V} (h : evType p rx ev = .gauge) : ev.kind = .gauge := by
  unfold evType at h
  cases hk : ev.kind with
  | counter => rw [hk] at h; cases h
  | gauge => rfl
  | observer => rw [hk] at h; simp only at h; split at h <;> cases h

theorem evType_observer {p : Pipe V} {rx : Rx} {ev : Ev V} (h : evType p rx ev = .histogram ∨ evType p rx ev = .summary) :
    ev.kind = .observer ∧ (evObsTy p rx ev == .histogram) = (evType p rx ev == .histogram) := by
  unfold evType at h ⊢
  cases hk : ev.kind with
  | counter => rw [hk] at h; rcases h with h | h <;> cases h
  | gauge => rw [hk] at h; rcases h with h | h <;> cases h
  | observer =>
    refine ⟨rfl, ?_⟩
    simp only []
    cases evObsTy p rx ev == ObsTy.histogram <;> rfl

theorem evUpd_counter {p : Pipe V} {rx : Rx} {ev : Ev V} (h : ev.kind = .counter) :
    evUpd p rx ev = fun _ s => counterAdd s (evValue p rx ev) := by
  unfold evUpd; rw [h]

theorem evUpd_gauge {p : Pipe V} {rx : Rx} {ev : Ev V} (h : ev.kind = .gauge) :
    evUpd p rx ev = gaugeUpd (ev.relative, evValue p rx ev) := by
  unfold evUpd gaugeUpd; rw [h]

theorem evUpd_observer {p : Pipe V} {rx : Rx} {ev : Ev V} (h : ev.kind = .observer) :
    evUpd p rx ev = fun v s => observe v (evObsTy p rx ev == .histogram) s (evValue p rx ev) := by
  unfold evUpd; rw [h]

/-- a counter series: the fold of its own updates is `counter.Add` folded over the scaled values of its
    own events -/
theorem ownUpds_counter {rx : Rx} {evs : List (Ev V × Labels)} {p p' : Pipe V}
    (h : runEvs rx p evs = some (.ok p')) {name : Bytes} {L : Labels}
    (hty : p'.reg.type? name = some .counter) (start : Series V) (vec : VecM V) :
    specSeries start vec (ownUpds name L (touches rx p evs)) =
      counterFold start ((ownEvents name L (trace rx p evs)).map (evValue p rx)) := by
  rw [ownUpds_touches h, ← specSeries_counter start vec, List.map_map]
  congr 1
  apply List.map_congr_left
  intro ev hev
  exact evUpd_counter (evType_counter (ownEvents_type h hty hev))

theorem ownUpds_gauge {rx : Rx} {evs : List (Ev V × Labels)} {p p' : Pipe V}
    (h : runEvs rx p evs = some (.ok p')) {name : Bytes} {L : Labels}
    (hty : p'.reg.type? name = some .gauge) :
    ownUpds name L (touches rx p evs) =
      ((ownEvents name L (trace rx p evs)).map fun ev => (ev.relative, evValue p rx ev)).map gaugeUpd := by
  rw [ownUpds_touches h, List.map_map]
  apply List.map_congr_left
  intro ev hev
  exact evUpd_gauge (evType_gauge (ownEvents_type h hty hev))

theorem ownUpds_observer {rx : Rx} {evs : List (Ev V × Labels)} {p p' : Pipe V}
    (h : runEvs rx p evs = some (.ok p')) {name : Bytes} {L : Labels} {ty : MType}
    (hty : p'.reg.type? name = some ty) (hobs : ty = .histogram ∨ ty = .summary) (start : Series V) (vec : VecM V) :
    specSeries start vec (ownUpds name L (touches rx p evs)) =
      observeFold vec (ty == .histogram) start ((ownEvents name L (trace rx p evs)).map (evValue p rx)) := by
  rw [ownUpds_touches h, ← specSeries_observe start vec, List.map_map]
  congr 1
  apply List.map_congr_left
  intro ev hev
  have ht := ownEvents_type h hty hev
  obtain ⟨hk, hb⟩ := evType_observer (p := p) (rx := rx) (ev := ev) (by rw [ht]; exact hobs)
  rw [evUpd_observer hk, hb, ht]
  rfl

end SE
