import SE.Proofs.Glob
/-
Ordered mode on the level of one type root (`TRules`): with backtracking, the best-priority
final state is the first rule of the root whose pattern matches.
-/
namespace SE
open SE.ListLemmas

/-- glob indices strictly increase along a type root's rule list -/
def Sorted (rs : TRules) : Prop := rs.Pairwise (fun a b => a.1 < b.1)

theorem rulesFor_sorted (rules : List GRule) (ty : Nat) : Sorted (rulesFor rules ty) := by
  unfold Sorted rulesFor
  rw [List.pairwise_map]
  exact List.Pairwise.filter _ (zipIdx_pairwise rules 0)

theorem Sorted.unique {rs : TRules} (hs : Sorted rs) {i : Nat} {a b : Pat}
    (ha : (i, a) ∈ rs) (hb : (i, b) ∈ rs) : a = b := by
  unfold Sorted at hs
  induction rs with
  | nil => simp at ha
  | cons r rs ih =>
    rw [List.pairwise_cons] at hs
    rcases List.mem_cons.mp ha with ha | ha <;> rcases List.mem_cons.mp hb with hb | hb
    · rw [← ha] at hb; cases hb; rfl
    · have := hs.1 _ hb; rw [← ha] at this; simp at this
    · have := hs.1 _ ha; rw [← hb] at this; simp at this
    · exact ih hs.2 ha hb

/-- the first rule with a given pattern owns the node -/
theorem result_of_first {as bs : TRules} {i : Nat} {pat : Pat} (has : ∀ a ∈ as, a.2 ≠ pat) :
    result (as ++ (i, pat) :: bs) pat = some i := by
  have h0 : as.find? (fun r => r.2 == pat) = none := by
    rw [List.find?_eq_none]; intro x hx; simpa using has x hx
  simp [result, List.find?_append, h0]

/-- no rule of the root matches ⇒ the search finds nothing (with or without backtracking) -/
theorem dfs_nil_of_no_match (rs : TRules) (bt : Bool) (name : Pat)
    (h : rs.find? (fun r => globMatches r.2 name) = none) : dfs rs bt [] [] name = [] := by
  rw [List.eq_nil_iff_forall_not_mem]
  intro f hf
  obtain ⟨ext, h1, h2, _⟩ := dfs_sound rs bt name [] [] f hf
  have hmem := result_some_mem h2
  rw [List.find?_eq_none] at h
  exact h _ hmem (by simpa using h1)

/-- ordered mode, backtracking on: the selected final state belongs to the first matching rule, and
    carries that rule's captures -/
theorem ordered_pick_dfs (rs : TRules) (hs : Sorted rs) (name : Pat) (hne : name ≠ [])
    (i : Nat) (pat : Pat) (h : rs.find? (fun r => globMatches r.2 name) = some (i, pat)) :
    ∃ b, pick true (dfs rs true [] [] name) = some b ∧ b.rule = i ∧
      b.caps = capturesOf pat name := by
  rw [List.find?_eq_some_iff_append] at h
  obtain ⟨hm, as, bs, hrs, has⟩ := h
  simp only at hm
  have has' : ∀ a ∈ as, globMatches a.2 name = false := by
    intro a ha; simpa using has a ha
  have hres : result rs ([] ++ pat) = some i := by
    rw [hrs]; apply result_of_first
    intro a ha heq
    have := has' a ha; rw [heq, hm] at this; cases this
  obtain ⟨c, hc, _⟩ := dfs_complete rs name [] [] pat i hne hm hres
  have hmin : ∀ f ∈ dfs rs true [] [] name, i ≤ f.rule := by
    intro f hf
    obtain ⟨ext, h1, h2, _⟩ := dfs_sound rs true name [] [] f hf
    have hmem := result_some_mem h2
    simp only [List.nil_append] at hmem
    rw [hrs] at hmem
    rcases List.mem_append.mp hmem with hmem | hmem
    · have := has' _ hmem; simp only at this; rw [h1] at this; cases this
    · rcases List.mem_cons.mp hmem with hmem | hmem
      · cases hmem; exact Nat.le_refl _
      · unfold Sorted at hs
        rw [hrs, List.pairwise_append] at hs
        have := (List.pairwise_cons.mp hs.2.1).1 _ hmem
        simp only at this; omega
  obtain ⟨b, hb, hbi, hbm⟩ := pick_ordered_of_min ⟨c, hc⟩ hmin
  refine ⟨b, hb, hbi, ?_⟩
  obtain ⟨ext, _, h2, h3⟩ := dfs_sound rs true name [] [] b hbm
  have hmem := result_some_mem h2
  rw [hbi] at hmem
  have hmem' := result_some_mem hres
  have : [] ++ ext = [] ++ pat := hs.unique hmem hmem'
  simp only [List.nil_append] at this
  rw [h3, this]; simp

end SE
