import SE.Proofs.SafetyLoad
import SE.Proofs.SafetyPipe
/-
Helper lemmas for C19(c) and C02: a configuration that the (repaired) loader accepts is `ConfigSafe`.

`load` runs `validateBuckets` / `validateSummaryOptions` on the effective defaults and on the effective
options of every rule (`loadRule_ok_opts`, `load_ok_inv` in SE/Proofs/SafetyLoad.lean). What the exporter
hands to the histogram / summary constructors (SE/Model/Exporter.lean, `ruleBounds`, `ruleMaxAge`,
`ruleObjectives` in SE/Proofs/SafetyPipe.lean) is always one of the validated option sets, so the
components of `ConfigSafe` follow — under the hypotheses collected in `LoaderAssumptions`, which are
hypotheses of the theorems (no axiom is declared).
-/
set_option linter.unusedSectionVars false
namespace SE
variable {V : Type} [NumOps V]

/-! ### the hypotheses -/

/-- **Objective law** (a fact about IEEE arithmetic, assumed of the number type): for a quantile rank
    `q ∈ [0, 1]` perks' `Query` never indexes out of range — `ceil(l·q)` stays within `[0, l]` — whatever the
    number `l` of samples. -/
def ObjectiveLaw (V : Type) [NumOps V] : Prop :=
  ∀ (q : V), NumOps.ge q NumOps.zero = true → NumOps.le q NumOps.one = true → ∀ l, queryPanics l q = false

/-- **What `accepted_config_safe` assumes** about the number type:
    * `objectiveLaw`: ranks in `[0, 1]` never make `Query` index out of range (IEEE fact about `ceil(l·q)`).

    Nothing is assumed about the raw configuration any more. Until the repair 2eac18a the structure also asked for
    every `age_buckets` to fit Go's `uint32`: with `max_age` unset the stream duration is `600000000000 / age_buckets`,
    which the loader did not check; it now validates the effective window (library defaults filled in) against
    `minStreamDuration`, so the typing fact is no longer needed.

    The library defaults `db` / `dq` handed to `load` need no hypothesis: `load` validates the *effective*
    defaults, which are the library's whenever the configuration sets none. -/
structure LoaderAssumptions (raw : RawConfig V) : Prop where
  objectiveLaw : ObjectiveLaw V

/-- the library defaults handed to `load` are themselves valid (`prometheus.DefBuckets` strictly increasing,
    `defaultQuantiles` with ranks in `[0, 1]`); needed only for a configuration without defaults of its own to
    be *accepted* -/
structure LibraryDefaultsSane (db : List V) (dq : List (V × V)) : Prop where
  buckets : strictlyIncreasing db = true
  quantiles : ∀ q, q ∈ dq → NumOps.ge q.1 NumOps.zero = true ∧ NumOps.le q.1 NumOps.one = true

/-! ### `summaryOptsOk` gives `SummarySafe` -/

theorem summaryOptsOk_iff (quantiles : List (V × V)) (maxAge : Int) (ageBuckets : Nat) :
    summaryOptsOk quantiles maxAge ageBuckets = true ↔
      (∀ q, q ∈ quantiles → NumOps.ge q.1 NumOps.zero = true ∧ NumOps.le q.1 NumOps.one = true) ∧
      0 ≤ maxAge ∧
      minStreamDuration ≤ (if maxAge == 0 then 600000000000 else maxAge) / (((if ageBuckets == 0 then 5 else ageBuckets : Nat)) : Int) := by
  unfold summaryOptsOk
  simp only [Bool.and_eq_true, List.all_eq_true, Bool.not_eq_true', decide_eq_false_iff_not, Int.not_lt]
  exact ⟨fun ⟨⟨a, b⟩, c⟩ => ⟨a, b, c⟩, fun ⟨a, b, c⟩ => ⟨⟨a, b⟩, c⟩⟩

/-- ranks in `[0, 1]` are safe objectives -/
theorem objectivesSafe_of_ranks (law : ObjectiveLaw V) (quantiles : List (V × V))
    (h : ∀ q, q ∈ quantiles → NumOps.ge q.1 NumOps.zero = true ∧ NumOps.le q.1 NumOps.one = true) :
    ObjectivesSafe (quantiles.map (·.1)) := by
  intro l q hq
  obtain ⟨p, hp, e⟩ := List.mem_map.mp hq
  subst e
  exact law p.1 (h p hp).1 (h p hp).2 l

theorem streamDuration_eq (maxAge : Int) (ageBuckets : Nat) :
    streamDuration maxAge ageBuckets =
      (if maxAge == 0 then 600000000000 else maxAge) / ((if ageBuckets == 0 then 5 else ageBuckets : Nat) : Int) := by
  unfold streamDuration
  have e : ((if ageBuckets == 0 then 5 else ageBuckets : Nat) : Int) = (if ageBuckets == 0 then 5 else (ageBuckets : Int)) := by
    split <;> rfl
  rw [e]

/-- options that passed `validateSummaryOptions`: `NewSummary` does not
    panic and `Observe` does not hang -/
theorem maxAge_safe_of_ok {quantiles : List (V × V)} {maxAge : Int} {ageBuckets : Nat}
    (h : summaryOptsOk quantiles maxAge ageBuckets = true) :
    0 ≤ maxAge ∧ streamDuration maxAge ageBuckets ≠ 0 := by
  obtain ⟨_, h2, h3⟩ := (summaryOptsOk_iff _ _ _).mp h
  refine ⟨h2, ?_⟩
  rw [streamDuration_eq]
  unfold minStreamDuration at h3
  omega

/-- … and more: the stream duration the client library steps its buffer expiry by is at least a millisecond -/
theorem streamDuration_ge_of_ok {quantiles : List (V × V)} {maxAge : Int} {ageBuckets : Nat}
    (h : summaryOptsOk quantiles maxAge ageBuckets = true) :
    minStreamDuration ≤ streamDuration maxAge ageBuckets := by
  rw [streamDuration_eq]
  exact ((summaryOptsOk_iff _ _ _).mp h).2.2

theorem summarySafe_of_ok (law : ObjectiveLaw V) {quantiles : List (V × V)} {maxAge : Int} {ageBuckets : Nat}
    (h : summaryOptsOk quantiles maxAge ageBuckets = true) :
    SummarySafe maxAge ageBuckets (quantiles.map (·.1)) :=
  ⟨(maxAge_safe_of_ok h).1, (maxAge_safe_of_ok h).2,
    objectivesSafe_of_ranks law quantiles ((summaryOptsOk_iff _ _ _).mp h).1⟩

/-! ### what the loader validated is what the exporter uses -/

/-- the validated state of a loaded configuration, in terms of the configuration alone -/
structure ConfigValidated (cfg : Config V) : Prop where
  dBuckets : strictlyIncreasing cfg.dBuckets = true
  dSummary : summaryOptsOk cfg.dQuantiles cfg.dMaxAge cfg.dAgeBuckets = true
  ruleBuckets : ∀ r, r ∈ cfg.rules → r.hasHistOpts = true → strictlyIncreasing r.buckets = true
  ruleSummary : ∀ r, r ∈ cfg.rules → r.hasSummaryOpts = true → summaryOptsOk r.quantiles r.maxAge r.ageBuckets = true

/-- **`load` validates**: the effective defaults and the effective options of every rule passed
    `validateBuckets` / `validateSummaryOptions`. -/
theorem load_validated {rxOk : Bytes → Bool} {db : List V} {dq : List (V × V)} {raw : RawConfig V} {cfg : Config V}
    (h : load rxOk db dq raw = .ok cfg) : ConfigValidated cfg := by
  obtain ⟨_, _, _, _, _, _, d, rules, _, _, _, _, _, _, _, e4, v1, v2, _, e6, e7, e8, e9⟩ := load_ok_inv h
  refine ⟨by rw [e6]; exact v1, by rw [e7, e8, e9]; exact v2, fun rule hm hh => ?_, fun rule hm hs => ?_⟩
  · obtain ⟨_, _, _, _, r, _, hl⟩ := load_ok_rule_of_mem h rule hm
    exact (loadRule_ok_opts hl).1 hh
  · obtain ⟨_, _, _, _, r, _, hl⟩ := load_ok_rule_of_mem h rule hm
    exact (loadRule_ok_opts hl).2.1 hs

/-- a validated configuration is safe to run -/
theorem configSafe_of_validated (law : ObjectiveLaw V) {cfg : Config V} (hv : ConfigValidated cfg) : ConfigSafe cfg := by
  have hdef : SummarySafe cfg.dMaxAge cfg.dAgeBuckets (cfg.dQuantiles.map (·.1)) :=
    summarySafe_of_ok law hv.dSummary
  refine ⟨fun r hr _ => ?_, ?_⟩
  · unfold ObserverSafe
    split
    · -- histogram: the rule's own buckets (validated because `hasHistOpts`) or the default buckets
      unfold ruleBounds
      split
      · rename_i hb
        have : r.hasHistOpts = true := by
          cases hh : r.hasHistOpts
          · rw [hh] at hb; simp at hb
          · rfl
        exact hv.ruleBuckets r hr this
      · exact hv.dBuckets
    · -- summary: MaxAge / AgeBuckets of the rule if it has summary options, else the defaults';
      -- the rule's quantiles if it has some, else the defaults'
      cases hs : r.hasSummaryOpts with
      | false =>
        have e1 : ruleMaxAge cfg r = (cfg.dMaxAge, cfg.dAgeBuckets) := by unfold ruleMaxAge; rw [hs]; rfl
        have e2 : ruleObjectives cfg r = cfg.dQuantiles.map (·.1) := by unfold ruleObjectives; rw [hs]; rfl
        rw [e1, e2]
        exact hdef
      | true =>
        have e1 : ruleMaxAge cfg r = (r.maxAge, r.ageBuckets) := by unfold ruleMaxAge; rw [hs]; rfl
        have hrs := summarySafe_of_ok law (hv.ruleSummary r hr hs)
        rw [e1]
        refine ⟨hrs.maxAge_nonneg, hrs.duration_ne_zero, ?_⟩
        unfold ruleObjectives
        split
        · exact hrs.objectives
        · exact hdef.objectives
  · unfold ObserverSafe
    split
    · exact hv.dBuckets
    · exact hdef

/-- **Every configuration the loader accepts is safe to run** (under `LoaderAssumptions`). -/
theorem load_configSafe {rxOk : Bytes → Bool} {db : List V} {dq : List (V × V)} {raw : RawConfig V} {cfg : Config V}
    (ha : LoaderAssumptions raw) (h : load rxOk db dq raw = .ok cfg) : ConfigSafe cfg :=
  configSafe_of_validated ha.objectiveLaw (load_validated h)

/-! ### histories that reload loaded configurations -/

/-- `cfg` came out of the loader, for a raw configuration satisfying `LoaderAssumptions` -/
def Loaded (cfg : Config V) : Prop :=
  ∃ (rxOk : Bytes → Bool) (db : List V) (dq : List (V × V)) (raw : RawConfig V),
    LoaderAssumptions raw ∧ load rxOk db dq raw = .ok cfg

theorem Loaded.configSafe {cfg : Config V} (h : Loaded cfg) : ConfigSafe cfg := by
  obtain ⟨_, _, _, _, ha, hl⟩ := h
  exact load_configSafe ha hl

/-- every configuration a history reloads came out of the loader -/
def OpsLoaded (ops : List (PipeOp V)) : Prop := ∀ m, PipeOp.reload m ∈ ops → Loaded m.cfg

theorem OpsLoaded.opsSafe {ops : List (PipeOp V)} (h : OpsLoaded ops) : OpsSafe ops :=
  fun m hm => (h m hm).configSafe

end SE
