import SE.Proofs.SafetyExpo
/-
Helper lemmas for C03 (`gatherOk`): a characterisation of `Reg.gatherOk`, monotonicity of
`helpConsistent` / `suffixCollision`, and one simulation lemma (`gatherOk_of_sim`) from which the
preservation facts — sweep, the hit path, creation inside a vector that already has a live child —
all follow.
-/
set_option linter.unusedSectionVars false
namespace SE
variable {V : Type} [NumOps V]

/-- the help string of the vector with the given label names -/
def vecHelpN (vecs : List (VecM V)) (names : List Bytes) : Option Bytes :=
  (vecs.find? (·.names == names)).map (·.help)

/-- the help strings of the vectors of the live series, in series order -/
def helpList (m : MetricM V) : List Bytes := m.series.filterMap fun s => vecHelpN m.vecs (s.labels.map (·.1))

def allSame : List Bytes → Bool
  | [] => true
  | h :: rest => rest.all (· == h)

theorem helpConsistent_eq (m : MetricM V) : helpConsistent m = allSame (helpList m) := by
  unfold helpConsistent helpList allSame vecHelpN
  rfl

theorem allSame_iff (l : List Bytes) : allSame l = true ↔ ∀ x, x ∈ l → ∀ y, y ∈ l → x = y := by
  cases l with
  | nil => simp [allSame]
  | cons h rest =>
    simp only [allSame, List.all_eq_true, beq_iff_eq]
    constructor
    · intro hall x hx y hy
      have ex : x = h := by
        rcases List.mem_cons.mp hx with e | e
        · exact e
        · exact hall x e
      have ey : y = h := by
        rcases List.mem_cons.mp hy with e | e
        · exact e
        · exact hall y e
      rw [ex, ey]
    · intro hall y hy
      exact hall y (List.mem_cons_of_mem _ hy) h (List.mem_cons_self ..)

/-- fewer help strings cannot create a mismatch -/
theorem allSame_mono {l l' : List Bytes} (hsub : ∀ x, x ∈ l' → x ∈ l) (h : allSame l = true) : allSame l' = true := by
  rw [allSame_iff] at h ⊢
  intro x hx y hy
  exact h x (hsub x hx) y (hsub y hy)

/-- fewer families cannot create a suffix collision -/
theorem suffixCollision_mono {fams fams' : List (Bytes × MType)} (hsub : ∀ x, x ∈ fams' → x ∈ fams)
    (h : suffixCollision fams' = true) : suffixCollision fams = true := by
  unfold suffixCollision at h ⊢
  rw [List.any_eq_true] at h ⊢
  obtain ⟨⟨n, t⟩, hmem, hc⟩ := h
  refine ⟨(n, t), hsub _ hmem, ?_⟩
  cases t with
  | counter => exact hc
  | gauge => exact hc
  | histogram =>
    simp only at hc ⊢
    rw [List.any_eq_true] at hc ⊢
    obtain ⟨x, hx, hxc⟩ := hc
    exact ⟨x, hsub _ hx, hxc⟩
  | summary =>
    simp only at hc ⊢
    rw [List.any_eq_true] at hc ⊢
    obtain ⟨x, hx, hxc⟩ := hc
    exact ⟨x, hsub _ hx, hxc⟩

/-- agreement of a live statsd family with the pre-registered families of the same name -/
def preOk (pre : List (Bytes × MType × Bytes)) (m : MetricM V) : Bool :=
  pre.all fun p => p.1 != m.name ||
    (p.2.1 == m.ty && m.series.all fun s => vecHelpN m.vecs (s.labels.map (·.1)) == some p.2.2)

/-- the (name, type) pairs `checkSuffixCollisions` looks at -/
def liveFams (r : Reg V) : List (Bytes × MType) :=
  (r.metrics.filter (!·.series.isEmpty)).map (fun m => (m.name, m.ty)) ++ r.pre.map (fun p => (p.1, p.2.1))

theorem gatherOk_iff (r : Reg V) :
    r.gatherOk = true ↔
      (∀ m, m ∈ r.metrics → m.series.isEmpty = false → helpConsistent m = true ∧ preOk r.pre m = true) ∧
      suffixCollision (liveFams r) = false := by
  unfold Reg.gatherOk liveFams preOk vecHelpN
  simp only [Bool.and_eq_true, List.all_eq_true, List.mem_filter, Bool.not_eq_true', and_imp]
  constructor
  · rintro ⟨⟨h1, h2⟩, h3⟩
    exact ⟨fun m hm he => ⟨h1 m hm he, fun p hp => h2 m hm he p hp⟩, by simpa using h3⟩
  · rintro ⟨h1, h3⟩
    exact ⟨⟨fun m hm he => (h1 m hm he).1, fun m hm he p hp => (h1 m hm he).2 p hp⟩, by simpa using h3⟩

/-- **simulation**: if every live metric of `r'` corresponds to a live metric of `r` with the same name,
    type and vectors, and each of its series has the label *names* of some series of that metric (so it is a
    child of a vector that has a child in `r`), then a healthy scrape of `r` implies a healthy scrape of `r'` -/
theorem gatherOk_of_sim {r r' : Reg V} (hpre : r'.pre = r.pre)
    (hsim : ∀ m', m' ∈ r'.metrics → m'.series.isEmpty = false →
      ∃ m, m ∈ r.metrics ∧ m.series.isEmpty = false ∧ m'.name = m.name ∧ m'.ty = m.ty ∧ m'.vecs = m.vecs ∧
        ∀ s', s' ∈ m'.series → ∃ s, s ∈ m.series ∧ s.labels.map (·.1) = s'.labels.map (·.1))
    (h : r.gatherOk = true) : r'.gatherOk = true := by
  rw [gatherOk_iff] at h ⊢
  obtain ⟨h1, h2⟩ := h
  refine ⟨fun m' hm' he' => ?_, ?_⟩
  · obtain ⟨m, hm, he, hn, hty, hv, hs⟩ := hsim m' hm' he'
    obtain ⟨c1, c2⟩ := h1 m hm he
    constructor
    · rw [helpConsistent_eq] at c1 ⊢
      refine allSame_mono ?_ c1
      intro x hx
      simp only [helpList, List.mem_filterMap] at hx ⊢
      obtain ⟨s', hs', hx⟩ := hx
      obtain ⟨s, hs0, hl⟩ := hs s' hs'
      exact ⟨s, hs0, by rw [hl, ← hv]; exact hx⟩
    · unfold preOk at c2 ⊢
      rw [List.all_eq_true] at c2 ⊢
      intro p hp
      have := c2 p (by rw [← hpre]; exact hp)
      rw [hn, hty]
      simp only [Bool.or_eq_true, Bool.and_eq_true, List.all_eq_true] at this ⊢
      rcases this with h | ⟨h, hall⟩
      · exact Or.inl h
      · refine Or.inr ⟨h, fun s' hs' => ?_⟩
        obtain ⟨s, hs0, hl⟩ := hs s' hs'
        rw [hv, ← hl]; exact hall s hs0
  · cases hc : suffixCollision (liveFams r') with
    | false => rfl
    | true =>
      have : suffixCollision (liveFams r) = true := by
        refine suffixCollision_mono ?_ hc
        intro x hx
        simp only [liveFams, List.mem_append, List.mem_map, List.mem_filter, Bool.not_eq_true'] at hx ⊢
        rcases hx with ⟨m', ⟨hm', he'⟩, e⟩ | hx
        · obtain ⟨m, hm, he, hn, hty, _, _⟩ := hsim m' hm' he'
          exact Or.inl ⟨m, ⟨hm, he⟩, by rw [← e, hn, hty]⟩
        · exact Or.inr (by rw [← hpre]; exact hx)
      rw [h2] at this; cases this

/-! ### the instances -/

theorem gatherOk_empty : ({} : Reg V).gatherOk = true := by
  rw [gatherOk_iff]
  exact ⟨fun _ h => (by cases h), rfl⟩

/-- the empty statsd registry next to pre-registered families: healthy iff those do not collide themselves -/
theorem gatherOk_empty_pre (pre : List (Bytes × MType × Bytes)) :
    ({ metrics := [], pre := pre } : Reg V).gatherOk = !suffixCollision (pre.map fun p => (p.1, p.2.1)) := rfl

theorem isEmpty_false_of_mem {α} {l : List α} {x : α} (h : x ∈ l) : l.isEmpty = false := by
  cases l with
  | nil => cases h
  | cons _ _ => rfl

theorem exists_mem_of_isEmpty_false {α} {l : List α} (h : l.isEmpty = false) : ∃ x, x ∈ l := by
  cases l with
  | nil => cases h
  | cons a _ => exact ⟨a, List.mem_cons_self ..⟩

/-- **removing series cannot break a healthy scrape** -/
theorem gatherOk_sweep {r : Reg V} (now : Int) (h : r.gatherOk = true) : (r.sweep now).gatherOk = true := by
  refine gatherOk_of_sim (r := r) (r' := r.sweep now) rfl ?_ h
  intro m' hm' he'
  simp only [Reg.sweep, List.mem_map] at hm'
  obtain ⟨m, hm, e⟩ := hm'
  subst e
  obtain ⟨s, hs⟩ := exists_mem_of_isEmpty_false he'
  exact ⟨m, hm, isEmpty_false_of_mem (List.mem_filter.mp hs).1, rfl, rfl, rfl,
    fun s' hs' => ⟨s', (List.mem_filter.mp hs').1, rfl⟩⟩

/-- an `updateMetric` that keeps name, type and vectors and maps series to series with the same label names -/
theorem gatherOk_updateMetric_map {r : Reg V} (name : Bytes) (f : MetricM V → MetricM V)
    (hf : ∀ m, (f m).name = m.name ∧ (f m).ty = m.ty ∧ (f m).vecs = m.vecs)
    (hs : ∀ m, m ∈ r.metrics → m.name = name → ∀ s', s' ∈ (f m).series →
      ∃ s, s ∈ m.series ∧ s.labels.map (·.1) = s'.labels.map (·.1))
    (h : r.gatherOk = true) : (updateMetric r name f).gatherOk = true := by
  refine gatherOk_of_sim (r := r) (r' := updateMetric r name f) rfl ?_ h
  intro m' hm' he'
  obtain ⟨m, hm, ⟨hn, e⟩ | ⟨_, e⟩⟩ := mem_updateMetric hm'
  · subst e
    obtain ⟨s', hs'⟩ := exists_mem_of_isEmpty_false he'
    obtain ⟨s, hs0, _⟩ := hs m hm hn s' hs'
    exact ⟨m, hm, isEmpty_false_of_mem hs0, (hf m).1, (hf m).2.1, (hf m).2.2, hs m hm hn⟩
  · rw [e] at he' ⊢
    exact ⟨m, hm, he', rfl, rfl, rfl, fun s' hs' => ⟨s', hs', rfl⟩⟩

theorem gatherOk_touch {r : Reg V} (a : GetArgs V) (now : Int) (h : r.gatherOk = true) : (r.touch a now).gatherOk = true := by
  unfold Reg.touch
  refine gatherOk_updateMetric_map a.name _ (fun _ => ⟨rfl, rfl, rfl⟩) ?_ h
  intro m _ _ s' hs'
  simp only [List.mem_map] at hs'
  obtain ⟨s, hs, e⟩ := hs'
  exact ⟨s, hs, by rw [← e, touchSeries_labels]⟩

theorem gatherOk_updateSeries {r : Reg V} (name : Bytes) (labels : Labels) (f : VecM V → Series V → Series V)
    (hf : ∀ v s, (f v s).labels = s.labels) (h : r.gatherOk = true) : (updateSeries r name labels f).gatherOk = true := by
  rw [updateSeries_eq]
  refine gatherOk_updateMetric_map name _ (fun _ => ⟨rfl, rfl, rfl⟩) ?_ h
  intro m _ _ s' hs'
  simp only [updSeriesIn, List.mem_map] at hs'
  obtain ⟨s, hs, e⟩ := hs'
  refine ⟨s, hs, ?_⟩
  rw [← e]
  split
  · split
    · rw [hf]
    · rfl
  · rfl

/-- **creation inside a vector that already has a live child** (same metric, same label names) keeps the
    scrape healthy: the new series inherits the help string the family already exposes -/
theorem gatherOk_create_live_vec {r : Reg V} (hw : RegWF r) (ty : MType) (a : GetArgs V) (now : Int)
    (hh : r.isHit ty a = false) (hc : r.conflicts a.name ty = false)
    (m0 : MetricM V) (s0 : Series V) (hm0 : m0 ∈ r.metrics) (hn0 : m0.name = a.name) (hs0 : s0 ∈ m0.series)
    (hl0 : s0.labels.map (·.1) = a.labels.map (·.1)) (h : r.gatherOk = true) : (r.create ty a now).gatherOk = true := by
  have hfind : r.find a.name = some m0 := by rw [← hn0]; exact hw.find_of_mem hm0
  have hty : m0.ty = ty := (create_pre r ty a hh hc m0 hfind).1
  have hex : (r.existingVec ty a).isSome = true := by
    unfold Reg.existingVec
    rw [hfind]
    simp only [Option.bind_some, hty, beq_self_eq_true, if_true]
    obtain ⟨v, hv, hvn⟩ := hw.has_vec m0 hm0 s0 hs0
    rw [List.find?_isSome]
    exact ⟨v, hv, by rw [hvn, hl0]; simp⟩
  have hwm : r.withMetric ty a.name = r := by
    unfold Reg.withMetric; rw [hfind]; rfl
  unfold Reg.create
  rw [hwm]
  refine gatherOk_updateMetric_map a.name _ (fun _ => ⟨rfl, rfl, ?_⟩) ?_ h
  · simp only [storeIn, hex, if_true]
  · intro m hm hn s' hs'
    have hmeq : m = m0 := by
      have := hw.find_of_mem hm
      rw [hn, hfind] at this
      injection this with this; exact this.symm
    subst hmeq
    simp only [storeIn, List.mem_append, List.mem_singleton] at hs'
    rcases hs' with hs' | hs'
    · exact ⟨s', hs', rfl⟩
    · subst hs'; exact ⟨s0, hs0, hl0⟩

/-- `getOrCreate` on a healthy, well-formed registry stays healthy whenever the addressed vector already has
    a live child — in particular on the hit path (the addressed series itself is that child) -/
theorem gatherOk_getOrCreate_live_vec {r r' : Reg V} (hw : RegWF r) {ty : MType} {a : GetArgs V} {now : Int}
    (hg : r.getOrCreate ty a now = .ok (.ok r'))
    (hlive : ∃ m0 s0, m0 ∈ r.metrics ∧ m0.name = a.name ∧ s0 ∈ m0.series ∧ s0.labels.map (·.1) = a.labels.map (·.1))
    (h : r.gatherOk = true) : r'.gatherOk = true := by
  rcases getOrCreate_ok_cases hg with ⟨_, e⟩ | ⟨hh, hc, _, _, _, e⟩
  · subst e; exact gatherOk_touch a now h
  · subst e
    obtain ⟨m0, s0, hm0, hn0, hs0, hl0⟩ := hlive
    exact gatherOk_create_live_vec hw ty a now hh hc m0 s0 hm0 hn0 hs0 hl0 h

/-- the hit path needs no side condition -/
theorem gatherOk_getOrCreate_hit {r r' : Reg V} {ty : MType} {a : GetArgs V} {now : Int}
    (hg : r.getOrCreate ty a now = .ok (.ok r')) (hh : r.isHit ty a = true) (h : r.gatherOk = true) :
    r'.gatherOk = true := by
  rcases getOrCreate_ok_cases hg with ⟨_, e⟩ | ⟨hh', _⟩
  · subst e; exact gatherOk_touch a now h
  · rw [hh] at hh'; cases hh'

end SE
