import SE.Spec.Mapping
import SE.Proofs.ListLemmas
/-
Facts about the C04 specification itself (`firstGlob`, `firstRegex`, `firstMatch`): rules that do
not match, and rules after the winner, are irrelevant.
-/
namespace SE
open SE.ListLemmas
variable {V : Type}

theorem find?_congr_mem {α} {p q : α → Bool} {l : List α} (h : ∀ x ∈ l, p x = q x) :
    l.find? p = l.find? q := by
  induction l with
  | nil => rfl
  | cons a as ih =>
    simp only [List.find?_cons, h a (List.mem_cons_self ..)]
    rw [ih (fun x hx => h x (List.mem_cons_of_mem _ hx))]

/-- index of an old rule after a new rule was inserted at position `k` -/
def shiftAt (k i : Nat) : Nat := if i < k then i else i + 1

/-- index of a remaining rule after the rule at position `k` was erased -/
def unshiftAt (k i : Nat) : Nat := if i ≤ k then i else i - 1

theorem unshiftAt_shiftAt (k i : Nat) : unshiftAt k (shiftAt k i) = i := by
  unfold unshiftAt shiftAt
  by_cases h : i < k
  · simp only [h, if_true]; rw [if_pos (by omega)]
  · simp only [h, if_false]; rw [if_neg (by omega)]; omega

/-- first hit of an index-aware predicate after inserting a non-hit at position `pre.length` -/
theorem find?_zipIdx_insert {α} (pre post : List α) (r : α) (P P' : α × Nat → Bool)
    (hr : P' (r, pre.length) = false)
    (hlt : ∀ x i, i < pre.length → P' (x, i) = P (x, i))
    (hge : ∀ x i, pre.length ≤ i → i < pre.length + post.length → P' (x, i + 1) = P (x, i)) :
    ((pre ++ r :: post).zipIdx.find? P').map (·.2) =
      (((pre ++ post).zipIdx.find? P).map (·.2)).map (shiftAt pre.length) := by
  rw [List.zipIdx_append, List.zipIdx_append, List.zipIdx_cons, List.find?_append, List.find?_append,
    List.find?_cons]
  simp only [Nat.zero_add, hr]
  have h1 : pre.zipIdx.find? P' = pre.zipIdx.find? P := by
    apply find?_congr_mem
    intro x hx
    have := List.snd_lt_of_mem_zipIdx hx
    exact hlt x.1 x.2 (by omega)
  rw [h1]
  cases hpre : pre.zipIdx.find? P with
  | some x =>
    have := List.snd_lt_of_mem_zipIdx (List.mem_of_find?_eq_some hpre)
    simp only [Option.some_or, Option.map_some, shiftAt]
    rw [if_pos (by omega)]
  | none =>
    simp only [Option.none_or]
    rw [List.zipIdx_succ, List.find?_map]
    have h2 : (post.zipIdx pre.length).find? (P' ∘ fun x => match x with | (a, i) => (a, i + 1)) =
        (post.zipIdx pre.length).find? P := by
      apply find?_congr_mem
      intro x hx
      have := List.le_snd_of_mem_zipIdx hx
      have hlt' := List.snd_lt_of_mem_zipIdx hx
      exact hge x.1 x.2 this (by omega)
    rw [h2]
    cases hpost : (post.zipIdx pre.length).find? P with
    | none => rfl
    | some x =>
      have := List.le_snd_of_mem_zipIdx (List.mem_of_find?_eq_some hpost)
      simp only [Option.map_some, shiftAt]
      rw [if_neg (by omega)]

/-- the first hit only depends on the list up to and including it -/
theorem find?_zipIdx_take {α} (l l' : List α) (P P' : α × Nat → Bool) (x : α) (i : Nat)
    (h : l.zipIdx.find? P = some (x, i)) (htake : l'.take (i + 1) = l.take (i + 1))
    (hP : ∀ y j, j ≤ i → P' (y, j) = P (y, j)) :
    l'.zipIdx.find? P' = some (x, i) := by
  have hi : i < l.length := by
    have := List.snd_lt_of_mem_zipIdx (List.mem_of_find?_eq_some h); simpa using this
  have hl : l = l.take (i + 1) ++ l.drop (i + 1) := (List.take_append_drop _ _).symm
  have hl' : l' = l.take (i + 1) ++ l'.drop (i + 1) := by rw [← htake]; exact (List.take_append_drop _ _).symm
  have hlen : (l.take (i + 1)).length = i + 1 := by simp; omega
  -- the hit lies inside the common prefix
  have hpre : (l.take (i + 1)).zipIdx.find? P = some (x, i) := by
    rw [hl, List.zipIdx_append, List.find?_append] at h
    cases hp : (l.take (i + 1)).zipIdx.find? P with
    | some y => rw [hp] at h; simpa using h
    | none =>
      rw [hp] at h; simp only [Option.none_or] at h
      have := List.le_snd_of_mem_zipIdx (List.mem_of_find?_eq_some h)
      simp only [hlen] at this; omega
  rw [hl', List.zipIdx_append, List.find?_append]
  have : (l.take (i + 1)).zipIdx.find? P' = (l.take (i + 1)).zipIdx.find? P := by
    apply find?_congr_mem
    intro y hy
    have := List.snd_lt_of_mem_zipIdx hy
    simp only [hlen] at this
    exact hP y.1 y.2 (by omega)
  rw [this, hpre]; rfl

/-! ### the specification functions -/

theorem firstGlob_eq_find (cfg : Config V) (name : Bytes) (ty : Nat) :
    firstGlob cfg name ty =
      (cfg.rules.zipIdx.find? (fun x : Rule V × Nat => ruleMatchesGlob x.1 (splitOn 46 name) ty)).map (·.2) := rfl

/-- the index-aware predicate of `firstRegex` -/
def regexHit (rx : Rx) (name : Bytes) (ty : Nat) (x : Rule V × Nat) : Bool :=
  x.1.matchType == .regex && (rx x.2 name).isSome && typeOk x.1.matchMetricType ty

theorem firstRegex_eq_find (cfg : Config V) (rx : Rx) (name : Bytes) (ty : Nat) :
    firstRegex cfg rx name ty = (cfg.rules.zipIdx.find? (regexHit rx name ty)).map (·.2) := rfl

theorem firstGlob_some {cfg : Config V} {name : Bytes} {ty i : Nat} (h : firstGlob cfg name ty = some i) :
    ∃ r, cfg.rules.zipIdx.find? (fun x : Rule V × Nat => ruleMatchesGlob x.1 (splitOn 46 name) ty) = some (r, i) ∧
      cfg.rules[i]? = some r ∧ ruleMatchesGlob r (splitOn 46 name) ty = true := by
  rw [firstGlob_eq_find, Option.map_eq_some_iff] at h
  obtain ⟨⟨r, j⟩, hf, hj⟩ := h
  simp only at hj; subst hj
  have hm := List.find?_some hf
  exact ⟨r, hf, List.mem_zipIdx_iff_getElem?.mp (List.mem_of_find?_eq_some hf), hm⟩

theorem firstRegex_some {cfg : Config V} {rx : Rx} {name : Bytes} {ty i : Nat}
    (h : firstRegex cfg rx name ty = some i) :
    ∃ r, cfg.rules.zipIdx.find? (regexHit rx name ty) = some (r, i) ∧
      cfg.rules[i]? = some r ∧ regexHit rx name ty (r, i) = true := by
  rw [firstRegex_eq_find, Option.map_eq_some_iff] at h
  obtain ⟨⟨r, j⟩, hf, hj⟩ := h
  simp only at hj; subst hj
  exact ⟨r, hf, List.mem_zipIdx_iff_getElem?.mp (List.mem_of_find?_eq_some hf), List.find?_some hf⟩

theorem firstGlob_none_iff {cfg : Config V} {name : Bytes} {ty : Nat} :
    firstGlob cfg name ty = none ↔ ∀ r ∈ cfg.rules, ruleMatchesGlob r (splitOn 46 name) ty = false := by
  rw [firstGlob_eq_find, Option.map_eq_none_iff, List.find?_eq_none]
  constructor
  · intro h r hr
    obtain ⟨i, hi⟩ := List.getElem?_of_mem hr
    have := h (r, i) (List.mem_zipIdx_iff_getElem?.mpr hi)
    simpa using this
  · intro h x hx
    have := h x.1 (List.mem_of_getElem? (List.mem_zipIdx_iff_getElem?.mp hx))
    simp [this]

end SE
