/-
Small list lemmas (core Lean only) used by the glob / mapper proofs.
-/
namespace SE.ListLemmas

theorem foldl_min_le_init (xs : List Nat) (x : Nat) : xs.foldl min x ≤ x := by
  induction xs generalizing x with
  | nil => simp
  | cons a as ih =>
    simp only [List.foldl_cons]
    exact Nat.le_trans (ih _) (Nat.min_le_left _ _)

theorem foldl_min_le_mem (xs : List Nat) (x y : Nat) (h : y ∈ xs) : xs.foldl min x ≤ y := by
  induction xs generalizing x with
  | nil => simp at h
  | cons a as ih =>
    simp only [List.foldl_cons]
    rcases List.mem_cons.mp h with rfl | h
    · exact Nat.le_trans (foldl_min_le_init _ _) (Nat.min_le_right _ _)
    · exact ih _ h

theorem le_foldl_max_init (xs : List Nat) (x : Nat) : x ≤ xs.foldl max x := by
  induction xs generalizing x with
  | nil => simp
  | cons a as ih =>
    simp only [List.foldl_cons]
    exact Nat.le_trans (Nat.le_max_left _ _) (ih _)

theorem le_foldl_max_mem (xs : List Nat) (x y : Nat) (h : y ∈ xs) : y ≤ xs.foldl max x := by
  induction xs generalizing x with
  | nil => simp at h
  | cons a as ih =>
    simp only [List.foldl_cons]
    rcases List.mem_cons.mp h with rfl | h
    · exact Nat.le_trans (Nat.le_max_right _ _) (le_foldl_max_init _ _)
    · exact ih _ h

/-- `find?` on `zipIdx` with a predicate on the element only: the element found is `find?` on the list -/
theorem find?_zipIdx_fst {α} (P : α → Bool) (l : List α) (n : Nat) :
    ((l.zipIdx n).find? (fun x => P x.1)).map (·.1) = l.find? P := by
  induction l generalizing n with
  | nil => simp
  | cons a as ih =>
    simp only [List.zipIdx_cons, List.find?_cons]
    cases h : P a <;> simp [ih]

/-- `(l.zipIdx.filter (P ∘ fst)).map fst = l.filter P` -/
theorem filter_zipIdx_fst {α} (P : α → Bool) (l : List α) (n : Nat) :
    ((l.zipIdx n).filter (fun x => P x.1)).map (·.1) = l.filter P := by
  induction l generalizing n with
  | nil => simp
  | cons a as ih =>
    simp only [List.zipIdx_cons, List.filter_cons]
    cases h : P a <;> simp [ih]

/-- indices in `zipIdx` are strictly increasing -/
theorem zipIdx_pairwise {α} (l : List α) (n : Nat) :
    (l.zipIdx n).Pairwise (fun a b => a.2 < b.2) := by
  induction l generalizing n with
  | nil => simp
  | cons a as ih =>
    simp only [List.zipIdx_cons, List.pairwise_cons]
    refine ⟨?_, ih _⟩
    intro b hb
    have := List.le_snd_of_mem_zipIdx hb
    omega

theorem findSome?_eq_find?_map {α β γ} (f : α → Option β) (p : α → Bool) (g : β → γ) (h : α → γ)
    (l : List α)
    (hnone : ∀ a, p a = false → f a = none)
    (hsome : ∀ a, p a = true → ∃ b, f a = some b ∧ g b = h a) :
    (l.findSome? f).map g = (l.find? p).map h := by
  induction l with
  | nil => simp
  | cons a as ih =>
    simp only [List.findSome?_cons, List.find?_cons]
    cases hp : p a
    · simp [hnone a hp, ih]
    · obtain ⟨b, hb, hg⟩ := hsome a hp
      simp [hb, hg]

end SE.ListLemmas
