import SE.Proofs.SuffixFree
/-
Helper lemmas for C03/C08/C19: the invariant `HelpUniform` (SE/Spec/Registry.lean) — all vectors of one metric
entry carry the same help string. It holds of the empty registry, is preserved by every `getOrCreate` that returns
a registry on a well-formed registry (this is what the registry's `helpFor` buys: a new vector of a known name is
created with the help string of the name's first vector, whatever the request says), by `updateSeries` and by the
sweep (vectors are never touched), hence by every history; and it implies the first conjunct of `Reg.gatherOk`:
every family has one help string. Together with `SuffixFree` (SE/Proofs/SuffixFree.lean): without pre-registered
families `Gather` succeeds.
-/
set_option linter.unusedSectionVars false
namespace SE
variable {V : Type} [NumOps V]

/-! ### preservation -/

theorem HelpUniform_empty (pre : List (Bytes × MType × Bytes)) : HelpUniform ({ metrics := [], pre := pre } : Reg V) :=
  fun _ h => by cases h

/-- `HelpUniform` only looks at the vector lists of the metric entries -/
theorem HelpUniform_of_sub {r r' : Reg V}
    (hsub : ∀ m', m' ∈ r'.metrics → ∃ m, m ∈ r.metrics ∧ m'.vecs = m.vecs) (h : HelpUniform r) : HelpUniform r' := by
  intro m' hm' v hv w hw
  obtain ⟨m, hm, e⟩ := hsub m' hm'
  rw [e] at hv hw
  exact h m hm v hv w hw

theorem HelpUniform_updateMetric {r : Reg V} (h : HelpUniform r) (name : Bytes) (f : MetricM V → MetricM V)
    (hf : ∀ m, (f m).vecs = m.vecs) : HelpUniform (updateMetric r name f) := by
  refine HelpUniform_of_sub ?_ h
  intro m' hm'
  obtain ⟨m, hm, ⟨_, e⟩ | ⟨_, e⟩⟩ := mem_updateMetric hm'
  · subst e; exact ⟨m, hm, hf m⟩
  · subst e; exact ⟨m', hm, rfl⟩

/-- the value update that follows an accepted request touches no vector -/
theorem HelpUniform_updateSeries {r : Reg V} (h : HelpUniform r) (name : Bytes) (labels : Labels)
    (f : VecM V → Series V → Series V) : HelpUniform (updateSeries r name labels f) := by
  rw [updateSeries_eq]
  exact HelpUniform_updateMetric h name _ (fun _ => rfl)

/-- the sweep removes series only: every metric entry keeps its vectors — the same statement before and after -/
theorem HelpUniform_sweep_iff (r : Reg V) (now : Int) : HelpUniform (r.sweep now) ↔ HelpUniform r := by
  constructor
  · refine HelpUniform_of_sub ?_
    intro m hm
    exact ⟨sweepMetric now m, by rw [sweep_metrics]; exact List.mem_map_of_mem hm, rfl⟩
  · refine HelpUniform_of_sub ?_
    intro m' hm'
    rw [sweep_metrics, List.mem_map] at hm'
    obtain ⟨m, hm, e⟩ := hm'
    subst e
    exact ⟨m, hm, rfl⟩

theorem HelpUniform_sweep {r : Reg V} (h : HelpUniform r) (now : Int) : HelpUniform (r.sweep now) :=
  (HelpUniform_sweep_iff r now).mpr h

/-- the hit path: clock and ttl of one series -/
theorem HelpUniform_touch {r : Reg V} (h : HelpUniform r) (a : GetArgs V) (now : Int) : HelpUniform (r.touch a now) := by
  unfold Reg.touch
  exact HelpUniform_updateMetric h a.name _ (fun _ => rfl)

/-- in a help-uniform registry `Reg.firstHelp?` is the help string of *every* vector of the name -/
theorem firstHelp?_of_mem {r : Reg V} (h : HelpUniform r) {name : Bytes} {m : MetricM V} (hf : r.find name = some m)
    {v : VecM V} (hv : v ∈ m.vecs) : r.firstHelp? name = some v.help := by
  unfold Reg.firstHelp?
  rw [hf]
  simp only [Option.bind_some]
  cases hvs : m.vecs with
  | nil => rw [hvs] at hv; cases hv
  | cons v0 rest =>
    simp only [List.head?_cons, Option.map_some, Option.some.injEq]
    exact h m (mem_of_find hf).1 v0 (by rw [hvs]; exact List.mem_cons_self ..) v hv

theorem firstHelp?_of_vec? {r : Reg V} (h : HelpUniform r) {name : Bytes} {names : List Bytes} {v : VecM V}
    (hv : r.vec? name names = some v) : r.firstHelp? name = some v.help := by
  unfold Reg.vec? at hv
  cases hf : r.find name with
  | none => rw [hf] at hv; cases hv
  | some m =>
    rw [hf] at hv
    exact firstHelp?_of_mem h hf (List.mem_of_find?_eq_some hv)

/-- the vector a creation adds (when it adds one) has the help string of the vectors that are already there -/
theorem vecFor_help_of_mem {r : Reg V} (h : HelpUniform r) {ty : MType} {a : GetArgs V} {m : MetricM V}
    (hf : r.find a.name = some m) (he : r.existingVec ty a = none) {v : VecM V} (hv : v ∈ m.vecs) :
    (r.vecFor ty a).help = v.help := by
  unfold Reg.vecFor
  rw [he]
  show r.helpFor a = v.help
  unfold Reg.helpFor
  rw [firstHelp?_of_mem h hf hv]
  rfl

/-- **the creation path preserves `HelpUniform`** (on a well-formed registry: the entry `find` answers with is
    the only one of that name): the new vector, if one is created, gets the help string `helpFor` picks — that of
    the first vector of the entry, which by uniformity is that of all of them. -/
theorem HelpUniform_create {r : Reg V} (hw : RegWF r) (h : HelpUniform r) (ty : MType) (a : GetArgs V) (now : Int) :
    HelpUniform (r.create ty a now) := by
  intro m' hm' v hv w hw'
  unfold Reg.create at hm'
  obtain ⟨m, hm, ⟨hn, e⟩ | ⟨_, e⟩⟩ := mem_updateMetric hm'
  · subst e
    -- the entry stored into: a registered one (then it is what `find` answers) or the fresh one without vectors
    have hold : ∀ x, x ∈ m.vecs → ∀ y, y ∈ m.vecs → x.help = y.help := by
      rcases mem_withMetric hm with hm0 | ⟨e, _⟩
      · exact h m hm0
      · subst e; intro x hx; cases hx
    have hnew : r.existingVec ty a = none → ∀ x, x ∈ m.vecs → (r.vecFor ty a).help = x.help := by
      intro he x hx
      rcases mem_withMetric hm with hm0 | ⟨e, _⟩
      · have hf : r.find a.name = some m := by rw [← hn]; exact hw.find_of_mem hm0
        exact vecFor_help_of_mem h hf he hx
      · subst e; cases hx
    simp only [storeIn] at hv hw'
    cases he : r.existingVec ty a with
    | some v0 =>
      rw [he] at hv hw'
      simp only [Option.isSome_some, if_true] at hv hw'
      exact hold v hv w hw'
    | none =>
      rw [he] at hv hw'
      simp only [Option.isSome_none, Bool.false_eq_true, if_false, List.mem_append, List.mem_singleton] at hv hw'
      rcases hv with hv | hv <;> rcases hw' with hw' | hw'
      · exact hold v hv w hw'
      · rw [hw']; exact (hnew he v hv).symm
      · rw [hv]; exact hnew he w hw'
      · rw [hv, hw']
  · subst e
    rcases mem_withMetric hm with hm0 | ⟨e, _⟩
    · exact h m' hm0 v hv w hw'
    · subst e; cases hv

/-- **every `getOrCreate` that returns a registry preserves `HelpUniform`**. Hit path: no vector changes.
    Creation path: `HelpUniform_create`. -/
theorem HelpUniform_getOrCreate {r r' : Reg V} {ty : MType} {a : GetArgs V} {now : Int} (hw : RegWF r)
    (h : HelpUniform r) (hg : r.getOrCreate ty a now = .ok (.ok r')) : HelpUniform r' := by
  rcases getOrCreate_ok_cases hg with ⟨_, e⟩ | ⟨_, _, _, _, _, e⟩
  · subst e; exact HelpUniform_touch h a now
  · subst e; exact HelpUniform_create hw h ty a now

/-! ### along steps and histories -/

theorem HelpUniform_handleEvent {p p' : Pipe V} {rx : Rx} {ev : Ev V} {tags : Labels} (hw : RegWF p.reg)
    (hs : HelpUniform p.reg) (h : handleEvent p rx ev tags = some (.ok p')) : HelpUniform p'.reg := by
  by_cases ha : p'.counts.applied = p.counts.applied + 1
  · obtain ⟨c, pl, reg, ht, hg, e⟩ := handleEvent_applied h ha
    subst e
    simp only [appliedPipe]
    exact HelpUniform_updateSeries (HelpUniform_getOrCreate hw hs hg) _ _ _
  · rw [handleEvent_not_applied h ha]; exact hs

theorem HelpUniform_handleEvents {rx : Rx} {tags : Labels} (evs : List (Ev V)) :
    ∀ {p p' : Pipe V}, RegWF p.reg → HelpUniform p.reg → handleEvents p rx tags evs = some (.ok p') →
      RegWF p'.reg ∧ HelpUniform p'.reg := by
  induction evs with
  | nil =>
    intro p p' hw hs h
    simp only [handleEvents] at h; injection h with h; injection h with h; subst h; exact ⟨hw, hs⟩
  | cons e es ih =>
    intro p p' hw hs h
    simp only [handleEvents] at h
    split at h
    · cases h
    · cases h
    · rename_i p1 h1
      exact ih (RegWF_handleEvent hw h1) (HelpUniform_handleEvent hw hs h1) h

theorem HelpUniform_runOps (rx : Rx) (ops : List (PipeOp V)) :
    ∀ {p p' : Pipe V}, RegWF p.reg → HelpUniform p.reg → runOps rx p ops = some (.ok p') →
      RegWF p'.reg ∧ HelpUniform p'.reg := by
  induction ops with
  | nil => intro p p' hw hs h; simp only [runOps] at h; injection h with h; injection h with h; subst h; exact ⟨hw, hs⟩
  | cons op rest ih =>
    intro p p' hw hs h
    cases op with
    | line tags evs =>
      simp only [runOps] at h
      split at h
      · rename_i p1 h1
        obtain ⟨hw1, hs1⟩ := HelpUniform_handleEvents evs hw hs h1
        exact ih hw1 hs1 h
      · rename_i other hne
        cases ho : handleEvents p rx tags evs with
        | none => rw [ho] at h; cases h
        | some x =>
          cases x with
          | error pn => rw [ho] at h; injection h with h; cases h
          | ok p1 => exact absurd ho (hne p1)
    | sweep =>
      simp only [runOps] at h
      exact ih (p := { p with reg := p.reg.sweep p.now }) (RegWF_sweep hw p.now) (HelpUniform_sweep hs p.now) h
    | advance now => simp only [runOps] at h; exact ih (p := { p with now := now }) hw hs h
    | reload m => simp only [runOps] at h; exact ih (p := { p with mapper := m }) hw hs h

/-- a registry without statsd metrics (whatever is pre-registered) is well-formed and help-uniform -/
theorem wf_helpUniform_of_no_metrics {r : Reg V} (h : r.metrics = []) : RegWF r ∧ HelpUniform r := by
  obtain ⟨metrics, pre⟩ := r
  simp only at h
  subst h
  exact ⟨RegWF_empty pre, HelpUniform_empty pre⟩

/-! ### the link to `Gather` -/

/-- every help string `helpConsistent` compares is the help string of a vector of the entry -/
theorem mem_helpList {m : MetricM V} {x : Bytes} (hx : x ∈ helpList m) : ∃ v, v ∈ m.vecs ∧ v.help = x := by
  simp only [helpList, vecHelpN, List.mem_filterMap, Option.map_eq_some_iff] at hx
  obtain ⟨_, _, v, hv, e⟩ := hx
  exact ⟨v, List.mem_of_find?_eq_some hv, e⟩

/-- **in a help-uniform registry every family has one help string** — live or not -/
theorem helpConsistent_of_helpUniform {r : Reg V} (h : HelpUniform r) (m : MetricM V) (hm : m ∈ r.metrics) :
    helpConsistent m = true := by
  rw [helpConsistent_eq, allSame_iff]
  intro x hx y hy
  obtain ⟨v, hv, ev⟩ := mem_helpList hx
  obtain ⟨w, hw, ew⟩ := mem_helpList hy
  rw [← ev, ← ew]
  exact h m hm v hv w hw

/-- … in particular the live ones, the first conjunct of `Reg.gatherOk` -/
theorem live_helpConsistent_of_helpUniform {r : Reg V} (h : HelpUniform r) :
    (r.metrics.filter (!·.series.isEmpty)).all helpConsistent = true := by
  rw [List.all_eq_true]
  intro m hm
  exact helpConsistent_of_helpUniform h m (List.mem_filter.mp hm).1

/-- suffix-free, help-uniform and nothing pre-registered: `Gather` succeeds -/
theorem gatherOk_of_suffixFree_helpUniform {r : Reg V} (hs : SuffixFree r) (hh : HelpUniform r) (hpre : r.pre = []) :
    r.gatherOk = true := by
  rw [gatherOk_of_suffixFree hs hpre]
  exact live_helpConsistent_of_helpUniform hh

end SE
