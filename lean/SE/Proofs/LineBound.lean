import SE.Proofs.Line
/-
How much one line can produce (SE/Model/Line.lean): the number of samples of a line is bounded by its
length, and every sample contributes at most `M` events, where `M` bounds the repetition counts
`int(1/rate)` that the `|@rate` components of the line can set. So the sampling multiplicity is the only
way a line can produce more events than it has bytes (cf. SE/Props/C02.lean, finding
`sampling_multiplicity_unbounded`).
-/
namespace SE
variable {V : Type} [NumOps V]

/-- the repetition count that a component `@b` sets for a timer/histogram/distribution sample:
    Go `int(1 / samplingFactor)` with `samplingFactor` the parsed rate, replaced by 1 if it is 0 -/
@[reducible] def rateMult (pf : Pf V) (b : Bytes) : Nat :=
  (NumOps.recipInt (if NumOps.isZero (pf b).1 then NumOps.one else (pf b).1)).toNat

/-! ### counting pieces -/

/-- `strings.Split` returns at most one piece more than the string has bytes -/
theorem splitOn_length_le (c : UInt8) (s : Bytes) : (splitOn c s).length ≤ s.length + 1 := by
  induction s with
  | nil => simp [splitOn]
  | cons b bs ih =>
    by_cases hb : b = c
    · subst hb
      rw [splitOn_cons_eq]
      simp only [List.length_cons]
      omega
    · obtain ⟨p, ps, hp⟩ := splitOn_exists c bs
      rw [splitOn_cons_ne hb hp]
      rw [hp] at ih
      simp only [List.length_cons] at ih ⊢
      omega

/-! ### one sample -/

/-- a component changes the repetition count only to a `rateMult`, and adds at most one error -/
theorem stepComponent_bound (fl : ParserFlags) (pf : Pf V) (st : StatType) (M : Nat)
    (hM : ∀ b : Bytes, rateMult pf b ≤ M) (s : CompSt V) (c : Bytes) (h : s.mult.toNat ≤ M) :
    (stepComponent fl pf st s c).mult.toNat ≤ M ∧
    (stepComponent fl pf st s c).errs.length ≤ s.errs.length + 1 := by
  cases c with
  | nil => exact ⟨h, Nat.le_succ _⟩
  | cons b rest =>
    have hr : (NumOps.recipInt (if NumOps.isZero (pf rest).1 then NumOps.one else (pf rest).1)).toNat ≤ M := hM rest
    by_cases hb : (b == cAt) = true
    · by_cases he : ((pf rest).2 != PfErr.ok) = true <;>
        cases st <;> constructor <;> simp [stepComponent, hb, he] <;> omega
    · by_cases hh : (b == cHash) = true
      · constructor <;> simp [stepComponent, hb, hh] <;> omega
      · constructor <;> simp [stepComponent, hb, hh] <;> omega

theorem foldl_stepComponent_bound (fl : ParserFlags) (pf : Pf V) (st : StatType) (M : Nat)
    (hM : ∀ b : Bytes, rateMult pf b ≤ M) (cs : List Bytes) :
    ∀ s : CompSt V, s.mult.toNat ≤ M →
      (cs.foldl (stepComponent fl pf st) s).mult.toNat ≤ M ∧
      (cs.foldl (stepComponent fl pf st) s).errs.length ≤ s.errs.length + cs.length := by
  induction cs with
  | nil => intro s h; exact ⟨h, Nat.le_refl _⟩
  | cons c cs ih =>
    intro s h
    obtain ⟨a, b⟩ := stepComponent_bound fl pf st M hM s c h
    obtain ⟨a', b'⟩ := ih _ a
    refine ⟨a', ?_⟩
    rw [List.foldl_cons, List.length_cons]
    omega

/-- **one sample yields at most `M` events** and at most `M + 2` error increments -/
theorem sOut_bound (fl : ParserFlags) (pf : Pf V) (m : Bytes) (M : Nat) (hM1 : 1 ≤ M)
    (hM : ∀ b : Bytes, rateMult pf b ≤ M) (s : Bytes) :
    (sOut fl pf m s).events.length ≤ M ∧ (sOut fl pf m s).errs.length ≤ M + 2 := by
  rcases hsp : splitOn cPipe s with _ | ⟨v, _ | ⟨stB, extra⟩⟩
  · constructor <;> simp [sOut, parseSample, hsp]
  · constructor <;> simp [sOut, parseSample, hsp]
  · by_cases hl : extra.length > 2
    · constructor <;> simp [sOut, parseSample, hsp, hl]
    · by_cases hv : ((pf v).2 != PfErr.ok) = true
      · constructor <;> simp [sOut, parseSample, hsp, hl, hv]
      · by_cases he : extra.any (·.isEmpty) = true
        · constructor <;> simp [sOut, parseSample, hsp, hl, hv, he]
        · obtain ⟨c1, c2⟩ := foldl_stepComponent_bound fl pf (statTypeOf stB) M hM extra
            ⟨(pf v).1, 1, [], [], 0⟩ (by simpa using hM1)
          simp only [List.length_nil, Nat.zero_add] at c2
          simp only [sOut, parseSample, hsp, hl, hv, he]
          simp only [if_false, Bool.false_eq_true]
          constructor <;> (repeat' split) <;> simp <;> omega

/-! ### the sample loop -/

/-- the invariant of the sample loop: so far at most `M` events and `M + 2` errors per sample -/
structure LoopBound (M : Nat) (o : ParseOut V) : Prop where
  events : o.events.length ≤ o.samples * M
  errs : o.errs.length ≤ o.samples * (M + 2)

theorem parseSample_loopBound (fl : ParserFlags) (pf : Pf V) (m : Bytes) (M : Nat) (hM1 : 1 ≤ M)
    (hM : ∀ b : Bytes, rateMult pf b ≤ M) (o : ParseOut V) (s : Bytes) (h : LoopBound M o) :
    LoopBound M (parseSample fl pf m o s) := by
  obtain ⟨h1, h2⟩ := h
  obtain ⟨a, b⟩ := sOut_bound fl pf m M hM1 hM s
  constructor
  · rw [parseSample_events, parseSample_samples, List.length_append, Nat.add_mul]
    omega
  · rw [parseSample_errs, parseSample_samples, List.length_append, Nat.add_mul]
    omega

theorem foldl_parseSample_loopBound (fl : ParserFlags) (pf : Pf V) (m : Bytes) (M : Nat) (hM1 : 1 ≤ M)
    (hM : ∀ b : Bytes, rateMult pf b ≤ M) (ss : List Bytes) :
    ∀ o : ParseOut V, LoopBound M o → LoopBound M (ss.foldl (parseSample fl pf m) o) := by
  induction ss with
  | nil => intro o h; exact h
  | cons s ss ih => intro o h; exact ih _ (parseSample_loopBound fl pf m M hM1 hM o s h)

/-! ### the whole line -/

/-- `lineToEvents` on a line that gets past the first-colon cut is `afterName` (any `valid`) -/
theorem lineToEvents_eq_afterName (fl : ParserFlags) (pf : Pf V) (valid : Bool) (line e0 e1 : Bytes)
    (hne : line.isEmpty = false) (hcut : cut cColon line = some (e0, e1))
    (h : (e0.isEmpty || !valid) = false) :
    lineToEvents fl pf valid line = afterName fl pf (parseNameAndTags fl e0) e1 := by
  unfold lineToEvents afterName
  simp only [hne, hcut, h]
  rfl

/-- what happens after the name: either no sample is counted, no event produced and at most one error; or
    the sample loop runs over at most `|e1| + 1` samples from an empty state -/
theorem afterName_shape (fl : ParserFlags) (pf : Pf V) (m : Bytes) (L : Labels) (E : Nat) (e1 : Bytes) :
    ((afterName fl pf (m, L, E) e1).events = [] ∧ (afterName fl pf (m, L, E) e1).samples = 0 ∧
      (afterName fl pf (m, L, E) e1).errs.length ≤ 1) ∨
    ∃ ss : List Bytes, afterName fl pf (m, L, E) e1 = ss.foldl (parseSample fl pf m) (startSt L E) ∧
      ss.length ≤ e1.length + 1 := by
  unfold afterName
  simp only []
  split
  · left; simp
  · rcases h3 : splitN3 cPipe e1 with _ | ⟨p0, _ | ⟨p1, tl⟩⟩
    · left; simp
    · left; simp
    · simp only []
      split
      · split
        · right
          refine ⟨_, rfl, ?_⟩
          have hp0 : p0.length ≤ e1.length := by
            cases hc : cut cPipe e1 with
            | none => simp [splitN3, hc] at h3
            | some ar =>
              obtain ⟨a, r⟩ := ar
              obtain ⟨p1', tl', h3', _⟩ := splitN3_of_cut hc
              rw [h3] at h3'
              have : p0 = a := by simpa using (List.cons.inj h3').1
              rw [this, (cut_some hc).1]
              simp
          have := splitOn_length_le cColon p0
          rw [List.length_map]
          omega
        · left; simp
      · split
        · right
          exact ⟨[e1], rfl, by simp⟩
        · right
          exact ⟨_, rfl, splitOn_length_le cColon e1⟩

/-- the same for the whole line: a line that counts samples has the form `name:rest` with a non-empty name,
    so the number of samples is smaller than the length of the line -/
theorem lineToEvents_shape (fl : ParserFlags) (pf : Pf V) (valid : Bool) (line : Bytes) :
    ((lineToEvents fl pf valid line).events = [] ∧ (lineToEvents fl pf valid line).samples = 0 ∧
      (lineToEvents fl pf valid line).errs.length ≤ 1 ∧
      (lineToEvents fl pf valid line).errs.length ≤ line.length) ∨
    ∃ (m : Bytes) (L : Labels) (E : Nat) (ss : List Bytes),
      lineToEvents fl pf valid line = ss.foldl (parseSample fl pf m) (startSt L E) ∧
      ss.length < line.length := by
  by_cases hne : line.isEmpty = true
  · left; simp [lineToEvents, hne]
  · have hne' : line.isEmpty = false := by simpa using hne
    have hlen : 1 ≤ line.length := by
      cases line with
      | nil => simp at hne
      | cons => simp
    cases hcut : cut cColon line with
    | none => left; simp [lineToEvents, hne', hcut, hlen]
    | some ab =>
      obtain ⟨e0, e1⟩ := ab
      by_cases h : (e0.isEmpty || !valid) = true
      · left; simp only [lineToEvents, hne', hcut, h]; simp [hlen]
      · have h' : (e0.isEmpty || !valid) = false := by simpa using h
        rw [lineToEvents_eq_afterName fl pf valid line e0 e1 hne' hcut h']
        obtain ⟨m, L, E⟩ := parseNameAndTags fl e0
        have he0 : 1 ≤ e0.length := by
          cases e0 with
          | nil => simp at h'
          | cons => simp
        have hl : line.length = e0.length + (e1.length + 1) := by
          rw [(cut_some hcut).1]; simp
        rcases afterName_shape fl pf m L E e1 with ⟨a, b, c⟩ | ⟨ss, hs, hn⟩
        · left; exact ⟨a, b, c, by omega⟩
        · right; exact ⟨m, L, E, ss, hs, by omega⟩

omit [NumOps V] in
theorem startSt_loopBound (M : Nat) (L : Labels) (E : Nat) : LoopBound M (startSt L E : ParseOut V) :=
  ⟨by simp [startSt], by simp [startSt]⟩

/-- **the number of samples of a line is smaller than its length** (at most `length - 2`, in fact at most the
    number of `:`-separated pieces after the name) -/
theorem samples_lt_length (fl : ParserFlags) (pf : Pf V) (valid : Bool) (line : Bytes) (hne : line ≠ []) :
    (lineToEvents fl pf valid line).samples < line.length := by
  rcases lineToEvents_shape fl pf valid line with ⟨_, b, _⟩ | ⟨m, L, E, ss, hs, hn⟩
  · rw [b]; cases line with
    | nil => exact absurd rfl hne
    | cons => simp
  · rw [hs, foldl_parseSample_samples]
    simpa [startSt] using hn

theorem samples_le_length (fl : ParserFlags) (pf : Pf V) (valid : Bool) (line : Bytes) :
    (lineToEvents fl pf valid line).samples ≤ line.length := by
  cases line with
  | nil => simp [lineToEvents]
  | cons b bs => exact Nat.le_of_lt (samples_lt_length fl pf valid (b :: bs) (by simp))

/-- **at most `M` events per sample**, where `M ≥ 1` bounds every repetition count `int(1/rate)` that the
    float parser `pf` can make a `|@rate` component set -/
theorem events_le_samples_mul (fl : ParserFlags) (pf : Pf V) (valid : Bool) (line : Bytes) (M : Nat) (hM1 : 1 ≤ M)
    (hM : ∀ b : Bytes, rateMult pf b ≤ M) :
    (lineToEvents fl pf valid line).events.length ≤ (lineToEvents fl pf valid line).samples * M := by
  rcases lineToEvents_shape fl pf valid line with ⟨a, _, _⟩ | ⟨m, L, E, ss, hs, _⟩
  · rw [a]; simp
  · rw [hs]
    exact (foldl_parseSample_loopBound fl pf m M hM1 hM ss _ (startSt_loopBound M L E)).events

/-- … and at most `M + 2` error increments per sample (one for a line without samples) -/
theorem errs_le_samples_mul (fl : ParserFlags) (pf : Pf V) (valid : Bool) (line : Bytes) (M : Nat) (hM1 : 1 ≤ M)
    (hM : ∀ b : Bytes, rateMult pf b ≤ M) :
    (lineToEvents fl pf valid line).errs.length ≤ max 1 ((lineToEvents fl pf valid line).samples * (M + 2)) := by
  rcases lineToEvents_shape fl pf valid line with ⟨_, _, c, _⟩ | ⟨m, L, E, ss, hs, _⟩
  · omega
  · rw [hs]
    have := (foldl_parseSample_loopBound fl pf m M hM1 hM ss _ (startSt_loopBound M L E)).errs
    omega

/-- **events per line ≤ length × largest repetition count** -/
theorem events_le_length_mul (fl : ParserFlags) (pf : Pf V) (valid : Bool) (line : Bytes) (M : Nat) (hM1 : 1 ≤ M)
    (hM : ∀ b : Bytes, rateMult pf b ≤ M) :
    (lineToEvents fl pf valid line).events.length ≤ line.length * M :=
  Nat.le_trans (events_le_samples_mul fl pf valid line M hM1 hM)
    (Nat.mul_le_mul_right M (samples_le_length fl pf valid line))

/-- the same for the error counters: `sampleErrors` increments per line ≤ length × (M + 2) -/
theorem errs_le_length_mul (fl : ParserFlags) (pf : Pf V) (valid : Bool) (line : Bytes) (M : Nat) (hM1 : 1 ≤ M)
    (hM : ∀ b : Bytes, rateMult pf b ≤ M) :
    (lineToEvents fl pf valid line).errs.length ≤ line.length * (M + 2) := by
  rcases lineToEvents_shape fl pf valid line with ⟨_, _, _, d⟩ | ⟨m, L, E, ss, hs, hn⟩
  · exact Nat.le_trans d (Nat.le_mul_of_pos_right _ (by omega))
  · rw [hs]
    have := (foldl_parseSample_loopBound fl pf m M hM1 hM ss _ (startSt_loopBound M L E)).errs
    rw [foldl_parseSample_samples] at this
    simp only [startSt, Nat.zero_add] at this
    exact Nat.le_trans this (Nat.mul_le_mul_right _ (Nat.le_of_lt hn))

end SE
