import SE.Proofs.LineLabels
/-
Unfolding lemmas for C10: on the multi-sample domain the whole line is a fold of `parseSample`
and every single-sample line is one `parseSample` from the same start state; the same for the
extended-aggregation domain (where alternatively all lines are rejected as mixed tagging).
-/
namespace SE
variable {V : Type} [NumOps V]

theorem MultiDom.no_dog_mem {e0 : Bytes} {ss : List Bytes} (d : MultiDom e0 ss)
    {s : Bytes} (hs : s ∈ ss) : containsSub [cPipe, cHash] s = false := by
  cases h : containsSub [cPipe, cHash] s with
  | false => rfl
  | true =>
    have := d.no_dog
    rw [containsSub_joinWith_mem hs h] at this
    exact absurd this (by simp)

/-- the whole line is the fold of `parseSample`, every single line is `afterName` -/
theorem multi_unfold (fl : ParserFlags) (pf : Pf V) (e0 : Bytes) (ss : List Bytes)
    (d : MultiDom e0 ss) :
    ∃ m L E, parseNameAndTags fl e0 = (m, L, E) ∧
      lineToEvents fl pf true (mkLine e0 (joinWith cColon ss)) =
        ss.foldl (parseSample fl pf m) (startSt L E) ∧
      (∀ s, lineToEvents fl pf true (mkLine e0 s) = afterName fl pf (m, L, E) s) ∧
      (∀ s ∈ ss, cPipe ∈ s →
        lineToEvents fl pf true (mkLine e0 s) = parseSample fl pf m (startSt L E) s) := by
  rcases hnt : parseNameAndTags fl e0 with ⟨m, L, E⟩
  obtain ⟨s1, rest, hss, hp⟩ := d.first_pipe
  have hs : ∀ s, lineToEvents fl pf true (mkLine e0 s) = afterName fl pf (m, L, E) s := by
    intro s
    simp only [mkLine]
    rw [lineToEvents_eq fl pf _ d.name_ne d.name_colon, hnt]
  refine ⟨m, L, E, rfl, ?_, hs, ?_⟩
  · rw [hs, hss]
    have dd := d
    rw [hss] at dd
    exact afterName_multi fl pf m L E s1 rest hp dd.no_colon dd.no_dog
  · intro s hmem hps
    rw [hs]
    exact afterName_single fl pf m L E s hps (d.no_colon s hmem) (d.no_dog_mem hmem)

theorem extAgg_type {T : Bytes} (h : isExtAggType T = true) :
    cPipe ∉ T ∧ cColon ∉ T := by
  simp only [isExtAggType, Bool.or_eq_true, beq_iff_eq] at h
  rcases h with (h | h) | h <;> subst h <;> decide

theorem extAgg_dog {T : Bytes} (h : isExtAggType T = true) (rest : Bytes) :
    containsSub [cPipe, cHash] (cPipe :: (T ++ rest)) = containsSub [cPipe, cHash] rest := by
  have hp := (extAgg_type h).1
  rw [containsSub_cons, containsSub_skip _ _ hp]
  simp only [isExtAggType, Bool.or_eq_true, beq_iff_eq] at h
  rcases h with (h | h) | h <;> subst h <;> simp [List.isPrefixOf] <;> intro h <;> exact absurd h (by decide)

/-- the whole extended-aggregation line and each rebuilt single line, unfolded: either all of
    them are rejected as mixed tagging, or the whole line is a fold over the rebuilt samples and
    every single line is one `parseSample` from the same start state -/
theorem ext_agg_unfold (fl : ParserFlags) (pf : Pf V) (e0 : Bytes) (vs : List Bytes) (T rest : Bytes)
    (d : ExtAggDom e0 vs T rest) :
    ∃ m L E, parseNameAndTags fl e0 = (m, L, E) ∧
      ((containsSub [cPipe, cHash] rest = true ∧ L ≠ [] ∧
        lineToEvents fl pf true (mkLine e0 (joinWith cColon vs ++ cPipe :: (T ++ rest))) =
          { errs := [.mixedTaggingStyles], tagErrs := E } ∧
        ∀ v ∈ vs, lineToEvents fl pf true (mkLine e0 (v ++ cPipe :: (T ++ rest))) =
          { errs := [.mixedTaggingStyles], tagErrs := E }) ∨
       ((containsSub [cPipe, cHash] rest = false ∨ L = []) ∧
        lineToEvents fl pf true (mkLine e0 (joinWith cColon vs ++ cPipe :: (T ++ rest))) =
          (vs.map fun v => v ++ cPipe :: (T ++ rest)).foldl (parseSample fl pf m) (startSt L E) ∧
        ∀ v ∈ vs, lineToEvents fl pf true (mkLine e0 (v ++ cPipe :: (T ++ rest))) =
          parseSample fl pf m (startSt L E) (v ++ cPipe :: (T ++ rest)))) := by
  rcases hnt : parseNameAndTags fl e0 with ⟨m, L, E⟩
  refine ⟨m, L, E, rfl, ?_⟩
  obtain ⟨hTp, hTc⟩ := extAgg_type d.type_ok
  obtain ⟨a, b, l, hvs⟩ := d.two
  have hs : ∀ s, lineToEvents fl pf true (mkLine e0 s) = afterName fl pf (m, L, E) s := by
    intro s
    simp only [mkLine]
    rw [lineToEvents_eq fl pf _ d.name_ne d.name_colon, hnt]
  have hJp : cPipe ∉ joinWith cColon vs := not_mem_joinWith (by decide) d.no_pipe
  have hJc : cColon ∈ joinWith cColon vs := by rw [hvs]; exact mem_joinWith_two _ _ _ _
  -- the DogStatsD marker can only sit in the shared tail
  have hdogJ : containsSub [cPipe, cHash] (joinWith cColon vs ++ cPipe :: (T ++ rest)) =
      containsSub [cPipe, cHash] rest := by
    rw [containsSub_skip _ _ hJp, extAgg_dog d.type_ok]
  have hdogv : ∀ v ∈ vs, containsSub [cPipe, cHash] (v ++ cPipe :: (T ++ rest)) =
      containsSub [cPipe, cHash] rest := by
    intro v hv
    rw [containsSub_skip _ _ (d.no_pipe v hv), extAgg_dog d.type_ok]
  have hsplit : splitOn cColon (joinWith cColon vs) = vs :=
    splitOn_joinWith (by rw [hvs]; simp) d.no_colon
  by_cases hmixed : containsSub [cPipe, cHash] rest = true ∧ L ≠ []
  · left
    refine ⟨hmixed.1, hmixed.2, ?_, ?_⟩
    · rw [hs]; exact afterName_mixed fl pf m L E _ (by rw [hdogJ]; exact hmixed.1) hmixed.2
    · intro v hv
      rw [hs]; exact afterName_mixed fl pf m L E _ (by rw [hdogv v hv]; exact hmixed.1) hmixed.2
  · right
    have hmix : containsSub [cPipe, cHash] rest = false ∨ L = [] := by
      cases hd : containsSub [cPipe, cHash] rest with
      | false => exact Or.inl rfl
      | true =>
        right
        cases L with
        | nil => rfl
        | cons x xs => exact absurd ⟨hd, by simp⟩ hmixed
    have hrc : containsSub [cPipe, cHash] rest = false → cColon ∉ rest := by
      intro hd
      rcases d.rest_colon with h | h
      · exact h
      · rw [hd] at h; exact absurd h (by simp)
    refine ⟨hmix, ?_, ?_⟩
    · rw [hs, afterName_extagg fl pf m L E hJp hTp d.rest_shape hJc d.type_ok
        (by rw [hdogJ]; exact hmix), hsplit]
    · intro v hv
      rw [hs]
      exact afterName_one fl pf m L E (d.no_pipe v hv) hTp d.rest_shape (d.no_colon v hv) hTc
        (by rw [hdogv v hv]; exact hmix) (by rw [hdogv v hv]; exact hrc)

theorem flatten_map_nil {α β : Type} (l : List α) (f : α → List β) (h : ∀ a ∈ l, f a = []) :
    (l.map f).flatten = [] := by
  induction l with
  | nil => rfl
  | cons a l ih => simp [h a (by simp), ih (fun x hx => h x (by simp [hx]))]

end SE
