import SE.Proofs.NameRune
/-
Helper lemmas for C11 (capture references expand as documented).
-/
namespace SE

/-! ### `regexp.Expand` vs `expandSpec` -/

/-- what a reference name must satisfy for `rxExpand m` to agree with `expandSpec` on it:
    a numeric name is not `0` (group 0 = the whole match is outside the specification), a
    non-numeric name is not the name of a participating group of `m` -/
def refGood (m : RxMatch) (name : Bytes) : Prop :=
  match rxNum name with
  | some n => n ≠ 0
  | none => m.find? (fun g => g.1 == name && g.2.isSome) = none

/-- the captures of a regex match as `expandSpec` numbers them: groups 1.., a group that did not
    participate counts as empty -/
def capsOf (m : RxMatch) : List Bytes := (m.drop 1).map (·.2.getD [])

theorem capsOf_getD (m : RxMatch) (n : Nat) (hn : n ≠ 0) :
    (capsOf m).getD (n - 1) [] = (match m[n]? with | some (_, some t) => t | _ => []) := by
  unfold capsOf
  rw [List.getD_eq_getElem?_getD, List.getElem?_map, List.getElem?_drop]
  have : 1 + (n - 1) = n := by omega
  rw [this]
  cases h : m[n]? with
  | none => simp
  | some g =>
    obtain ⟨nm, t⟩ := g
    cases t <;> simp

/-- `regexp.Expand` (with Go's rune-wise name scan) is the specification (ASCII names) on templates in
    which no reference name and no lone `$` is directly followed by a byte ≥ 0x80 (`refsAsciiFollowed`);
    without that hypothesis the statement is false: `$1é`, see
    `SE.Props.C11.unicode_letter_after_ref_counterexample`. -/
theorem rxExpand_eq_expandSpec (m : RxMatch) :
    ∀ (fuel : Nat) (t : Bytes), (∀ name ∈ refNames fuel t, refGood m name) →
      refsAsciiFollowed fuel t = true →
      rxExpand m fuel t = some (expandSpec (capsOf m) fuel t) := by
  intro fuel
  induction fuel with
  | zero => intro t _ _; cases t <;> rfl
  | succ fuel ih =>
    intro t h ha
    cases t with
    | nil => rfl
    | cons b rest =>
      by_cases hb : (b == cDollar) = true
      · cases rest with
        | nil => simp [rxExpand, expandSpec, hb]
        | cons c rest' =>
          by_cases hc : (c == cDollar) = true
          · have h' : ∀ name ∈ refNames fuel rest', refGood m name := by
              intro name hn; apply h; simp [refNames, hb, hc, hn]
            have ha' : refsAsciiFollowed fuel rest' = true := by
              simpa [refsAsciiFollowed, hb, hc] using ha
            simp [rxExpand, expandSpec, hb, hc, ih rest' h' ha']
          · have hc' : (c == cDollar) = false := by simpa using hc
            simp only [refsAsciiFollowed, hb, hc', if_true, Bool.false_eq_true, if_false,
              Bool.and_eq_true] at ha
            have hxu := rxExtractU_eq_rxExtract (c :: rest') ha.1
            cases hx : rxExtract (c :: rest') with
            | none =>
              have h' : ∀ name ∈ refNames fuel (c :: rest'), refGood m name := by
                intro name hn; apply h; simp [refNames, hb, hc, hx, hn]
              have ha' : refsAsciiFollowed fuel (c :: rest') = true := by
                have := ha.2; rw [hx] at this; exact this
              rw [hx] at hxu
              simp [rxExpand, expandSpec, hb, hc, hx, hxu, ih _ h' ha']
            | some nr =>
              obtain ⟨name, r⟩ := nr
              have h' : ∀ nm ∈ refNames fuel r, refGood m nm := by
                intro nm hn; apply h; simp [refNames, hb, hc, hx, hn]
              have ha' : refsAsciiFollowed fuel r = true := by
                have := ha.2; rw [hx] at this; exact this
              have hg : refGood m name := by apply h; simp [refNames, hb, hc, hx]
              rw [hx] at hxu
              simp only [rxExpand, expandSpec, hb, hc, hx, hxu, if_true, if_false, Bool.false_eq_true,
                ih r h' ha', Option.map_some]
              congr 2
              unfold refGood at hg
              cases hn : rxNum name with
              | some n =>
                rw [hn] at hg
                simp only at hg
                have : n ≥ 1 := by omega
                simp only [this, if_true]
                rw [capsOf_getD m n hg]
                cases m[n]? with
                | none => rfl
                | some g => obtain ⟨nm, t⟩ := g; cases t <;> rfl
              | none =>
                rw [hn] at hg
                simp only at hg
                simp [hg]
      · have hb' : (b == cDollar) = false := by simpa using hb
        have h' : ∀ name ∈ refNames fuel rest, refGood m name := by
          intro name hn; apply h; simp [refNames, hb', hn]
        have ha' : refsAsciiFollowed fuel rest = true := by
          simpa [refsAsciiFollowed, hb'] using ha
        simp [rxExpand, expandSpec, hb', ih rest h' ha']

/-- a template without `$` is copied by `regexp.Expand` (whatever other bytes it contains) -/
theorem rxExpand_no_dollar (m : RxMatch) : ∀ (fuel : Nat) (t : Bytes), cDollar ∉ t → rxExpand m fuel t = some t := by
  intro fuel
  induction fuel with
  | zero => intro t _; cases t <;> rfl
  | succ fuel ih =>
    intro t h
    cases t with
    | nil => rfl
    | cons b rest =>
      simp only [List.mem_cons, not_or] at h
      have hb : (b == cDollar) = false := by
        cases hbb : (b == cDollar) with
        | false => rfl
        | true => exfalso; apply h.1; simp at hbb; exact hbb.symm
      simp [rxExpand, hb, ih rest h.2]

/-- a template without `$` trivially satisfies the regex-side guard -/
theorem refsAsciiFollowed_no_dollar : ∀ (fuel : Nat) (t : Bytes), cDollar ∉ t → refsAsciiFollowed fuel t = true := by
  intro fuel
  induction fuel with
  | zero => intro t _; cases t <;> rfl
  | succ fuel ih =>
    intro t h
    cases t with
    | nil => rfl
    | cons b rest =>
      simp only [List.mem_cons, not_or] at h
      have hb : (b == cDollar) = false := by
        cases hbb : (b == cDollar) with
        | false => rfl
        | true => exfalso; apply h.1; simp at hbb; exact hbb.symm
      simp [refsAsciiFollowed, hb, ih rest h.2]

/-- the names `rxExtract` returns are non-empty -/
theorem rxExtract_name_ne_nil (s name r : Bytes) (h : rxExtract s = some (name, r)) : name ≠ [] := by
  unfold rxExtract at h
  intro hn
  split at h
  rename_i brace s1 _
  simp only at h
  split at h
  · cases h
  · rename_i hne
    split at h
    · split at h
      · split at h
        · simp at h; rw [h.1] at hne; simp [hn] at hne
        · cases h
      · cases h
    · simp at h; rw [h.1] at hne; simp [hn] at hne

theorem mem_refNames_ne_nil : ∀ (fuel : Nat) (t name : Bytes), name ∈ refNames fuel t → name ≠ [] := by
  intro fuel
  induction fuel with
  | zero => intro t name h; cases t <;> simp [refNames] at h
  | succ fuel ih =>
    intro t name h
    cases t with
    | nil => simp [refNames] at h
    | cons b rest =>
      simp only [refNames] at h
      split at h
      · split at h
        · split at h
          · exact ih _ _ h
          · split at h
            · exact ih _ _ h
            · rename_i nm r hx
              simp only [List.mem_cons] at h
              rcases h with rfl | h
              · exact rxExtract_name_ne_nil _ _ _ hx
              · exact ih _ _ h
        · simp at h
      · exact ih _ _ h

/-! ### templates without references -/

theorem isRefByte_eq : isRefByte = isWordByte := rfl

/-- where the formatter's regex finds no reference, `regexp.Expand`'s `extract` finds none either
    (since the repair both use the same name class `[a-zA-Z0-9_]`; the next byte may well be `$`) -/
theorem refMatchAt_none (rest : Bytes) (h : refMatchAt rest = none) : rxExtract rest = none := by
  unfold refMatchAt at h
  rw [isRefByte_eq] at h
  cases rest with
  | nil => simp [rxExtract]
  | cons b r =>
    by_cases hb : (b == cLBrace) = true
    · simp only [hb, if_true] at h
      have hg : (r.takeWhile isWordByte).isEmpty = true := by
        cases hgg : (r.takeWhile isWordByte).isEmpty with
        | true => rfl
        | false =>
          rw [hgg] at h; simp only [Bool.false_eq_true, if_false] at h
          split at h
          · split at h <;> cases h
          · cases h
      have hg' : r.takeWhile isWordByte = [] := by simpa using hg
      simp [rxExtract, hb, hg']
    · have hb' : (b == cLBrace) = false := by simpa using hb
      simp only [hb', Bool.false_eq_true, if_false] at h
      have hg : ((b :: r).takeWhile isWordByte).isEmpty = true := by
        cases hgg : ((b :: r).takeWhile isWordByte).isEmpty with
        | true => rfl
        | false =>
          rw [hgg] at h; simp only [Bool.false_eq_true, if_false] at h
          split at h
          · split at h <;> cases h
          · cases h
      have hg' : (b :: r).takeWhile isWordByte = [] := by simpa using hg
      simp [rxExtract, hb', hg']

theorem hasDollarDollar_cons (a : UInt8) (t : Bytes) (h : hasDollarDollar (a :: t) = false) :
    hasDollarDollar t = false := by
  cases t with
  | nil => rfl
  | cons b r => simp only [hasDollarDollar, Bool.or_eq_false_iff] at h; exact h.2

/-- Where the formatter's regex finds no reference the documented syntax copies the template —
    provided it contains no `$$`: that is an escape for `$` in the documented syntax, while the
    (repaired) formatter's regex finds no reference in it and copies both bytes. (Before the repair
    `$$` was a reference named `$`, so `findRefs … = []` excluded it.) -/
theorem findRefs_nil_expandSpec (caps : List Bytes) :
    ∀ (fuel : Nat) (t : Bytes), findRefs fuel t = [] → hasDollarDollar t = false →
      expandSpec caps fuel t = t := by
  intro fuel
  induction fuel with
  | zero => intro t _ _; cases t <;> rfl
  | succ fuel ih =>
    intro t h hdd
    cases t with
    | nil => rfl
    | cons b rest =>
      have hdd' := hasDollarDollar_cons b rest hdd
      by_cases hb : (b == cDollar) = true
      · simp only [findRefs, hb, if_true] at h
        cases hm : refMatchAt rest with
        | some x => obtain ⟨a, g, r⟩ := x; rw [hm] at h; cases h
        | none =>
          rw [hm] at h
          simp only at h
          have hx := refMatchAt_none rest hm
          have hbb : b = cDollar := by simpa using hb
          cases rest with
          | nil => simp [expandSpec, hbb]
          | cons c rest' =>
            have hc : (c == cDollar) = false := by
              simp only [hasDollarDollar, hb, Bool.true_and, Bool.or_eq_false_iff] at hdd
              exact hdd.1
            simp [expandSpec, hc, hx, ih _ h hdd', hbb]
      · have hb' : (b == cDollar) = false := by simpa using hb
        simp only [findRefs, hb', Bool.false_eq_true, if_false] at h
        simp [expandSpec, hb', ih rest h hdd']

theorem compile_no_refs (tmpl : Bytes) (n : Nat) (caps : List Bytes) (h : findRefs tmpl.length tmpl = []) :
    (compileTemplate tmpl n).format caps = some tmpl := by
  simp [compileTemplate, h, Formatter.format]

/-- a template without `$` has no references -/
theorem findRefs_no_dollar : ∀ (fuel : Nat) (t : Bytes), cDollar ∉ t → findRefs fuel t = [] := by
  intro fuel
  induction fuel with
  | zero => intro t _; cases t <;> rfl
  | succ fuel ih =>
    intro t h
    cases t with
    | nil => rfl
    | cons b rest =>
      simp only [List.mem_cons, not_or] at h
      have hb : (b == cDollar) = false := by
        cases hbb : (b == cDollar) with
        | false => rfl
        | true => exfalso; apply h.1; simp at hbb; exact hbb.symm
      simp [findRefs, hb, ih rest h.2]

/-- a template without `$` has no `$$` -/
theorem hasDollarDollar_no_dollar : ∀ (t : Bytes), cDollar ∉ t → hasDollarDollar t = false := by
  intro t
  induction t with
  | nil => intro _; rfl
  | cons a t ih =>
    intro h
    simp only [List.mem_cons, not_or] at h
    cases t with
    | nil => rfl
    | cons b r =>
      have hb : (a == cDollar) = false := by
        cases hbb : (a == cDollar) with
        | false => rfl
        | true => exfalso; apply h.1; simp at hbb; exact hbb.symm
      simp only [hasDollarDollar, hb, Bool.false_and, Bool.false_or]
      exact ih h.2

end SE
