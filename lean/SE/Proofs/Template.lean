import SE.Proofs.NameRune
/-
Helper lemmas for C11 (capture references expand as documented), regex side: `regexp.Expand`
(`rxExpand`) against the specification `expandSpec`. Both scan the template with the same rune-aware
`extract` (`rxExtractU`); they differ only in what a reference stands for — `rxExpand` knows group 0 and
named groups, the specification does not.
-/
namespace SE

/-! ### `regexp.Expand` vs `expandSpec` -/

/-- what a reference name must satisfy for `rxExpand m` to agree with `expandSpec` on it:
    a numeric name is not `0` (group 0 = the whole match is outside the specification), a
    non-numeric name is not the name of a participating group of `m` -/
def refGood (m : RxMatch) (name : Bytes) : Prop :=
  match rxNum name with
  | some n => n ≠ 0
  | none => m.find? (fun g => g.1 == name && g.2.isSome) = none

/-- the captures of a regex match as `expandSpec` numbers them: groups 1.., a group that did not
    participate counts as empty -/
def capsOf (m : RxMatch) : List Bytes := (m.drop 1).map (·.2.getD [])

theorem capsOf_length (m : RxMatch) : (capsOf m).length = m.length - 1 := by
  simp [capsOf]

theorem capsOf_getD (m : RxMatch) (n : Nat) (hn : n ≠ 0) :
    (capsOf m).getD (n - 1) [] = (match m[n]? with | some (_, some t) => t | _ => []) := by
  unfold capsOf
  rw [List.getD_eq_getElem?_getD, List.getElem?_map, List.getElem?_drop]
  have : 1 + (n - 1) = n := by omega
  rw [this]
  cases h : m[n]? with
  | none => simp
  | some g =>
    obtain ⟨nm, t⟩ := g
    cases t <;> simp

/-- `regexp.Expand` is the specification on every template whose reference names are good for `m`
    (equality of `Option`s: both sides are `none` exactly when the scan meets a name with a rune outside
    the modelled fragment). -/
theorem rxExpand_eq_expandSpec (m : RxMatch) :
    ∀ (fuel : Nat) (t : Bytes), (∀ name ∈ refNames fuel t, refGood m name) →
      rxExpand m fuel t = expandSpec (capsOf m) fuel t := by
  intro fuel
  induction fuel with
  | zero => intro t _; cases t <;> rfl
  | succ fuel ih =>
    intro t h
    cases t with
    | nil => rfl
    | cons b rest =>
      by_cases hb : (b == cDollar) = true
      · cases rest with
        | nil => simp [rxExpand, expandSpec, hb]
        | cons c rest' =>
          by_cases hc : (c == cDollar) = true
          · have h' : ∀ name ∈ refNames fuel rest', refGood m name := by
              intro name hn; apply h; simp [refNames, hb, hc, hn]
            simp [rxExpand, expandSpec, hb, hc, ih rest' h']
          · have hc' : (c == cDollar) = false := by simpa using hc
            cases hx : rxExtractU (c :: rest') with
            | none => simp [rxExpand, expandSpec, hb, hc, hx]
            | some o =>
              cases o with
              | none =>
                have h' : ∀ name ∈ refNames fuel (c :: rest'), refGood m name := by
                  intro name hn; apply h; simp [refNames, hb, hc, hx, hn]
                simp [rxExpand, expandSpec, hb, hc, hx, ih _ h']
              | some nr =>
                obtain ⟨name, r⟩ := nr
                have h' : ∀ nm ∈ refNames fuel r, refGood m nm := by
                  intro nm hn; apply h; simp [refNames, hb, hc, hx, hn]
                have hg : refGood m name := by apply h; simp [refNames, hb, hc, hx]
                simp only [rxExpand, expandSpec, hb, hc, hx, if_true, if_false, Bool.false_eq_true, ih r h']
                congr 2
                unfold refGood at hg
                cases hn : rxNum name with
                | some n =>
                  rw [hn] at hg
                  simp only at hg
                  have : n ≥ 1 := by omega
                  simp only [this, if_true]
                  rw [capsOf_getD m n hg]
                  cases m[n]? with
                  | none => rfl
                  | some g => obtain ⟨nm, t⟩ := g; cases t <;> rfl
                | none =>
                  rw [hn] at hg
                  simp only at hg
                  simp [hg]
      · have hb' : (b == cDollar) = false := by simpa using hb
        have h' : ∀ name ∈ refNames fuel rest, refGood m name := by
          intro name hn; apply h; simp [refNames, hb', hn]
        simp [rxExpand, expandSpec, hb', ih rest h']

/-- the names the scan meets are non-empty -/
theorem mem_refNames_ne_nil : ∀ (fuel : Nat) (t name : Bytes), name ∈ refNames fuel t → name ≠ [] := by
  intro fuel
  induction fuel with
  | zero => intro t name h; cases t <;> simp [refNames] at h
  | succ fuel ih =>
    intro t name h
    cases t with
    | nil => simp [refNames] at h
    | cons b rest =>
      simp only [refNames] at h
      split at h
      · split at h
        · split at h
          · exact ih _ _ h
          · split at h
            · simp at h
            · exact ih _ _ h
            · rename_i nm r hx
              simp only [List.mem_cons] at h
              rcases h with rfl | h
              · exact (rxExtractU_some _ _ _ hx).1
              · exact ih _ _ h
        · simp at h
      · exact ih _ _ h

/-- all groups unnamed, no `$0` in the template: every reference name is good -/
theorem refGood_of_unnamed (m : RxMatch) (fuel : Nat) (t : Bytes) (hun : ∀ g ∈ m, g.1 = [])
    (h0 : ∀ name ∈ refNames fuel t, rxNum name ≠ some 0) :
    ∀ name ∈ refNames fuel t, refGood m name := by
  intro name hn
  unfold refGood
  cases hk : rxNum name with
  | some k => simp only; intro e; exact h0 name hn (by rw [hk, e])
  | none =>
    simp only
    rw [List.find?_eq_none]
    intro g hg hp
    simp only [Bool.and_eq_true, beq_iff_eq] at hp
    have := mem_refNames_ne_nil _ _ _ hn
    rw [← hp.1, hun g hg] at this
    exact this rfl

/-! ### templates without `$` -/

theorem beq_dollar_false_of_not_mem (b : UInt8) (rest : Bytes) (h : cDollar ∉ b :: rest) :
    (b == cDollar) = false ∧ cDollar ∉ rest := by
  simp only [List.mem_cons, not_or] at h
  refine ⟨?_, h.2⟩
  cases hbb : (b == cDollar) with
  | false => rfl
  | true => exfalso; apply h.1; simp at hbb; exact hbb.symm

/-- a template without `$` is copied by `regexp.Expand` (whatever other bytes it contains) -/
theorem rxExpand_no_dollar (m : RxMatch) : ∀ (fuel : Nat) (t : Bytes), cDollar ∉ t → rxExpand m fuel t = some t := by
  intro fuel
  induction fuel with
  | zero => intro t _; cases t <;> rfl
  | succ fuel ih =>
    intro t h
    cases t with
    | nil => rfl
    | cons b rest =>
      obtain ⟨hb, h2⟩ := beq_dollar_false_of_not_mem b rest h
      simp [rxExpand, hb, ih rest h2]

/-- … and by the documented syntax -/
theorem expandSpec_no_dollar (caps : List Bytes) :
    ∀ (fuel : Nat) (t : Bytes), cDollar ∉ t → expandSpec caps fuel t = some t := by
  intro fuel
  induction fuel with
  | zero => intro t _; cases t <;> rfl
  | succ fuel ih =>
    intro t h
    cases t with
    | nil => rfl
    | cons b rest =>
      obtain ⟨hb, h2⟩ := beq_dollar_false_of_not_mem b rest h
      simp [expandSpec, hb, ih rest h2]

/-- … and mentions no reference -/
theorem refNames_no_dollar : ∀ (fuel : Nat) (t : Bytes), cDollar ∉ t → refNames fuel t = [] := by
  intro fuel
  induction fuel with
  | zero => intro t _; cases t <;> rfl
  | succ fuel ih =>
    intro t h
    cases t with
    | nil => rfl
    | cons b rest =>
      obtain ⟨hb, h2⟩ := beq_dollar_false_of_not_mem b rest h
      simp [refNames, hb, ih rest h2]

end SE
