import SE.Model.Line
import SE.Spec.Line
import SE.Proofs.Bytes
/-
General lemmas about the line-parser model (SE/Model/Line.lean): the body of `lineToEvents`
after the first-colon cut (`afterName`), the frame property of `parseSample` (it appends to
events/errs and its contribution does not depend on the incoming label map), and folds.
-/
namespace SE
variable {V : Type} [NumOps V]


def afterName (fl : ParserFlags) (pf : Pf V) (nt : Bytes × Labels × Nat) (e1 : Bytes) : ParseOut V :=
  let (metric, labels, tagErrs) := nt
  let usingDog := containsSub [cPipe, cHash] e1
  if usingDog && !labels.isEmpty then { errs := [.mixedTaggingStyles], tagErrs := tagErrs } else
  let lineParts := splitN3 cPipe e1
  match lineParts with
  | p0 :: p1 :: _ =>
    let start : ParseOut V := { labels := labels, tagErrs := tagErrs }
    if containsByte cColon p0 then
      if isExtAggType p1 then
        let suffix := match cut cPipe e1 with | some (_, r) => r | none => []
        let samples := (splitOn cColon p0).map fun v => v ++ cPipe :: suffix
        samples.foldl (parseSample fl pf metric) start
      else { errs := [.invalidExtAggType], tagErrs := tagErrs }
    else if usingDog then parseSample fl pf metric start e1
    else (splitOn cColon e1).foldl (parseSample fl pf metric) start
  | _ => { errs := [.notEnoughParts], tagErrs := tagErrs }

theorem lineToEvents_eq (fl : ParserFlags) (pf : Pf V) {e0 : Bytes} (e1 : Bytes)
    (h0 : e0 ≠ []) (hc : cColon ∉ e0) :
    lineToEvents fl pf true (e0 ++ cColon :: e1) = afterName fl pf (parseNameAndTags fl e0) e1 := by
  unfold lineToEvents afterName
  have h1 : (e0 ++ cColon :: e1).isEmpty = false := by cases e0 <;> simp
  have h2 : e0.isEmpty = false := by cases e0 <;> simp at h0 ⊢
  simp only [h1, cut_append e1 hc, h2]
  rfl

theorem parseSample_frame (fl : ParserFlags) (pf : Pf V) (m : Bytes) (o : ParseOut V) (s : Bytes) :
    parseSample fl pf m o s =
      let r := parseSample fl pf m { labels := o.labels } s
      { events := o.events ++ r.events, labels := r.labels, errs := o.errs ++ r.errs,
        samples := o.samples + 1, tagErrs := o.tagErrs + r.tagErrs, tagsRecv := o.tagsRecv + r.tagsRecv } := by
  unfold parseSample
  simp only []
  split
  · split
    · simp
    · split
      · simp
      · split
        · simp
        · split
          · split <;> simp
          · split <;> simp
  · simp


theorem parseTag_snd_indep (tag : Bytes) (sep : UInt8) (L L' : Labels) :
    (parseTag tag sep L).2 = (parseTag tag sep L').2 := by
  unfold parseTag
  split
  · rfl
  · split
    · rfl
    · split <;> rfl

theorem parseTagPieces_snd_indep (trim : Bytes → Bytes) (sep : UInt8) (ps : List Bytes) :
    ∀ (L L' : Labels) (e : Nat),
    (parseTagPieces trim sep ps L e).2 = (parseTagPieces trim sep ps L' e).2 := by
  induction ps with
  | nil => intro L L' e; rfl
  | cons p rest ih =>
    intro L L' e
    cases rest with
    | nil =>
      simp only [parseTagPieces]
      split
      · rfl
      · simp only []
        rw [parseTag_snd_indep _ _ L L']
    | cons q qs =>
      simp only [parseTagPieces]
      rw [parseTag_snd_indep _ _ L L']
      exact ih _ _ _

theorem parseDogStatsDTags_snd_indep (fl : ParserFlags) (c : Bytes) (L L' : Labels) :
    (parseDogStatsDTags fl c L).2 = (parseDogStatsDTags fl c L').2 := by
  unfold parseDogStatsDTags
  split
  · exact parseTagPieces_snd_indep _ _ _ _ _ _
  · rfl

structure CoreEq (s s' : CompSt V) : Prop where
  value : s.value = s'.value
  mult : s.mult = s'.mult
  errs : s.errs = s'.errs
  tagErrs : s.tagErrs = s'.tagErrs

theorem stepComponent_core (fl : ParserFlags) (pf : Pf V) (st : StatType) (s s' : CompSt V) (c : Bytes)
    (h : CoreEq s s') : CoreEq (stepComponent fl pf st s c) (stepComponent fl pf st s' c) := by
  obtain ⟨h1, h2, h3, h4⟩ := h
  cases c with
  | nil => exact ⟨h1, h2, h3, h4⟩
  | cons b rest =>
    by_cases hb : (b == cAt) = true
    · by_cases he : ((pf rest).2 != PfErr.ok) = true <;>
        cases st <;> constructor <;> simp [stepComponent, hb, he, h1, h2, h3, h4]
    · by_cases hh : (b == cHash) = true
      · have := parseDogStatsDTags_snd_indep fl rest s.labels s'.labels
        constructor <;> simp [stepComponent, hb, hh, h1, h2, h3, h4, this]
      · constructor <;> simp [stepComponent, hb, hh, h1, h2, h3, h4]

theorem foldl_stepComponent_core (fl : ParserFlags) (pf : Pf V) (st : StatType) (cs : List Bytes) :
    ∀ (s s' : CompSt V), CoreEq s s' →
      CoreEq (cs.foldl (stepComponent fl pf st) s) (cs.foldl (stepComponent fl pf st) s') := by
  induction cs with
  | nil => intro s s' h; exact h
  | cons c cs ih => intro s s' h; exact ih _ _ (stepComponent_core fl pf st s s' c h)



/-- equality of the label-independent part of two parser outputs -/
structure OutEq (o o' : ParseOut V) : Prop where
  events : o.events = o'.events
  errs : o.errs = o'.errs
  samples : o.samples = o'.samples
  tagErrs : o.tagErrs = o'.tagErrs

theorem parseSample_outEq (fl : ParserFlags) (pf : Pf V) (m : Bytes) (o o' : ParseOut V) (s : Bytes)
    (h : OutEq o o') : OutEq (parseSample fl pf m o s) (parseSample fl pf m o' s) := by
  obtain ⟨h1, h2, h3, h4⟩ := h
  rcases hsp : splitOn cPipe s with _ | ⟨v, _ | ⟨stB, extra⟩⟩
  · constructor <;> simp [parseSample, hsp, h1, h2, h3, h4]
  · constructor <;> simp [parseSample, hsp, h1, h2, h3, h4]
  · by_cases hl : extra.length > 2
    · constructor <;> simp [parseSample, hsp, hl, h1, h2, h3, h4]
    · by_cases hv : ((pf v).2 != PfErr.ok) = true
      · constructor <;> simp [parseSample, hsp, hl, hv, h1, h2, h3, h4]
      · by_cases he : extra.any (·.isEmpty) = true
        · constructor <;> simp [parseSample, hsp, hl, hv, he, h1, h2, h3, h4]
        · obtain ⟨c1, c2, c3, c4⟩ := foldl_stepComponent_core fl pf (statTypeOf stB) extra
            ⟨(pf v).1, 1, o.labels, [], 0⟩ ⟨(pf v).1, 1, o'.labels, [], 0⟩ ⟨rfl, rfl, rfl, rfl⟩
          simp only [parseSample, hsp, hl, hv, he]
          simp only [if_false, Bool.false_eq_true]
          rw [c1, c2, c3, c4, h1, h2, h3, h4]
          split <;> constructor <;> (repeat' split) <;> rfl


/-- contribution of one sample, measured from the empty state -/
def sOut (fl : ParserFlags) (pf : Pf V) (m : Bytes) (s : Bytes) : ParseOut V :=
  parseSample fl pf m {} s

theorem parseSample_events (fl : ParserFlags) (pf : Pf V) (m : Bytes) (o : ParseOut V) (s : Bytes) :
    (parseSample fl pf m o s).events = o.events ++ (sOut fl pf m s).events := by
  rw [parseSample_frame]
  simp only [sOut]
  rw [(parseSample_outEq fl pf m { labels := o.labels } {} s ⟨rfl, rfl, rfl, rfl⟩).events]

theorem parseSample_errs (fl : ParserFlags) (pf : Pf V) (m : Bytes) (o : ParseOut V) (s : Bytes) :
    (parseSample fl pf m o s).errs = o.errs ++ (sOut fl pf m s).errs := by
  rw [parseSample_frame]
  simp only [sOut]
  rw [(parseSample_outEq fl pf m { labels := o.labels } {} s ⟨rfl, rfl, rfl, rfl⟩).errs]

theorem parseSample_tagErrs (fl : ParserFlags) (pf : Pf V) (m : Bytes) (o : ParseOut V) (s : Bytes) :
    (parseSample fl pf m o s).tagErrs = o.tagErrs + (sOut fl pf m s).tagErrs := by
  rw [parseSample_frame]
  simp only [sOut]
  rw [(parseSample_outEq fl pf m { labels := o.labels } {} s ⟨rfl, rfl, rfl, rfl⟩).tagErrs]

theorem parseSample_samples (fl : ParserFlags) (pf : Pf V) (m : Bytes) (o : ParseOut V) (s : Bytes) :
    (parseSample fl pf m o s).samples = o.samples + 1 := by
  rw [parseSample_frame]

theorem foldl_parseSample_events (fl : ParserFlags) (pf : Pf V) (m : Bytes) (ss : List Bytes) :
    ∀ o : ParseOut V, (ss.foldl (parseSample fl pf m) o).events =
      o.events ++ (ss.map fun s => (sOut fl pf m s).events).flatten := by
  induction ss with
  | nil => intro o; simp
  | cons s ss ih =>
    intro o
    rw [List.foldl_cons, ih, parseSample_events]
    simp [List.append_assoc]

theorem foldl_parseSample_errs (fl : ParserFlags) (pf : Pf V) (m : Bytes) (ss : List Bytes) :
    ∀ o : ParseOut V, (ss.foldl (parseSample fl pf m) o).errs =
      o.errs ++ (ss.map fun s => (sOut fl pf m s).errs).flatten := by
  induction ss with
  | nil => intro o; simp
  | cons s ss ih =>
    intro o
    rw [List.foldl_cons, ih, parseSample_errs]
    simp [List.append_assoc]

theorem foldl_parseSample_tagErrs (fl : ParserFlags) (pf : Pf V) (m : Bytes) (ss : List Bytes) :
    ∀ o : ParseOut V, (ss.foldl (parseSample fl pf m) o).tagErrs =
      o.tagErrs + (ss.map fun s => (sOut fl pf m s).tagErrs).sum := by
  induction ss with
  | nil => intro o; simp
  | cons s ss ih =>
    intro o
    rw [List.foldl_cons, ih, parseSample_tagErrs]
    simp [Nat.add_assoc]

theorem foldl_parseSample_samples (fl : ParserFlags) (pf : Pf V) (m : Bytes) (ss : List Bytes) :
    ∀ o : ParseOut V, (ss.foldl (parseSample fl pf m) o).samples = o.samples + ss.length := by
  induction ss with
  | nil => intro o; simp
  | cons s ss ih =>
    intro o
    rw [List.foldl_cons, ih, parseSample_samples]
    simp only [List.length_cons]; omega

/-! ### components that cannot touch the label map -/

/-- a `|`-component is inert if DogStatsD parsing is off or it does not start with `#` -/
def Inert (fl : ParserFlags) (c : Bytes) : Prop := fl.dogstatsd = false ∨ ∀ q, c ≠ cHash :: q

theorem stepComponent_inert (fl : ParserFlags) (pf : Pf V) (st : StatType) (s : CompSt V) (c : Bytes)
    (h : Inert fl c) :
    (stepComponent fl pf st s c).labels = s.labels ∧ (stepComponent fl pf st s c).tagErrs = s.tagErrs := by
  cases c with
  | nil => exact ⟨rfl, rfl⟩
  | cons b rest =>
    by_cases hb : (b == cAt) = true
    · by_cases he : ((pf rest).2 != PfErr.ok) = true <;>
        cases st <;> constructor <;> simp [stepComponent, hb, he]
    · by_cases hh : (b == cHash) = true
      · rcases h with h | h
        · constructor <;> simp [stepComponent, hb, hh, parseDogStatsDTags, h]
        · exact absurd (by rw [beq_iff_eq.mp hh]) (h rest)
      · constructor <;> simp [stepComponent, hb, hh]

theorem foldl_stepComponent_inert (fl : ParserFlags) (pf : Pf V) (st : StatType) (cs : List Bytes) :
    ∀ (s : CompSt V), (∀ c ∈ cs, Inert fl c) →
      (cs.foldl (stepComponent fl pf st) s).labels = s.labels ∧
      (cs.foldl (stepComponent fl pf st) s).tagErrs = s.tagErrs := by
  induction cs with
  | nil => intro s _; exact ⟨rfl, rfl⟩
  | cons c cs ih =>
    intro s h
    obtain ⟨a, b⟩ := stepComponent_inert fl pf st s c (h c (by simp))
    obtain ⟨a', b'⟩ := ih (stepComponent fl pf st s c) (fun x hx => h x (by simp [hx]))
    exact ⟨by rw [List.foldl_cons, a', a], by rw [List.foldl_cons, b', b]⟩

theorem parseSample_inert (fl : ParserFlags) (pf : Pf V) (m : Bytes) (o : ParseOut V) (s : Bytes)
    (h : ∀ c ∈ (splitOn cPipe s).drop 2, Inert fl c) :
    (parseSample fl pf m o s).labels = o.labels ∧ (parseSample fl pf m o s).tagErrs = o.tagErrs := by
  rcases hsp : splitOn cPipe s with _ | ⟨v, _ | ⟨stB, extra⟩⟩
  · constructor <;> simp [parseSample, hsp]
  · constructor <;> simp [parseSample, hsp]
  · by_cases hl : extra.length > 2
    · constructor <;> simp [parseSample, hsp, hl]
    · by_cases hv : ((pf v).2 != PfErr.ok) = true
      · constructor <;> simp [parseSample, hsp, hl, hv]
      · by_cases he : extra.any (·.isEmpty) = true
        · constructor <;> simp [parseSample, hsp, hl, hv, he]
        · rw [hsp] at h
          obtain ⟨c1, c2⟩ := foldl_stepComponent_inert fl pf (statTypeOf stB) extra
            ⟨(pf v).1, 1, o.labels, [], 0⟩ (by simpa using h)
          simp only [parseSample, hsp, hl, hv, he]
          simp only [if_false, Bool.false_eq_true]
          rw [c1, c2]
          split <;> constructor <;> (repeat' split) <;> simp

/-- without the two-byte pattern `|#` no component starts with `#` -/
theorem inert_of_no_dog (fl : ParserFlags) {s : Bytes} (h : containsSub [cPipe, cHash] s = false) :
    ∀ c ∈ (splitOn cPipe s).drop 2, Inert fl c := by
  intro c hc
  right
  intro q e
  subst e
  obtain ⟨p, ps, hp⟩ := splitOn_exists cPipe s
  rw [hp] at hc
  have : (cHash :: q) ∈ ps := by
    cases ps with
    | nil => simp at hc
    | cons x xs => simp at hc; simp [hc]
  rw [containsSub_of_piece hp this] at h
  exact absurd h (by simp)

theorem foldl_parseSample_inert (fl : ParserFlags) (pf : Pf V) (m : Bytes) (ss : List Bytes)
    (h : ∀ s ∈ ss, ∀ c ∈ (splitOn cPipe s).drop 2, Inert fl c) :
    ∀ o : ParseOut V, (ss.foldl (parseSample fl pf m) o).labels = o.labels ∧
      (ss.foldl (parseSample fl pf m) o).tagErrs = o.tagErrs := by
  induction ss with
  | nil => intro o; exact ⟨rfl, rfl⟩
  | cons s ss ih =>
    intro o
    obtain ⟨a, b⟩ := parseSample_inert fl pf m o s (h s (by simp))
    obtain ⟨a', b'⟩ := ih (fun x hx => h x (by simp [hx])) (parseSample fl pf m o s)
    exact ⟨by rw [List.foldl_cons, a', a], by rw [List.foldl_cons, b', b]⟩


theorem containsSub_joinWith_mem {x c : UInt8} {ys : Bytes} {ss : List Bytes} {s : Bytes}
    (hs : s ∈ ss) (h : containsSub (x :: ys) s = true) :
    containsSub (x :: ys) (joinWith c ss) = true := by
  induction ss with
  | nil => simp at hs
  | cons p rest ih =>
    cases rest with
    | nil => simp at hs; subst hs; exact h
    | cons q qs =>
      rw [joinWith_cons_cons]
      rcases List.mem_cons.mp hs with e | hs'
      · subst e; exact containsSub_of_prefix _ h
      · have := ih hs'
        have e : p ++ c :: joinWith c (q :: qs) = (p ++ [c]) ++ joinWith c (q :: qs) := by simp
        rw [e]; exact containsSub_of_suffix _ this

theorem containsSub_of_not_mem {x : UInt8} (ys : Bytes) {s : Bytes} (h : x ∉ s) :
    containsSub (x :: ys) s = false := by
  have := containsSub_skip ys [] h
  simpa [containsSub] using this

/-- the start state of the sample loop -/
def startSt (L : Labels) (E : Nat) : ParseOut V := { labels := L, tagErrs := E }

/-- a multi-sample line is a fold of `parseSample` over its `:`-separated parts -/
theorem afterName_multi (fl : ParserFlags) (pf : Pf V) (m : Bytes) (L : Labels) (E : Nat)
    (s1 : Bytes) (rest : List Bytes) (hp : cPipe ∈ s1) (hc : ∀ s ∈ s1 :: rest, cColon ∉ s)
    (hd : containsSub [cPipe, cHash] (joinWith cColon (s1 :: rest)) = false) :
    afterName fl pf (m, L, E) (joinWith cColon (s1 :: rest)) =
      (s1 :: rest).foldl (parseSample fl pf m) (startSt L E) := by
  obtain ⟨a, r, hcut⟩ := cut_of_mem hp
  obtain ⟨e1, ha⟩ := cut_some hcut
  have hca : cColon ∉ a := by
    intro h; exact hc s1 (by simp) (by rw [e1]; simp [h])
  have hJ : ∃ r', joinWith cColon (s1 :: rest) = a ++ cPipe :: r' := by
    cases rest with
    | nil => exact ⟨r, by simp [joinWith, e1]⟩
    | cons q qs => exact ⟨r ++ cColon :: joinWith cColon (q :: qs), by rw [joinWith_cons_cons, e1]; simp⟩
  obtain ⟨r', hJ⟩ := hJ
  have hcutJ : cut cPipe (joinWith cColon (s1 :: rest)) = some (a, r') := by rw [hJ]; exact cut_append _ ha
  obtain ⟨p1, tl, h3, _⟩ := splitN3_of_cut hcutJ
  unfold afterName
  simp only [hd, h3, containsByte_eq_false hca, splitOn_joinWith (List.cons_ne_nil _ _) hc]
  rfl

theorem afterName_single (fl : ParserFlags) (pf : Pf V) (m : Bytes) (L : Labels) (E : Nat)
    (s : Bytes) (hp : cPipe ∈ s) (hc : cColon ∉ s) (hd : containsSub [cPipe, cHash] s = false) :
    afterName fl pf (m, L, E) s = parseSample fl pf m (startSt L E) s := by
  have := afterName_multi fl pf m L E s [] hp (by simpa using hc) (by simpa [joinWith] using hd)
  simpa [joinWith] using this

theorem afterName_nopipe (fl : ParserFlags) (pf : Pf V) (m : Bytes) (L : Labels) (E : Nat)
    (s : Bytes) (hp : cPipe ∉ s) :
    afterName fl pf (m, L, E) s = { errs := [.notEnoughParts], tagErrs := E } := by
  unfold afterName
  simp only [containsSub_of_not_mem _ hp, splitN3_of_not_mem hp]
  rfl

theorem sOut_nopipe (fl : ParserFlags) (pf : Pf V) (m : Bytes) (s : Bytes) (hp : cPipe ∉ s) :
    sOut fl pf m s = { errs := [.malformedComponent], samples := 1 } := by
  simp [sOut, parseSample, splitOn_of_not_mem hp]

/-- events of a single-sample line -/
theorem afterName_single_events (fl : ParserFlags) (pf : Pf V) (m : Bytes) (L : Labels) (E : Nat)
    (s : Bytes) (hc : cColon ∉ s) (hd : containsSub [cPipe, cHash] s = false) :
    (afterName fl pf (m, L, E) s).events = (sOut fl pf m s).events := by
  by_cases hp : cPipe ∈ s
  · rw [afterName_single fl pf m L E s hp hc hd, parseSample_events]; rfl
  · rw [afterName_nopipe fl pf m L E s hp, sOut_nopipe fl pf m s hp]

theorem afterName_single_errs_length (fl : ParserFlags) (pf : Pf V) (m : Bytes) (L : Labels) (E : Nat)
    (s : Bytes) (hc : cColon ∉ s) (hd : containsSub [cPipe, cHash] s = false) :
    (afterName fl pf (m, L, E) s).errs.length = (sOut fl pf m s).errs.length := by
  by_cases hp : cPipe ∈ s
  · rw [afterName_single fl pf m L E s hp hc hd, parseSample_errs]; rfl
  · rw [afterName_nopipe fl pf m L E s hp, sOut_nopipe fl pf m s hp]; rfl


theorem foldl_stepComponent_mult (fl : ParserFlags) (pf : Pf V) (st : StatType)
    (hst : st = .s ∨ st = .bad ∨ st = .c ∨ st = .g) (cs : List Bytes) :
    ∀ (s : CompSt V), (cs.foldl (stepComponent fl pf st) s).mult = s.mult := by
  induction cs with
  | nil => intro s; rfl
  | cons c cs ih =>
    intro s
    rw [List.foldl_cons, ih]
    cases c with
    | nil => rfl
    | cons b rest =>
      by_cases hb : (b == cAt) = true
      · by_cases he : ((pf rest).2 != PfErr.ok) = true <;>
          rcases hst with h | h | h | h <;> subst h <;> simp [stepComponent, hb, he]
      · by_cases hh : (b == cHash) = true
        · simp [stepComponent, hb, hh]
        · simp [stepComponent, hb, hh]

/-- a syntactically rejected sample contributes no event and at least one error -/
theorem sOut_rejected (fl : ParserFlags) (pf : Pf V) (m : Bytes) (s : Bytes)
    (h : sampleRejected pf s = true) :
    (sOut fl pf m s).events = [] ∧ (sOut fl pf m s).errs ≠ [] := by
  unfold sampleRejected at h
  rcases hsp : splitOn cPipe s with _ | ⟨v, _ | ⟨stB, extra⟩⟩
  · constructor <;> simp [sOut, parseSample, hsp]
  · constructor <;> simp [sOut, parseSample, hsp]
  · rw [hsp] at h
    simp only [] at h
    by_cases hl : extra.length > 2
    · constructor <;> simp [sOut, parseSample, hsp, hl]
    · by_cases hv : ((pf v).2 != PfErr.ok) = true
      · constructor <;> simp [sOut, parseSample, hsp, hl, hv]
      · by_cases he : extra.any (·.isEmpty) = true
        · constructor <;> simp [sOut, parseSample, hsp, hl, hv, he]
        · have hst : statTypeOf stB = .s ∨ statTypeOf stB = .bad := by
            simp only [hl, hv, he, decide_false, Bool.false_or, Bool.or_eq_true, beq_iff_eq] at h
            exact h
          have hm := foldl_stepComponent_mult fl pf (statTypeOf stB)
            (by rcases hst with h | h <;> simp [h]) extra ⟨(pf v).1, 1, [], [], 0⟩
          have hb : ∀ (x : V) (r : Bool), buildEvent (statTypeOf stB) m x r = none := by
            intro x r; rcases hst with h | h <;> rw [h] <;> rfl
          simp only [sOut, parseSample, hsp, hl, hv, he]
          simp only [if_false, Bool.false_eq_true]
          rw [hb, hm]
          constructor <;> (repeat' split) <;> first | contradiction | simp


theorem mem_joinWith_two (c : UInt8) (a b : Bytes) (l : List Bytes) : c ∈ joinWith c (a :: b :: l) := by
  rw [joinWith_cons_cons]; simp

theorem not_mem_joinWith {x c : UInt8} {ps : List Bytes} (hx : x ≠ c) (h : ∀ p ∈ ps, x ∉ p) :
    x ∉ joinWith c ps := by
  induction ps with
  | nil => simp [joinWith]
  | cons p rest ih =>
    cases rest with
    | nil => simpa [joinWith] using h p (by simp)
    | cons q qs =>
      rw [joinWith_cons_cons]
      simp only [List.mem_append, List.mem_cons, not_or]
      exact ⟨h p (by simp), hx, ih (fun y hy => h y (by simp [hy]))⟩

theorem afterName_mixed (fl : ParserFlags) (pf : Pf V) (m : Bytes) (L : Labels) (E : Nat) (e1 : Bytes)
    (hd : containsSub [cPipe, cHash] e1 = true) (hL : L ≠ []) :
    afterName fl pf (m, L, E) e1 = { errs := [.mixedTaggingStyles], tagErrs := E } := by
  unfold afterName
  have : L.isEmpty = false := by cases L <;> simp at hL ⊢
  simp [hd, this]

theorem splitN3_pipe_shape {p0 p1 rest : Bytes} (hp0 : cPipe ∉ p0) (hp1 : cPipe ∉ p1)
    (hrest : rest = [] ∨ ∃ r, rest = cPipe :: r) :
    ∃ tl, splitN3 cPipe (p0 ++ cPipe :: (p1 ++ rest)) = p0 :: p1 :: tl := by
  rcases hrest with h | ⟨r, h⟩
  · subst h; exact ⟨[], by rw [List.append_nil]; exact splitN3_two hp0 hp1⟩
  · subst h; exact ⟨[r], splitN3_three r hp0 hp1⟩

/-- extended-aggregation shape with a type other than ms/h/d -/
theorem afterName_extagg_bad (fl : ParserFlags) (pf : Pf V) (m : Bytes) (L : Labels) (E : Nat)
    {p0 p1 rest : Bytes} (hp0 : cPipe ∉ p0) (hp1 : cPipe ∉ p1)
    (hrest : rest = [] ∨ ∃ r, rest = cPipe :: r) (hcol : cColon ∈ p0)
    (hT : isExtAggType p1 = false)
    (hmix : containsSub [cPipe, cHash] (p0 ++ cPipe :: (p1 ++ rest)) = false ∨ L = []) :
    afterName fl pf (m, L, E) (p0 ++ cPipe :: (p1 ++ rest)) =
      { errs := [.invalidExtAggType], tagErrs := E } := by
  obtain ⟨tl, h3⟩ := splitN3_pipe_shape hp0 hp1 hrest
  have hm : (containsSub [cPipe, cHash] (p0 ++ cPipe :: (p1 ++ rest)) && !L.isEmpty) = false := by
    rcases hmix with h | h
    · simp [h]
    · simp [h]
  unfold afterName
  simp only [hm, h3, containsByte_eq_true hcol, hT]
  simp

/-- extended-aggregation shape with type ms/h/d: a fold over the rebuilt samples -/
theorem afterName_extagg (fl : ParserFlags) (pf : Pf V) (m : Bytes) (L : Labels) (E : Nat)
    {p0 p1 rest : Bytes} (hp0 : cPipe ∉ p0) (hp1 : cPipe ∉ p1)
    (hrest : rest = [] ∨ ∃ r, rest = cPipe :: r) (hcol : cColon ∈ p0)
    (hT : isExtAggType p1 = true)
    (hmix : containsSub [cPipe, cHash] (p0 ++ cPipe :: (p1 ++ rest)) = false ∨ L = []) :
    afterName fl pf (m, L, E) (p0 ++ cPipe :: (p1 ++ rest)) =
      ((splitOn cColon p0).map fun v => v ++ cPipe :: (p1 ++ rest)).foldl
        (parseSample fl pf m) (startSt L E) := by
  obtain ⟨tl, h3⟩ := splitN3_pipe_shape hp0 hp1 hrest
  have hm : (containsSub [cPipe, cHash] (p0 ++ cPipe :: (p1 ++ rest)) && !L.isEmpty) = false := by
    rcases hmix with h | h
    · simp [h]
    · simp [h]
  unfold afterName
  simp only [hm, h3, containsByte_eq_true hcol, hT, cut_append _ hp0]
  simp [startSt]

/-- a line with exactly one sample `v|T rest` (no colon before the first `|`) -/
theorem afterName_one (fl : ParserFlags) (pf : Pf V) (m : Bytes) (L : Labels) (E : Nat)
    {p0 p1 rest : Bytes} (hp0 : cPipe ∉ p0) (hp1 : cPipe ∉ p1)
    (hrest : rest = [] ∨ ∃ r, rest = cPipe :: r) (hcol : cColon ∉ p0) (hcol1 : cColon ∉ p1)
    (hmix : containsSub [cPipe, cHash] (p0 ++ cPipe :: (p1 ++ rest)) = false ∨ L = [])
    (hr : containsSub [cPipe, cHash] (p0 ++ cPipe :: (p1 ++ rest)) = false → cColon ∉ rest) :
    afterName fl pf (m, L, E) (p0 ++ cPipe :: (p1 ++ rest)) =
      parseSample fl pf m (startSt L E) (p0 ++ cPipe :: (p1 ++ rest)) := by
  obtain ⟨tl, h3⟩ := splitN3_pipe_shape hp0 hp1 hrest
  have hm : (containsSub [cPipe, cHash] (p0 ++ cPipe :: (p1 ++ rest)) && !L.isEmpty) = false := by
    rcases hmix with h | h
    · simp [h]
    · simp [h]
  unfold afterName
  simp only [hm, h3, containsByte_eq_false hcol]
  cases hd : containsSub [cPipe, cHash] (p0 ++ cPipe :: (p1 ++ rest)) with
  | true => simp [startSt]
  | false =>
    have hc : cColon ∉ p0 ++ cPipe :: (p1 ++ rest) := by
      simp only [List.mem_append, List.mem_cons, not_or]
      exact ⟨hcol, by decide, hcol1, hr hd⟩
    simp [splitOn_of_not_mem hc, startSt]

end SE
