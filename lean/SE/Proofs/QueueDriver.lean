import SE.Driver.Queue
import SE.Proofs.Queue
/-
The executable driver (SE/Driver/Queue.lean) runs a `q <n>` operation through the micro-step machine
with `runCall`, a fuel-bounded loop that follows producer 0's program counter. This file proves that
`runCall` executes exactly the canonical schedule `callSched`, hence (SE/Proofs/Queue.lean,
`call_body_bridge`) computes what the call-level function `queueCall` says.
-/
namespace SE.Driver
open SE

theorem runCall_eq_canonical : ∀ (batch : List Nat) (s : QSt Nat) (todo : List (List Nat)) (fuel : Nat),
    s.prods[0]? = some ⟨todo, .holding batch⟩ → 2 * batch.length + 1 ≤ fuel →
    runCall s fuel = qRun s (callSched 0 s.thr s.q.length batch) := by
  intro batch
  induction batch with
  | nil =>
    intro s todo fuel hp hf
    obtain ⟨f, rfl⟩ : ∃ f, fuel = f + 1 := ⟨fuel - 1, by simp at hf; omega⟩
    simp only [runCall, hp, callSched, qRun, List.isEmpty_nil, if_true]
    cases qStep s (.release 0) <;> rfl
  | cons e rest ih =>
    intro s todo fuel hp hf
    simp only [List.length_cons] at hf
    obtain ⟨f, rfl⟩ : ∃ f, fuel = f + 1 := ⟨fuel - 1, by omega⟩
    have hlen : (s.q ++ [e]).length = s.q.length + 1 := by simp
    by_cases hge : s.q.length + 1 ≥ s.thr
    · have hsched : callSched 0 s.thr s.q.length (e :: rest) =
          .append 0 :: .send 0 :: callSched 0 s.thr 0 rest := by
        simp only [callSched]; rw [if_pos hge]
      have h1 : qStep s (.append 0) =
          some { s with q := s.q ++ [e], prods := s.prods.set 0 ⟨todo, .sending rest⟩ } := by
        simp [qStep, hp, hge, setProd]
      have hp1 : (s.prods.set 0 ⟨todo, .sending rest⟩)[0]? = some ⟨todo, .sending rest⟩ :=
        getElem?_set_self_of_some hp
      obtain ⟨f', rfl⟩ : ∃ f', f = f' + 1 := ⟨f - 1, by omega⟩
      rw [hsched]
      simp only [runCall, hp, List.isEmpty_cons, Bool.false_eq_true, if_false, qRun, h1,
        Option.bind_some, hp1]
      by_cases hcs : s.chan.length < s.cap
      · have h2 : qStep { s with q := s.q ++ [e], prods := s.prods.set 0 ⟨todo, .sending rest⟩ } (.send 0) =
            some { s with q := [], chan := s.chan ++ [s.q ++ [e]], prods := s.prods.set 0 ⟨todo, .holding rest⟩ } := by
          simp [qStep, setProd, hp1, canSend, hcs, List.set_set]
        have h3 := ih { s with q := [], chan := s.chan ++ [s.q ++ [e]], prods := s.prods.set 0 ⟨todo, .holding rest⟩ } todo f' (getElem?_set_self_of_some hp) (by omega)
        simp only [List.length_nil] at h3
        simp only [h2, Option.bind_some, h3]
      · have h2 : qStep { s with q := s.q ++ [e], prods := s.prods.set 0 ⟨todo, .sending rest⟩ } (.send 0) = none := by
          simp [qStep, hp1, canSend, hcs]
        simp only [h2, Option.bind_none]
    · have hsched : callSched 0 s.thr s.q.length (e :: rest) =
          .append 0 :: callSched 0 s.thr (s.q.length + 1) rest := by
        simp only [callSched]; rw [if_neg hge]
      have h1 : qStep s (.append 0) =
          some { s with q := s.q ++ [e], prods := s.prods.set 0 ⟨todo, .holding rest⟩ } := by
        simp [qStep, hp, hge, setProd]
      have h3 := ih { s with q := s.q ++ [e], prods := s.prods.set 0 ⟨todo, .holding rest⟩ } todo f (getElem?_set_self_of_some hp) (by omega)
      simp only [hlen] at h3
      rw [hsched]
      simp only [runCall, hp, List.isEmpty_cons, Bool.false_eq_true, if_false, qRun, h1,
        Option.bind_some, h3]

/-- what the driver's `q <n>` operation computes: with the single producer idle and about to call
    `Queue(batch)`, the mutex free and room in the channel, `acquire` followed by `runCall` with the
    driver's fuel `2 * n + 4` yields exactly the `queueCall` result -/
theorem driver_queue_op (s : QSt Nat) (batch : List Nat) (todo : List (List Nat))
    (hp : s.prods[0]? = some ⟨batch :: todo, .idle⟩) (hfree : s.locked = false)
    (hroom : s.chan.length + (queueCall s.thr s.q batch []).2.length ≤ s.cap) :
    (qStep s (.acquire 0)).bind (runCall · (2 * batch.length + 4)) =
      some { s with q := (queueCall s.thr s.q batch []).1,
                    chan := s.chan ++ (queueCall s.thr s.q batch []).2,
                    prods := s.prods.set 0 ⟨todo, .idle⟩ } := by
  have h1 : qStep s (.acquire 0) =
      some { s with prods := s.prods.set 0 ⟨todo, .holding batch⟩, locked := true } := by
    simp [qStep, hp, hfree, setProd]
  have hp1 : (s.prods.set 0 ⟨todo, .holding batch⟩)[0]? = some ⟨todo, .holding batch⟩ :=
    getElem?_set_self_of_some hp
  have h2 := runCall_eq_canonical batch
    { s with prods := s.prods.set 0 ⟨todo, .holding batch⟩, locked := true } todo
    (2 * batch.length + 4) hp1 (by omega)
  have h3 := call_body_bridge 0 batch
    { s with prods := s.prods.set 0 ⟨todo, .holding batch⟩, locked := true } todo hp1 hroom
  rw [h1, Option.bind_some, h2, h3]
  simp [List.set_set, hfree]

end SE.Driver
