import SE.Model.Line
/-
Helper for C02: symbolic evaluation of `lineToEvents` on the line `a:1|ms|@r` for an arbitrary
float parser — the sampling rate multiplies the number of events.
-/
namespace SE
variable {V : Type} [NumOps V]
open NumOps

/-- `a:1|ms|@r` (9 bytes) -/
def amplLine : Bytes := strBytes "a:1|ms|@r"

theorem parseNameAndTags_a (fl : ParserFlags) : parseNameAndTags fl [97] = ([97], [], 0) := by
  obtain ⟨d, i, l, s⟩ := fl
  cases d <;> cases i <;> cases l <;> cases s <;> decide

theorem amplLine_events (fl : ParserFlags) (pf : Pf V) (v sf : V)
    (h1 : pf [49] = (v, .ok)) (h2 : pf [114] = (sf, .ok)) (hz : isZero sf = false) :
    (lineToEvents fl pf true amplLine).events =
      List.replicate (recipInt sf).toNat ⟨.observer, [97], div v thousand, false⟩ := by
  have e0 : amplLine.isEmpty = false := by decide
  have e1 : cut cColon amplLine = some ([97], strBytes "1|ms|@r") := by decide
  have e2 : containsSub [cPipe, cHash] (strBytes "1|ms|@r") = false := by decide
  have e3 : splitN3 cPipe (strBytes "1|ms|@r") = [[49], [109, 115], [64, 114]] := by decide
  have e4 : containsByte cColon [49] = false := by decide
  have e5 : splitOn cColon (strBytes "1|ms|@r") = [strBytes "1|ms|@r"] := by decide
  have e6 : splitOn cPipe (strBytes "1|ms|@r") = [[49], [109, 115], [64, 114]] := by decide
  unfold lineToEvents
  rw [e0]
  simp only [Bool.false_eq_true, if_false, e1, parseNameAndTags_a, e2, e3, e4, e5]
  simp only [List.isEmpty_cons, Bool.not_true, Bool.or_self, Bool.false_eq_true, if_false, Bool.false_and,
    List.foldl_cons, List.foldl_nil]
  have e7 : statTypeOf [109, 115] = .ms := by decide
  have e8 : List.foldl (stepComponent fl pf .ms) ⟨v, 1, [], [], 0⟩ [[64, 114]] = ⟨v, recipInt sf, [], [], 0⟩ := by
    have : ((64 : UInt8) == cAt) = true := by decide
    simp only [List.foldl_cons, List.foldl_nil, stepComponent, this, if_true, h2, hz]
    simp
  unfold parseSample
  simp only [e6, List.length_cons, List.length_nil, e7, h1, e8, buildEvent]
  simp

end SE
