import SE.Proofs.GlobBridge
import SE.Proofs.GlobUnordered
import SE.Proofs.GlobDeterministic
/-
Bridge between `lookupGlob` / `mostSpecificGlob` on a `Config` and the type-root level results,
for unordered mode (and soundness in any mode).
-/
namespace SE
open SE.ListLemmas
variable {V : Type}

theorem pick_mem {o : Bool} {fs : List Found} {f : Found} (h : pick o fs = some f) : f ∈ fs := by
  cases o with
  | true => exact (pick_ordered_some h).1
  | false => rw [pick_unordered] at h; exact List.mem_of_head? h

/-- the spec's candidate list, expressed on `globKK` -/
theorem cands_eq (cfg : Config V) (name : Pat) (ty : Nat) :
    cfg.rules.zipIdx.filter (fun x => ruleMatchesGlob x.1 name ty) =
      ((globKK cfg ty).filter (fun y => globMatches y.1.1.pat name)).map (·.1) := by
  unfold globKK
  rw [List.filter_filter]
  have := filter_zipIdx_fst
    (fun (x : Rule V × Nat) => globMatches x.1.pat name && typeOk x.1.matchMetricType ty) (globK cfg) 0
  rw [this]
  unfold globK
  rw [List.filter_filter]
  congr 1
  funext x
  simp only [ruleMatchesGlob]
  cases (x.1.matchType == MatchTy.glob) <;> cases (globMatches x.1.pat name) <;>
    cases (typeOk x.1.matchMetricType ty) <;> rfl

theorem mostSpecificGlob_eq (cfg : Config V) (name : Bytes) (ty : Nat) :
    mostSpecificGlob cfg name ty =
      ((((globKK cfg ty).filter (fun y => globMatches y.1.1.pat (splitOn 46 name))).map (·.1)).foldl
        (msStep (fun c : Rule V × Nat => c.1.pat)) none).map (·.2) := by
  rw [← cands_eq]
  unfold mostSpecificGlob
  simp only
  congr 1
  congr 1
  funext best c
  cases best <;> rfl

/-- every member of the type root comes from an entry of `globKK` -/
theorem mem_rulesFor_toGRules {cfg : Config V} {ty : Nat} {j : Nat} {pat : Pat}
    (h : (j, pat) ∈ rulesFor (toGRules cfg) ty) :
    ∃ y ∈ globKK cfg ty, y.2 = j ∧ y.1.1.pat = pat := by
  rw [rulesFor_toGRules, List.mem_map] at h
  obtain ⟨y, hy, he⟩ := h
  simp only [kkRule, Prod.mk.injEq] at he
  exact ⟨y, hy, he.1, he.2⟩

/-- **Soundness of `lookupGlob`, any mode, with or without backtracking**: what is returned is a glob
    rule of the configuration that matches the name and passes the type filter. -/
theorem lookupGlob_sound (cfg : Config V) (name : Bytes) (ty : Nat) (m : Mapped)
    (h : lookupGlob cfg name ty = some m) :
    ∃ r, cfg.rules[m.ruleIdx]? = some r ∧ ruleMatchesGlob r (splitOn 46 name) ty = true := by
  unfold lookupGlob at h
  cases hg : globLookup (toGRules cfg) cfg.orderingDisabled (splitOn 46 name) ty with
  | none => rw [hg] at h; cases h
  | some f =>
    rw [hg] at h; simp only at h
    have hf := pick_mem hg
    obtain ⟨ext, h1, h2, _⟩ := dfs_sound _ _ _ [] [] f hf
    have hmem := result_some_mem h2
    simp only [List.nil_append] at hmem
    obtain ⟨y, hy, hyj, hyp⟩ := mem_rulesFor_toGRules hmem
    have hk := mem_globKK hy
    rw [← hyj, hk.1] at h
    simp only [Option.some.injEq] at h
    subst h
    refine ⟨y.1.1, hk.2.1, ?_⟩
    simp [ruleMatchesGlob, hk.2.2.1, hk.2.2.2, hyp, h1]

/-- `TestIfNeedBacktracking = true` is one way to have `BacktrackingNeeded = true` -/
theorem backtracking_of_needBT {rules : List GRule} {od : Bool}
    (h : needBT (rules.map (·.pat)) od = true) : backtracking rules od = true := by
  simp [backtracking, h]

/-- unordered mode with backtracking enabled: `FSM.GetMapping` -/
theorem globLookup_unordered_bt (cfg : Config V) (hod : cfg.orderingDisabled = true)
    (hbt : backtracking (toGRules cfg) true = true) (name : Pat) (ty : Nat) :
    globLookup (toGRules cfg) cfg.orderingDisabled name ty =
      pick false (dfs (rulesFor (toGRules cfg) ty) true [] [] name) := by
  simp only [globLookup, hod, hbt, Bool.not_true]

/-- unordered mode after the repair, whatever `BacktrackingNeeded` is: `FSM.GetMapping` returns the first
    final state of the backtracking search -/
theorem globLookup_unordered_cfg (cfg : Config V) (hod : cfg.orderingDisabled = true) (name : Pat) (ty : Nat) :
    globLookup (toGRules cfg) cfg.orderingDisabled name ty =
      pick false (dfs (rulesFor (toGRules cfg) ty) true [] [] name) := by
  rw [hod]; exact globLookup_unordered _ name ty

/-- if the lookup is the first final state of the backtracking search, it is the spec's most specific
    matching glob rule -/
theorem lookupGlob_of_eq_pick_bt (cfg : Config V) (name : Bytes) (ty : Nat)
    (heq : globLookup (toGRules cfg) cfg.orderingDisabled (splitOn 46 name) ty =
      pick false (dfs (rulesFor (toGRules cfg) ty) true [] [] (splitOn 46 name))) :
    (lookupGlob cfg name ty).map (·.ruleIdx) = mostSpecificGlob cfg name ty := by
  rw [mostSpecificGlob_eq]
  unfold lookupGlob
  rw [heq]
  cases hp : pick false (dfs (rulesFor (toGRules cfg) ty) true [] [] (splitOn 46 name)) with
  | none =>
    rw [unordered_pick_none_iff _ _ (splitOn_ne_nil _ _)] at hp
    have : (globKK cfg ty).filter (fun y => globMatches y.1.1.pat (splitOn 46 name)) = [] := by
      rw [List.filter_eq_nil_iff]
      intro y hy
      have : kkRule y ∈ rulesFor (toGRules cfg) ty := by
        rw [rulesFor_toGRules]; exact List.mem_map_of_mem hy
      have := hp _ this
      simpa [kkRule] using this
    rw [this]; rfl
  | some f0 =>
    obtain ⟨pat, hm, hres, hmin⟩ := unordered_pick_dfs _ _ _ hp
    -- locate the owner of the node in `globKK`
    have hres' := hres
    simp only [result, rulesFor_toGRules, List.find?_map, Option.map_map, Option.map_eq_some_iff] at hres'
    obtain ⟨y, hy, hyj⟩ := hres'
    simp only [Function.comp_def, kkRule] at hy hyj
    rw [List.find?_eq_some_iff_append] at hy
    obtain ⟨hyp, as, bs, hkk, has⟩ := hy
    have hyp' : y.1.1.pat = pat := by simpa using hyp
    have hymem : y ∈ globKK cfg ty := by rw [hkk]; simp
    have hk := mem_globKK hymem
    simp only
    rw [← hyj, hk.1]
    simp only [Option.map_some]
    -- the fold
    have hmy : globMatches y.1.1.pat (splitOn 46 name) = true := by rw [hyp']; exact hm
    rw [hkk, List.filter_append, List.filter_cons, if_pos hmy, List.map_append, List.map_cons]
    have hminKK : ∀ z ∈ globKK cfg ty, globMatches z.1.1.pat (splitOn 46 name) = true →
        moreSpecific z.1.1.pat pat = false := by
      intro z hz hzm
      have : kkRule z ∈ rulesFor (toGRules cfg) ty := by
        rw [rulesFor_toGRules]; exact List.mem_map_of_mem hz
      exact hmin _ this hzm
    rw [foldl_msStep_winner (fun c : Rule V × Nat => c.1.pat)]
    · rfl
    · intro a ha
      rw [List.mem_map] at ha
      obtain ⟨z, hz, rfl⟩ := ha
      rw [List.mem_filter] at hz
      have hne : z.1.1.pat ≠ pat := by simpa using has z hz.1
      have h1 := hminKK z (by rw [hkk]; simp [hz.1]) hz.2
      cases h2 : moreSpecific y.1.1.pat z.1.1.pat with
      | true => rfl
      | false =>
        rw [hyp'] at h2
        exact absurd (moreSpecific_total _ _ _ hz.2 hm h1 h2) hne
    · intro b hb
      rw [List.mem_map] at hb
      obtain ⟨z, hz, rfl⟩ := hb
      rw [List.mem_filter] at hz
      simp only [hyp']
      exact hminKK z (by rw [hkk]; simp [hz.1]) hz.2

/-- unordered mode, backtracking enabled: the lookup is the spec's most specific matching glob rule -/
theorem lookupGlob_unordered_bt (cfg : Config V) (hod : cfg.orderingDisabled = true)
    (hbt : backtracking (toGRules cfg) true = true) (name : Bytes) (ty : Nat) :
    (lookupGlob cfg name ty).map (·.ruleIdx) = mostSpecificGlob cfg name ty :=
  lookupGlob_of_eq_pick_bt cfg name ty (globLookup_unordered_bt cfg hod hbt _ ty)

/-- unordered mode after the repair: the lookup is the spec's most specific matching glob rule, for every
    configuration, name and type -/
theorem lookupGlob_unordered (cfg : Config V) (hod : cfg.orderingDisabled = true) (name : Bytes) (ty : Nat) :
    (lookupGlob cfg name ty).map (·.ruleIdx) = mostSpecificGlob cfg name ty :=
  lookupGlob_of_eq_pick_bt cfg name ty (globLookup_unordered_cfg cfg hod _ ty)

/-! ### characterisation of `mostSpecificGlob` and order independence -/

theorem mostSpecificGlob_cands (cfg : Config V) (name : Bytes) (ty : Nat) :
    mostSpecificGlob cfg name ty =
      ((cfg.rules.zipIdx.filter (fun x => ruleMatchesGlob x.1 (splitOn 46 name) ty)).foldl
        (msStep (fun c : Rule V × Nat => c.1.pat)) none).map (·.2) := by
  rw [mostSpecificGlob_eq, cands_eq]

theorem mem_cands {cfg : Config V} {name : Pat} {ty : Nat} {x : Rule V × Nat} :
    x ∈ cfg.rules.zipIdx.filter (fun x => ruleMatchesGlob x.1 name ty) ↔
      cfg.rules[x.2]? = some x.1 ∧ ruleMatchesGlob x.1 name ty = true := by
  rw [List.mem_filter, List.mem_zipIdx_iff_getElem?]

theorem mostSpecificGlob_none_iff (cfg : Config V) (name : Bytes) (ty : Nat) :
    mostSpecificGlob cfg name ty = none ↔
      ∀ r ∈ cfg.rules, ruleMatchesGlob r (splitOn 46 name) ty = false := by
  rw [mostSpecificGlob_cands, Option.map_eq_none_iff, foldl_msStep_none_iff, List.filter_eq_nil_iff]
  constructor
  · intro h r hr
    obtain ⟨i, hi⟩ := List.getElem?_of_mem hr
    have := h (r, i) (List.mem_zipIdx_iff_getElem?.mpr hi)
    simpa using this
  · intro h x hx
    have := h x.1 (mem_of_mem_zipIdx hx)
    simp [this]

theorem mostSpecificGlob_some {cfg : Config V} {name : Bytes} {ty i : Nat}
    (h : mostSpecificGlob cfg name ty = some i) :
    ∃ r, cfg.rules[i]? = some r ∧ ruleMatchesGlob r (splitOn 46 name) ty = true ∧
      ∀ r' ∈ cfg.rules, ruleMatchesGlob r' (splitOn 46 name) ty = true → moreSpecific r'.pat r.pat = false := by
  rw [mostSpecificGlob_cands, Option.map_eq_some_iff] at h
  obtain ⟨⟨r, j⟩, hf, hj⟩ := h
  simp only at hj; subst hj
  obtain ⟨hmem, hmin⟩ := foldl_msStep_min _ _ _ hf
  rw [mem_cands] at hmem
  refine ⟨r, hmem.1, hmem.2, ?_⟩
  intro r' hr' hm'
  obtain ⟨k, hk⟩ := List.getElem?_of_mem hr'
  exact hmin (r', k) (mem_cands.mpr ⟨hk, hm'⟩)

/-- two candidate lists with the same set of (matching) patterns have the same winning pattern -/
theorem msWinnerPat_eq_of_same_pats {α β} (patA : α → Pat) (patB : β → Pat) (la : List α) (lb : List β)
    (name : Pat)
    (hA : ∀ a ∈ la, globMatches (patA a) name = true) (hB : ∀ b ∈ lb, globMatches (patB b) name = true)
    (hAB : ∀ a ∈ la, ∃ b ∈ lb, patB b = patA a) (hBA : ∀ b ∈ lb, ∃ a ∈ la, patA a = patB b) :
    (la.foldl (msStep patA) none).map patA = (lb.foldl (msStep patB) none).map patB := by
  cases ha : la.foldl (msStep patA) none with
  | none =>
    rw [foldl_msStep_none_iff] at ha
    cases hb : lb.foldl (msStep patB) none with
    | none => rfl
    | some wb =>
      obtain ⟨hm, _⟩ := foldl_msStep_min _ _ _ hb
      obtain ⟨a, ha', _⟩ := hBA wb hm
      rw [ha] at ha'; simp at ha'
  | some wa =>
    obtain ⟨hma, hmina⟩ := foldl_msStep_min _ _ _ ha
    cases hb : lb.foldl (msStep patB) none with
    | none =>
      rw [foldl_msStep_none_iff] at hb
      obtain ⟨b, hb', _⟩ := hAB wa hma
      rw [hb] at hb'; simp at hb'
    | some wb =>
      obtain ⟨hmb, hminb⟩ := foldl_msStep_min _ _ _ hb
      obtain ⟨b, hb1, hb2⟩ := hAB wa hma
      obtain ⟨a, ha1, ha2⟩ := hBA wb hmb
      have h1 := hminb b hb1
      have h2 := hmina a ha1
      rw [hb2] at h1; rw [ha2] at h2
      simp only [Option.map_some, Option.some.injEq]
      exact moreSpecific_total _ _ name (hA wa hma) (hB wb hmb) h1 h2

/-- the pattern of the spec's winner -/
def mostSpecificGlobPat (cfg : Config V) (name : Bytes) (ty : Nat) : Option Pat :=
  (mostSpecificGlob cfg name ty).bind (fun i => cfg.rules[i]?.map (·.pat))

theorem mostSpecificGlobPat_eq (cfg : Config V) (name : Bytes) (ty : Nat) :
    mostSpecificGlobPat cfg name ty =
      ((cfg.rules.zipIdx.filter (fun x => ruleMatchesGlob x.1 (splitOn 46 name) ty)).foldl
        (msStep (fun c : Rule V × Nat => c.1.pat)) none).map (fun c => c.1.pat) := by
  unfold mostSpecificGlobPat
  rw [mostSpecificGlob_cands]
  cases hf : (cfg.rules.zipIdx.filter (fun x => ruleMatchesGlob x.1 (splitOn 46 name) ty)).foldl
        (msStep (fun c : Rule V × Nat => c.1.pat)) none with
  | none => rfl
  | some w =>
    obtain ⟨hm, _⟩ := foldl_msStep_min _ _ _ hf
    rw [mem_cands] at hm
    simp [hm.1]

theorem ruleMatchesGlob_pat {r : Rule V} {name : Pat} {ty : Nat} (h : ruleMatchesGlob r name ty = true) :
    globMatches r.pat name = true := by
  simp only [ruleMatchesGlob, Bool.and_eq_true] at h
  exact h.1.2

/-- the winning pattern does not depend on the order of the rules -/
theorem mostSpecificGlobPat_perm (cfg1 cfg2 : Config V) (hp : cfg1.rules.Perm cfg2.rules)
    (name : Bytes) (ty : Nat) :
    mostSpecificGlobPat cfg1 name ty = mostSpecificGlobPat cfg2 name ty := by
  rw [mostSpecificGlobPat_eq, mostSpecificGlobPat_eq]
  apply msWinnerPat_eq_of_same_pats _ _ _ _ (splitOn 46 name)
  · intro a ha; exact ruleMatchesGlob_pat (mem_cands.mp ha).2
  · intro b hb; exact ruleMatchesGlob_pat (mem_cands.mp hb).2
  · intro a ha
    rw [mem_cands] at ha
    have : a.1 ∈ cfg2.rules := hp.mem_iff.mp (List.mem_of_getElem? ha.1)
    obtain ⟨k, hk⟩ := List.getElem?_of_mem this
    exact ⟨(a.1, k), mem_cands.mpr ⟨hk, ha.2⟩, rfl⟩
  · intro b hb
    rw [mem_cands] at hb
    have : b.1 ∈ cfg1.rules := hp.mem_iff.mpr (List.mem_of_getElem? hb.1)
    obtain ⟨k, hk⟩ := List.getElem?_of_mem this
    exact ⟨(b.1, k), mem_cands.mpr ⟨hk, hb.2⟩, rfl⟩

end SE
