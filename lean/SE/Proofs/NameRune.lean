import SE.Spec.TemplateRefs
/-
Go's rune-wise reference-name scan (`nameRune`, `nameLenU`, `rxExtractU`: the model of `extract` in
regexp/regexp.go), which the specification `expandSpec`, `regexp.Expand` (`rxExpand`) and — since the
repair a7bcc3e — the glob formatter (`substRefs`) all use:
  * what a name rune looks like (`nameRune_*`, `nameRune_true`);
  * the structure of a successful `extract` (`rxExtractU_some`: the name is non-empty, the rest is a
    suffix of the input);
  * the scan does not see the `%`-escaping the glob formatter applies before it scans: `%` is no name
    rune, no `{`, no `}` and no continuation byte, so `extract` on the escaped text finds the same name
    and the escaped rest (`nameRune_escapePct`, `nameLenU_escapePct`, `rxExtractU_escapePct`).
-/
namespace SE

/-- word bytes are ASCII -/
theorem isWordByte_lt (b : UInt8) (h : isWordByte b = true) : b < 0x80 := by
  simp only [isWordByte, Bool.or_eq_true, Bool.and_eq_true, decide_eq_true_eq, beq_iff_eq] at h
  simp only [UInt8.le_iff_toNat_le, UInt8.lt_iff_toNat_lt, ← UInt8.toNat_inj] at h ⊢
  simp at h ⊢
  omega

/-- bytes from 0xC2 on are not ASCII -/
theorem not_ascii_of_ge (b : UInt8) (hb : 0xC2 ≤ b) : ¬ b < 0x80 := by
  simp only [UInt8.le_iff_toNat_le, UInt8.lt_iff_toNat_lt] at hb ⊢
  simp at hb ⊢
  omega

/-- on an ASCII byte `nameRune` is the byte class `[A-Za-z0-9_]` -/
theorem nameRune_ascii (b : UInt8) (h : b < 0x80) (r : Bytes) : nameRune (b :: r) = some (1, isWordByte b) := by
  simp [nameRune, h]

theorem nameRune_nil : nameRune [] = some (0, false) := rfl

/-- a lead byte of the modelled two-byte range followed by a continuation byte is a rune of width 2 -/
theorem nameRune_two (b c : UInt8) (r : Bytes) (hb : 0xC2 ≤ b ∧ b ≤ 0xC9) (hc : 0x80 ≤ c ∧ c ≤ 0xBF) :
    nameRune (b :: c :: r) = some (2, isLetterLatin ((b.toNat - 0xC0) * 64 + (c.toNat - 0x80))) := by
  have h1 : ¬ b < 0x80 := not_ascii_of_ge b hb.1
  simp [nameRune, h1, hb.1, hb.2, hc.1, hc.2]

/-- lead bytes 0xCA..0xF4 are not modelled -/
theorem nameRune_unmodelled (b : UInt8) (r : Bytes) (hb : 0xCA ≤ b ∧ b ≤ 0xF4) : nameRune (b :: r) = none := by
  have h1 : ¬ b < 0x80 := by
    have := hb.1
    simp only [UInt8.le_iff_toNat_le, UInt8.lt_iff_toNat_lt] at this ⊢
    simp at this ⊢
    omega
  have h2 : ¬ b ≤ 0xC9 := by
    have := hb.1
    simp only [UInt8.le_iff_toNat_le] at this ⊢
    simp at this ⊢
    omega
  simp [nameRune, h1, hb.1, hb.2, h2]

/-- a name rune is one or two bytes wide, lies inside the input and contains no `%` -/
theorem nameRune_true (s : Bytes) (w : Nat) (h : nameRune s = some (w, true)) :
    1 ≤ w ∧ w ≤ s.length ∧ cPct ∉ s.take w := by
  cases s with
  | nil => simp [nameRune] at h
  | cons b rest =>
    simp only [nameRune] at h
    split at h
    · simp only [Option.some.injEq, Prod.mk.injEq] at h
      obtain ⟨rfl, hw⟩ := h
      refine ⟨Nat.le_refl _, by simp, ?_⟩
      simp only [List.take_succ_cons, List.take_zero, List.mem_singleton]
      intro e; rw [← e] at hw; revert hw; decide
    · split at h
      · rename_i hr
        cases rest with
        | nil => simp at h
        | cons c r =>
          simp only at h
          split at h
          · rename_i hcr
            simp only [Option.some.injEq, Prod.mk.injEq] at h
            obtain ⟨rfl, _⟩ := h
            refine ⟨by omega, by simp, ?_⟩
            simp only [List.take_succ_cons, List.take_zero, List.mem_cons, List.not_mem_nil, or_false, not_or]
            simp only [Bool.and_eq_true, decide_eq_true_eq] at hr hcr
            constructor
            · intro e; rw [← e] at hr; revert hr; decide
            · intro e; rw [← e] at hcr; revert hcr; decide
          · simp at h
      · split at h <;> simp at h

/-! ### `%`-escaping -/

theorem escapePct_nil : escapePct [] = [] := rfl

theorem escapePct_cons (b : UInt8) (s : Bytes) :
    escapePct (b :: s) = (if b == cPct then [cPct, cPct] else [b]) ++ escapePct s := by
  simp [escapePct]

theorem escapePct_cons_pct (s : Bytes) : escapePct (cPct :: s) = cPct :: cPct :: escapePct s := by
  rw [escapePct_cons]; rfl

theorem escapePct_cons_plain (b : UInt8) (s : Bytes) (hb : (b == cPct) = false) :
    escapePct (b :: s) = b :: escapePct s := by
  rw [escapePct_cons]; simp [hb]

/-- the two shapes of an escaped non-empty text -/
theorem escapePct_cons_cases (b : UInt8) (s : Bytes) :
    (b = cPct ∧ escapePct (b :: s) = cPct :: cPct :: escapePct s) ∨
    ((b == cPct) = false ∧ escapePct (b :: s) = b :: escapePct s) := by
  by_cases hb : (b == cPct) = true
  · have : b = cPct := by simpa using hb
    subst this
    exact .inl ⟨rfl, escapePct_cons_pct s⟩
  · have hb' : (b == cPct) = false := by simpa using hb
    exact .inr ⟨hb', escapePct_cons_plain b s hb'⟩

theorem escapePct_append (s t : Bytes) : escapePct (s ++ t) = escapePct s ++ escapePct t := by
  simp [escapePct]

/-- a text without `%` is not changed by the escaping -/
theorem escapePct_plain (s : Bytes) (h : cPct ∉ s) : escapePct s = s := by
  induction s with
  | nil => rfl
  | cons b s ih =>
    simp only [List.mem_cons, not_or] at h
    have hb : (b == cPct) = false := by
      cases hbb : (b == cPct) with
      | false => rfl
      | true => exfalso; apply h.1; simp at hbb; exact hbb.symm
    rw [escapePct_cons_plain b s hb, ih h.2]

/-- escaping only makes a text longer -/
theorem length_le_escapePct (s : Bytes) : s.length ≤ (escapePct s).length := by
  induction s with
  | nil => exact Nat.le_refl _
  | cons b s ih =>
    rcases escapePct_cons_cases b s with ⟨_, h⟩ | ⟨_, h⟩ <;> rw [h] <;> simp only [List.length_cons] <;> omega

/-! ### the name scan does not see the escaping -/

/-- `%` is ASCII and no name byte; it is not a continuation byte either -/
theorem nameRune_escapePct (s : Bytes) : nameRune (escapePct s) = nameRune s := by
  cases s with
  | nil => rfl
  | cons b rest =>
    rcases escapePct_cons_cases b rest with ⟨rfl, h⟩ | ⟨hb, h⟩
    · rw [h, nameRune_ascii cPct (by decide), nameRune_ascii cPct (by decide)]
    · rw [h]
      cases rest with
      | nil => rfl
      | cons c r =>
        rcases escapePct_cons_cases c r with ⟨rfl, h2⟩ | ⟨_, h2⟩
        · rw [h2]
          have : (decide ((0x80 : UInt8) ≤ cPct)) = false := by decide
          simp [nameRune, this]
        · rw [h2]
          simp only [nameRune]

/-- **The name scan commutes with `%`-escaping**: the rune-wise scan finds a name of the same length in
    the escaped text (fuels: anything sufficient), and that name contains no `%`, i.e. the escaped text
    is the name followed by the escaped rest. -/
theorem nameLenU_escapePct : ∀ (fuel : Nat) (s : Bytes) (fuel' : Nat), s.length < fuel →
    (escapePct s).length < fuel' →
    nameLenU fuel' (escapePct s) = nameLenU fuel s ∧
    ∀ n, nameLenU fuel s = some n → n ≤ s.length ∧ escapePct s = s.take n ++ escapePct (s.drop n) := by
  intro fuel
  induction fuel with
  | zero => intro s fuel' hf; exact absurd hf (Nat.not_lt_zero _)
  | succ fuel ih =>
    intro s fuel' hf hf'
    cases fuel' with
    | zero => exact absurd hf' (Nat.not_lt_zero _)
    | succ fuel' =>
      simp only [nameLenU]
      rw [nameRune_escapePct]
      cases hr : nameRune s with
      | none => exact ⟨rfl, fun n h => by cases h⟩
      | some p =>
        obtain ⟨w, tf⟩ := p
        cases tf with
        | false =>
          refine ⟨rfl, fun n h => ?_⟩
          simp only [Option.some.injEq] at h
          subst h
          simp
        | true =>
          obtain ⟨hw1, hw2, hpct⟩ := nameRune_true s w hr
          have hsplit : escapePct s = s.take w ++ escapePct (s.drop w) := by
            conv => lhs; rw [← List.take_append_drop w s]
            rw [escapePct_append, escapePct_plain _ hpct]
          have hlen : (s.take w).length = w := by simp [Nat.min_eq_left hw2]
          have hdrop : (escapePct s).drop w = escapePct (s.drop w) := by
            rw [hsplit, List.drop_left' hlen]
          have hl1 : (s.drop w).length < fuel := by simp only [List.length_drop]; omega
          have hl2 : (escapePct (s.drop w)).length < fuel' := by
            have := congrArg List.length hsplit
            simp only [List.length_append, hlen] at this
            omega
          obtain ⟨ih1, ih2⟩ := ih (s.drop w) fuel' hl1 hl2
          simp only
          refine ⟨by rw [hdrop, ih1], fun n hn => ?_⟩
          cases hk : nameLenU fuel (s.drop w) with
          | none => rw [hk] at hn; cases hn
          | some k =>
            rw [hk] at hn
            simp only [Option.map_some, Option.some.injEq] at hn
            subst hn
            obtain ⟨hk1, hk2⟩ := ih2 k hk
            simp only [List.length_drop] at hk1
            refine ⟨by omega, ?_⟩
            rw [hsplit, hk2, List.take_add, List.append_assoc, List.drop_drop]

/-! ### the structure of `extract` -/

/-- `rxExtractU` after the optional `{` has been looked at -/
def rxCore (brace : Bool) (s1 : Bytes) : Option (Option (Bytes × Bytes)) :=
  match nameLenU (s1.length + 1) s1 with
  | none => none
  | some n =>
    let name := s1.take n
    if name.isEmpty then some none else
    let r := s1.drop n
    if brace then
      match r with
      | b :: r' => if b == cRBrace then some (some (name, r')) else some none
      | [] => some none
    else some (some (name, r))

theorem rxExtractU_eq_core (s : Bytes) :
    rxExtractU s = match s with
      | b :: r => if b == cLBrace then rxCore true r else rxCore false (b :: r)
      | [] => rxCore false [] := by
  cases s with
  | nil => rfl
  | cons b r =>
    by_cases hb : (b == cLBrace) = true
    · simp only [rxExtractU, rxCore, hb, if_true]
      cases nameLenU (r.length + 1) r with
      | none => rfl
      | some n =>
        simp only
        split
        · rfl
        · cases List.drop n r <;> rfl
    · have hb' : (b == cLBrace) = false := by simpa using hb
      simp only [rxExtractU, rxCore, hb', Bool.false_eq_true, if_false]
      cases nameLenU ((b :: r).length + 1) (b :: r) <;> rfl

theorem rxCore_some (brace : Bool) (s1 name r : Bytes) (h : rxCore brace s1 = some (some (name, r))) :
    name ≠ [] ∧ ∃ pre, s1 = pre ++ r := by
  unfold rxCore at h
  split at h
  · cases h
  · rename_i n _
    simp only at h
    split at h
    · cases h
    · rename_i hne
      have hne' : s1.take n ≠ [] := by simpa using hne
      split at h
      · split at h
        · rename_i b r' hr
          split at h
          · rename_i hb
            simp only [Option.some.injEq, Prod.mk.injEq] at h
            obtain ⟨rfl, rfl⟩ := h
            refine ⟨hne', s1.take n ++ [b], ?_⟩
            rw [List.append_assoc, List.singleton_append, ← hr, List.take_append_drop]
          · cases h
        · cases h
      · simp only [Option.some.injEq, Prod.mk.injEq] at h
        obtain ⟨rfl, rfl⟩ := h
        exact ⟨hne', s1.take n, (List.take_append_drop n s1).symm⟩

/-- a successful `extract`: the name is non-empty and the rest is a suffix of the input -/
theorem rxExtractU_some (s name r : Bytes) (h : rxExtractU s = some (some (name, r))) :
    name ≠ [] ∧ ∃ pre, s = pre ++ r := by
  rw [rxExtractU_eq_core] at h
  cases s with
  | nil => exact rxCore_some _ _ _ _ h
  | cons b t =>
    simp only at h
    split at h
    · obtain ⟨h1, pre, h2⟩ := rxCore_some _ _ _ _ h
      exact ⟨h1, b :: pre, by rw [h2]; rfl⟩
    · exact rxCore_some _ _ _ _ h

theorem rxCore_escapePct (brace : Bool) (s1 : Bytes) :
    rxCore brace (escapePct s1) = (rxCore brace s1).map (Option.map fun p => (p.1, escapePct p.2)) := by
  unfold rxCore
  obtain ⟨h1, h2⟩ := nameLenU_escapePct (s1.length + 1) s1 ((escapePct s1).length + 1)
    (Nat.lt_succ_self _) (Nat.lt_succ_self _)
  rw [h1]
  cases hn : nameLenU (s1.length + 1) s1 with
  | none => rfl
  | some n =>
    obtain ⟨hle, hsplit⟩ := h2 n hn
    have hlen : (s1.take n).length = n := by simp [Nat.min_eq_left hle]
    have htake : (escapePct s1).take n = s1.take n := by rw [hsplit, List.take_left' hlen]
    have hdrop : (escapePct s1).drop n = escapePct (s1.drop n) := by rw [hsplit, List.drop_left' hlen]
    simp only [htake, hdrop]
    cases hemp : (s1.take n).isEmpty with
    | true => rfl
    | false =>
      simp only [Bool.false_eq_true, if_false]
      cases brace with
      | false => rfl
      | true =>
        simp only [if_true]
        cases hr : s1.drop n with
        | nil => rfl
        | cons b r' =>
          rcases escapePct_cons_cases b r' with ⟨rfl, h⟩ | ⟨hb, h⟩
          · rw [h]
            have : (cPct == cRBrace) = false := by decide
            simp [this]
          · rw [h]
            simp only
            cases (b == cRBrace) <;> rfl

/-- **`extract` commutes with `%`-escaping**: on the escaped text it is modelled / malformed / successful
    exactly when it is on the original, with the same name and the escaped rest. -/
theorem rxExtractU_escapePct (s : Bytes) :
    rxExtractU (escapePct s) = (rxExtractU s).map (Option.map fun p => (p.1, escapePct p.2)) := by
  rw [rxExtractU_eq_core s]
  cases s with
  | nil => exact (rxExtractU_eq_core _).trans (rxCore_escapePct false [])
  | cons b r =>
    rcases escapePct_cons_cases b r with ⟨rfl, h⟩ | ⟨hb, h⟩
    · have h0 : (cPct == cLBrace) = false := by decide
      simp only [h0, Bool.false_eq_true, if_false]
      rw [← rxCore_escapePct, h, rxExtractU_eq_core]
      simp only [h0, Bool.false_eq_true, if_false]
    · rw [h, rxExtractU_eq_core]
      simp only
      cases hl : (b == cLBrace) with
      | true => simp only [if_true]; exact rxCore_escapePct true r
      | false =>
        simp only [Bool.false_eq_true, if_false]
        rw [← h]; exact rxCore_escapePct false (b :: r)

end SE
