import SE.Spec.TemplateRefs
/-
Go's rune-wise reference-name scan (`nameRune`, `nameLenU`, `rxExtractU`: the model of `extract` in
regexp/regexp.go) against the ASCII name scan of the specification (`rxExtract`): they agree
whenever the byte after the ASCII name run is absent or ASCII (`asciiAfterName`).
-/
namespace SE

/-- word bytes are ASCII -/
theorem isWordByte_lt (b : UInt8) (h : isWordByte b = true) : b < 0x80 := by
  simp only [isWordByte, Bool.or_eq_true, Bool.and_eq_true, decide_eq_true_eq, beq_iff_eq] at h
  simp only [UInt8.le_iff_toNat_le, UInt8.lt_iff_toNat_lt, ← UInt8.toNat_inj] at h ⊢
  simp at h ⊢
  omega

/-- bytes from 0xC2 on are not ASCII -/
theorem not_ascii_of_ge (b : UInt8) (hb : 0xC2 ≤ b) : ¬ b < 0x80 := by
  simp only [UInt8.le_iff_toNat_le, UInt8.lt_iff_toNat_lt] at hb ⊢
  simp at hb ⊢
  omega

/-- on an ASCII byte `nameRune` is the byte class `[A-Za-z0-9_]` -/
theorem nameRune_ascii (b : UInt8) (h : b < 0x80) (r : Bytes) : nameRune (b :: r) = some (1, isWordByte b) := by
  simp [nameRune, h]

theorem nameRune_nil : nameRune [] = some (0, false) := rfl

/-- a lead byte of the modelled two-byte range followed by a continuation byte is a rune of width 2 -/
theorem nameRune_two (b c : UInt8) (r : Bytes) (hb : 0xC2 ≤ b ∧ b ≤ 0xC9) (hc : 0x80 ≤ c ∧ c ≤ 0xBF) :
    nameRune (b :: c :: r) = some (2, isLetterLatin ((b.toNat - 0xC0) * 64 + (c.toNat - 0x80))) := by
  have h1 : ¬ b < 0x80 := not_ascii_of_ge b hb.1
  simp [nameRune, h1, hb.1, hb.2, hc.1, hc.2]

/-- lead bytes 0xCA..0xF4 are not modelled -/
theorem nameRune_unmodelled (b : UInt8) (r : Bytes) (hb : 0xCA ≤ b ∧ b ≤ 0xF4) : nameRune (b :: r) = none := by
  have h1 : ¬ b < 0x80 := by
    have := hb.1
    simp only [UInt8.le_iff_toNat_le, UInt8.lt_iff_toNat_lt] at this ⊢
    simp at this ⊢
    omega
  have h2 : ¬ b ≤ 0xC9 := by
    have := hb.1
    simp only [UInt8.le_iff_toNat_le] at this ⊢
    simp at this ⊢
    omega
  simp [nameRune, h1, hb.1, hb.2, h2]

/-- **`nameLenU` on an ASCII-delimited name**: if the byte after the ASCII word run of `s` is absent
    or ASCII, the rune-wise scan stops exactly there. -/
theorem nameLenU_ascii : ∀ (s : Bytes) (fuel : Nat), s.length < fuel →
    (match s.dropWhile isWordByte with | [] => True | c :: _ => c < 0x80) →
    nameLenU fuel s = some (s.takeWhile isWordByte).length := by
  intro s
  induction s with
  | nil =>
    intro fuel hf _
    cases fuel with
    | zero => simp at hf
    | succ fuel => simp [nameLenU, nameRune]
  | cons b r ih =>
    intro fuel hf h
    cases fuel with
    | zero => simp at hf
    | succ fuel =>
      cases hw : isWordByte b with
      | true =>
        have hb := isWordByte_lt b hw
        simp only [List.dropWhile_cons, hw, if_true] at h
        have := ih fuel (by simpa using hf) h
        simp only [nameLenU, nameRune_ascii b hb r, hw, List.drop_succ_cons, List.drop_zero, this,
          List.takeWhile_cons, if_true, Option.map_some, List.length_cons]
        congr 1; omega
      | false =>
        simp only [List.dropWhile_cons, hw, Bool.false_eq_true, if_false] at h
        simp [nameLenU, nameRune_ascii b h r, hw]

theorem take_length_takeWhile (p : UInt8 → Bool) (s : Bytes) : s.take (s.takeWhile p).length = s.takeWhile p := by
  induction s with
  | nil => rfl
  | cons b r ih =>
    cases hp : p b with
    | true => simp [hp, ih]
    | false => simp [hp]

/-- **Bridging lemma**: if the byte after the ASCII word run of `s` (after the optional `{`) is absent
    or `< 0x80`, Go's `extract` is modelled and is the ASCII `rxExtract`. -/
theorem rxExtractU_eq_rxExtract (s : Bytes) (h : asciiAfterName s = true) : rxExtractU s = some (rxExtract s) := by
  have key : ∀ s1 : Bytes, (match s1.dropWhile isWordByte with | [] => true | c :: _ => decide (c < 0x80)) = true →
      nameLenU (s1.length + 1) s1 = some (s1.takeWhile isWordByte).length := by
    intro s1 h1
    apply nameLenU_ascii s1 _ (Nat.lt_succ_self _)
    cases e : s1.dropWhile isWordByte with
    | nil => trivial
    | cons c t => rw [e] at h1; simpa using h1
  unfold asciiAfterName at h
  unfold rxExtractU rxExtract
  cases s with
  | nil => simp [nameLenU, nameRune]
  | cons b r =>
    by_cases hb : (b == cLBrace) = true
    · simp only [hb, if_true] at h ⊢
      rw [key r h]
      simp only [take_length_takeWhile]
      cases (r.takeWhile isWordByte).isEmpty with
      | true => rfl
      | false =>
        simp only [Bool.false_eq_true, if_false]
        split
        · split <;> rfl
        · rfl
    · have hb' : (b == cLBrace) = false := by simpa using hb
      simp only [hb', Bool.false_eq_true, if_false] at h ⊢
      rw [key (b :: r) h]
      simp only [take_length_takeWhile]
      cases ((b :: r).takeWhile isWordByte).isEmpty <;> rfl

end SE
