import SE.Proofs.GlobOrdered
/-
Unordered mode on the level of one type root: with backtracking the *first* final state the
literal-first search reaches is the `moreSpecific`-minimal matching pattern.
Also: order-theoretic facts about `moreSpecific` and the "keep the more specific" fold of the spec.
-/
namespace SE
open SE.ListLemmas

/-! ### `moreSpecific` -/

theorem moreSpecific_cons (a b : Bytes) (as bs : Pat) :
    moreSpecific (a :: as) (b :: bs) =
      if a == starB && b != starB then false
      else if a != starB && b == starB then true
      else moreSpecific as bs := by
  simp [moreSpecific]

@[simp] theorem moreSpecific_nil_left (b : Pat) : moreSpecific [] b = false := by
  cases b <;> simp [moreSpecific]

@[simp] theorem moreSpecific_nil_right (a : Pat) : moreSpecific a [] = false := by
  cases a <;> simp [moreSpecific]

theorem moreSpecific_irrefl (a : Pat) : moreSpecific a a = false := by
  induction a with
  | nil => simp
  | cons x xs ih =>
    rw [moreSpecific_cons]
    cases h : (x == starB) <;> simp [bne, h, ih]

theorem moreSpecific_trans : ∀ (a b c : Pat),
    moreSpecific a b = true → moreSpecific b c = true → moreSpecific a c = true := by
  intro a
  induction a with
  | nil => intro b c h; simp at h
  | cons x xs ih =>
    intro b c hab hbc
    cases b with
    | nil => simp at hab
    | cons y ys =>
      cases c with
      | nil => simp at hbc
      | cons z zs =>
        rw [moreSpecific_cons] at hab hbc ⊢
        cases hx : (x == starB) <;> cases hy : (y == starB) <;> cases hz : (z == starB) <;>
          simp only [bne, hx, hy, hz, Bool.not_true, Bool.not_false, Bool.and_true, Bool.and_false,
            Bool.false_eq_true, if_true, if_false] at hab hbc ⊢ <;>
          first | exact ih _ _ hab hbc | cases hab | cases hbc | rfl

/-- two patterns that match one name and are not strictly ordered are equal -/
theorem moreSpecific_total : ∀ (a b n : Pat), globMatches a n = true → globMatches b n = true →
    moreSpecific a b = false → moreSpecific b a = false → a = b := by
  intro a
  induction a with
  | nil =>
    intro b n ha hb _ _
    cases n with
    | nil => cases b with
      | nil => rfl
      | cons _ _ => simp at hb
    | cons _ _ => simp at ha
  | cons x xs ih =>
    intro b n ha hb hab hba
    cases n with
    | nil => simp at ha
    | cons z zs =>
      cases b with
      | nil => simp at hb
      | cons y ys =>
        rw [globMatches_cons_cons, Bool.and_eq_true] at ha hb
        rw [moreSpecific_cons] at hab hba
        cases hx : (x == starB) <;> cases hy : (y == starB) <;>
          simp only [bne, hx, hy, Bool.not_true, Bool.not_false, Bool.and_true, Bool.and_false,
            Bool.false_eq_true, if_true, if_false,
            Bool.true_eq_false, Bool.false_or, Bool.true_or] at hab hba ha hb
        · have hxz : x = z := by simpa using ha.1
          have hyz : y = z := by simpa using hb.1
          rw [hxz, hyz, ih ys zs ha.2 hb.2 hab hba]
        · have hxz : x = starB := by simpa using hx
          have hyz : y = starB := by simpa using hy
          rw [hxz, hyz, ih ys zs ha.2 hb.2 hab hba]

/-! ### the spec's fold: keep the more specific candidate -/

/-- one step of the fold in `mostSpecificGlob`, for an arbitrary candidate type -/
def msStep {α} (pat : α → Pat) (best : Option α) (c : α) : Option α :=
  match best with
  | none => some c
  | some b => if moreSpecific (pat c) (pat b) then some c else some b

theorem foldl_msStep_init_or_mem {α} (pat : α → Pat) (l : List α) (init : Option α) :
    l.foldl (msStep pat) init = init ∨ ∃ a ∈ l, l.foldl (msStep pat) init = some a := by
  induction l generalizing init with
  | nil => exact Or.inl rfl
  | cons c l ih =>
    simp only [List.foldl_cons]
    rcases ih (msStep pat init c) with h | ⟨a, ha, h⟩
    · rw [h]
      cases init with
      | none => exact Or.inr ⟨c, List.mem_cons_self .., rfl⟩
      | some b =>
        simp only [msStep]
        split
        · exact Or.inr ⟨c, List.mem_cons_self .., rfl⟩
        · exact Or.inl rfl
    · exact Or.inr ⟨a, List.mem_cons_of_mem _ ha, h⟩

theorem foldl_msStep_keep {α} (pat : α → Pat) (l : List α) (w : α)
    (h : ∀ b ∈ l, moreSpecific (pat b) (pat w) = false) :
    l.foldl (msStep pat) (some w) = some w := by
  induction l with
  | nil => rfl
  | cons c l ih =>
    simp only [List.foldl_cons, msStep, h c (List.mem_cons_self ..), Bool.false_eq_true, if_false]
    exact ih (fun b hb => h b (List.mem_cons_of_mem _ hb))

/-- the fold returns `w` when `w` beats everything before it and nothing after it beats `w` -/
theorem foldl_msStep_winner {α} (pat : α → Pat) (as bs : List α) (w : α)
    (has : ∀ a ∈ as, moreSpecific (pat w) (pat a) = true)
    (hbs : ∀ b ∈ bs, moreSpecific (pat b) (pat w) = false) :
    (as ++ w :: bs).foldl (msStep pat) none = some w := by
  rw [List.foldl_append, List.foldl_cons]
  have h1 : msStep pat (as.foldl (msStep pat) none) w = some w := by
    rcases foldl_msStep_init_or_mem pat as none with h | ⟨a, ha, h⟩
    · rw [h]; rfl
    · rw [h]; simp [msStep, has a ha]
  rw [h1]; exact foldl_msStep_keep pat bs w hbs

/-- characterisation of the fold: a member that no member beats -/
theorem foldl_msStep_some {α} (pat : α → Pat) (l : List α) (b : α) :
    ∃ w, l.foldl (msStep pat) (some b) = some w ∧ (w = b ∨ w ∈ l) ∧
      (w = b ∨ moreSpecific (pat w) (pat b) = true) ∧
      moreSpecific (pat b) (pat w) = false ∧ ∀ c ∈ l, moreSpecific (pat c) (pat w) = false := by
  induction l generalizing b with
  | nil => exact ⟨b, rfl, Or.inl rfl, Or.inl rfl, moreSpecific_irrefl _, by simp⟩
  | cons c l ih =>
    simp only [List.foldl_cons, msStep]
    cases hcb : moreSpecific (pat c) (pat b)
    · simp only [Bool.false_eq_true, if_false]
      obtain ⟨w, h1, h2, h2', h3, h4⟩ := ih b
      refine ⟨w, h1, ?_, h2', h3, ?_⟩
      · rcases h2 with h2 | h2
        · exact Or.inl h2
        · exact Or.inr (List.mem_cons_of_mem _ h2)
      · intro d hd
        rcases List.mem_cons.mp hd with rfl | hd
        · rcases h2' with h2' | h2'
          · rw [h2']; exact hcb
          · cases hdw : moreSpecific (pat d) (pat w) with
            | false => rfl
            | true =>
              have := moreSpecific_trans _ _ _ hdw h2'
              rw [hcb] at this; cases this
        · exact h4 d hd
    · simp only [if_true]
      obtain ⟨w, h1, h2, h2', h3, h4⟩ := ih c
      refine ⟨w, h1, ?_, ?_, ?_, ?_⟩
      · rcases h2 with h2 | h2
        · exact Or.inr (h2 ▸ List.mem_cons_self ..)
        · exact Or.inr (List.mem_cons_of_mem _ h2)
      · rcases h2' with h2' | h2'
        · exact Or.inr (h2' ▸ hcb)
        · exact Or.inr (moreSpecific_trans _ _ _ h2' hcb)
      · cases hbw : moreSpecific (pat b) (pat w) with
        | false => rfl
        | true =>
          have := moreSpecific_trans _ _ _ hcb hbw
          rw [h3] at this; cases this
      · intro d hd
        rcases List.mem_cons.mp hd with rfl | hd
        · exact h3
        · exact h4 d hd

/-- the fold from `none`: `none` iff no candidate, else a member that no member beats -/
theorem foldl_msStep_none_iff {α} (pat : α → Pat) (l : List α) :
    l.foldl (msStep pat) none = none ↔ l = [] := by
  cases l with
  | nil => simp
  | cons c l =>
    simp only [List.foldl_cons, msStep]
    obtain ⟨w, h1, _⟩ := foldl_msStep_some pat l c
    simp [h1]

theorem foldl_msStep_min {α} (pat : α → Pat) (l : List α) (w : α)
    (h : l.foldl (msStep pat) none = some w) :
    w ∈ l ∧ ∀ c ∈ l, moreSpecific (pat c) (pat w) = false := by
  cases l with
  | nil => simp at h
  | cons c l =>
    simp only [List.foldl_cons, msStep] at h
    obtain ⟨w', h1, h2, _, h3, h4⟩ := foldl_msStep_some pat l c
    rw [h1] at h; cases h
    refine ⟨?_, ?_⟩
    · rcases h2 with h2 | h2
      · exact h2 ▸ List.mem_cons_self ..
      · exact List.mem_cons_of_mem _ h2
    · intro d hd
      rcases List.mem_cons.mp hd with rfl | hd
      · exact h3
      · exact h4 d hd

/-! ### the first final state reached is the most specific one -/

/-- Backtracking on: the first final state that `dfs` reaches is owned by a path that matches the
    remaining fields and that no other matching final path beats in `moreSpecific`. -/
theorem dfs_head_min (rs : TRules) :
    ∀ (fields : List Bytes) (p : Pat) (caps : List Bytes) (f0 : Found),
      (dfs rs true p caps fields).head? = some f0 →
      ∃ ext0, globMatches ext0 fields = true ∧ result rs (p ++ ext0) = some f0.rule ∧
        ∀ ext i, globMatches ext fields = true → result rs (p ++ ext) = some i →
          moreSpecific ext ext0 = false := by
  intro fields
  induction fields with
  | nil => intro p caps f0 h; simp [dfs] at h
  | cons fd rest ih =>
    intro p caps f0 h
    have hv : ∀ (q : Pat) (caps' : List Bytes), (dfsVisit rs true rest q caps').head? = some f0 →
        ∃ ext0, globMatches ext0 rest = true ∧ result rs (q ++ ext0) = some f0.rule ∧
          ∀ ext i, globMatches ext rest = true → result rs (q ++ ext) = some i →
            moreSpecific ext ext0 = false := by
      intro q caps' hf
      cases rest with
      | nil =>
        simp only [dfsVisit] at hf
        split at hf
        · rename_i r hr
          simp only [List.head?_cons, Option.some.injEq] at hf
          subst hf
          exact ⟨[], by simp, by simpa using hr, by intro ext i _ _; simp⟩
        · simp at hf
      | cons g rest' => exact ih q caps' f0 hf
    -- a matching final path below the literal child makes its visit non-empty
    have hlit_nonempty : ∀ ext' i, globMatches ext' rest = true → result rs (p ++ fd :: ext') = some i →
        dfsVisit rs true rest (p ++ [fd]) caps ≠ [] := by
      intro ext' i hm hr
      obtain ⟨c, hc⟩ := dfsVisit_complete rs rest (p ++ [fd]) caps ext' i hm (by simpa using hr)
      intro h0; rw [h0] at hc; simp at hc
    -- the star child
    have star : (dfsVisit rs true rest (p ++ [starB]) (caps ++ [fd])).head? = some f0 →
        (∀ ext' i, globMatches ext' rest = true → result rs (p ++ fd :: ext') = some i → fd = starB) →
        ∃ ext0, globMatches ext0 (fd :: rest) = true ∧ result rs (p ++ ext0) = some f0.rule ∧
          ∀ ext i, globMatches ext (fd :: rest) = true → result rs (p ++ ext) = some i →
            moreSpecific ext ext0 = false := by
      intro hf hnolit
      obtain ⟨ext0, h1, h2, h3⟩ := hv _ _ hf
      refine ⟨starB :: ext0, by simp [globMatches_cons_cons, h1], by simpa using h2, ?_⟩
      intro ext i hm hr
      cases ext with
      | nil => simp
      | cons c ext' =>
        rw [globMatches_cons_cons, Bool.and_eq_true] at hm
        rw [moreSpecific_cons]
        have hcs : c = starB := by
          rcases Bool.or_eq_true _ _ |>.mp hm.1 with hc | hc
          · simpa using hc
          · have hcf : c = fd := by simpa using hc
            rw [hcf]; rw [hcf] at hr
            exact hnolit ext' i hm.2 hr
        subst hcs
        simp only [bne, beq_self_eq_true, Bool.not_true, Bool.and_false, Bool.false_eq_true, if_false,
          Bool.false_and]
        exact h3 ext' i hm.2 (by simpa using hr)
    rw [dfs_cons] at h
    split at h
    · simp at h
    · split at h
      · rename_i hokf
        rw [List.head?_append] at h
        cases hA : (dfsVisit rs true rest (p ++ [fd]) caps).head? with
        | some a =>
          rw [hA] at h; simp only [Option.some_or, Option.some.injEq] at h
          subst h
          obtain ⟨ext0, h1, h2, h3⟩ := hv _ _ hA
          refine ⟨fd :: ext0, by simp [globMatches_cons_cons, h1], by simpa using h2, ?_⟩
          intro ext i hm hr
          cases ext with
          | nil => simp
          | cons c ext' =>
            rw [globMatches_cons_cons, Bool.and_eq_true] at hm
            rw [moreSpecific_cons]
            by_cases hcf : c = fd
            · subst hcf
              cases hcs : (c == starB) <;>
                simp only [bne, hcs, Bool.not_true, Bool.not_false, Bool.and_true, Bool.and_false,
                  Bool.false_eq_true, if_false]
              · exact h3 ext' i hm.2 (by simpa using hr)
              · exact h3 ext' i hm.2 (by simpa using hr)
            · have hcs : c = starB := by
                rcases Bool.or_eq_true _ _ |>.mp hm.1 with hc | hc
                · simpa using hc
                · exact absurd (by simpa using hc) hcf
              subst hcs
              have hfs : (fd == starB) = false := by
                simp only [beq_eq_false_iff_ne, ne_eq]; exact fun h => hcf h.symm
              simp [bne, hfs]
        | none =>
          rw [hA] at h; simp only [Option.none_or] at h
          have hAnil : dfsVisit rs true rest (p ++ [fd]) caps = [] := by
            cases hl : dfsVisit rs true rest (p ++ [fd]) caps with
            | nil => rfl
            | cons _ _ => rw [hl] at hA; simp at hA
          split at h
          · apply star h
            intro ext' i hm hr
            exact absurd hAnil (hlit_nonempty ext' i hm hr)
          · simp at h
      · rename_i hokf
        split at h
        · apply star h
          intro ext' i hm hr
          -- either the field is literally `*` (it then takes the wildcard transition), or the literal child fails
          cases hfs : (fd == starB) with
          | true => simpa using hfs
          | false =>
            have hmem := result_some_mem hr
            have := okChild_of_mem hmem
            rw [globMatches_length hm] at this
            exact absurd (by simp [bne, hfs, this]) hokf
        · simp at h

/-- Unordered mode, backtracking on, one type root: the final state found first belongs to a rule
    that matches, owns its node (is the first with its pattern), and whose pattern no matching
    rule of the root beats. -/
theorem unordered_pick_dfs (rs : TRules) (name : Pat) (f0 : Found)
    (h : pick false (dfs rs true [] [] name) = some f0) :
    ∃ pat, globMatches pat name = true ∧ result rs pat = some f0.rule ∧
      ∀ r ∈ rs, globMatches r.2 name = true → moreSpecific r.2 pat = false := by
  rw [pick_unordered] at h
  obtain ⟨ext0, h1, h2, h3⟩ := dfs_head_min rs name [] [] f0 h
  refine ⟨ext0, h1, by simpa using h2, ?_⟩
  rintro ⟨i, pat⟩ hr hm
  obtain ⟨j, hj⟩ := result_isSome_of_mem hr
  exact h3 pat j hm (by simpa using hj)

/-- Unordered mode, backtracking on: the search finds something iff some rule of the root matches. -/
theorem unordered_pick_none_iff (rs : TRules) (name : Pat) (hne : name ≠ []) :
    pick false (dfs rs true [] [] name) = none ↔ ∀ r ∈ rs, globMatches r.2 name = false := by
  rw [pick_unordered]
  constructor
  · intro h
    rintro ⟨i, pat⟩ hr
    cases hm : globMatches pat name with
    | false => rfl
    | true =>
      obtain ⟨j, hj⟩ := result_isSome_of_mem hr
      obtain ⟨c, hc, _⟩ := dfs_complete rs name [] [] pat j hne hm (by simpa using hj)
      rw [List.head?_eq_none_iff] at h
      rw [h] at hc; simp at hc
  · intro h
    have : rs.find? (fun r => globMatches r.2 name) = none := by
      rw [List.find?_eq_none]; intro x hx; simp [h x hx]
    rw [dfs_nil_of_no_match rs true name this]; rfl

end SE
