import SE.Proofs.SafetyGather
/-
Helper lemmas for C08/C03: the invariant `SuffixFree` (SE/Spec/Registry.lean) — no registered metric is
named like a companion series (`_sum`, `_count`, `_bucket`) of a registered observer. It holds of the empty
registry, is preserved by every `getOrCreate` that returns a registry (this is what the repaired
`checkObserverNameCollision` / `checkHistogramNameCollision` pair buys), by `updateSeries` and by the sweep,
hence by every history; and it implies that `checkSuffixCollisions` finds nothing among the statsd families.
-/
set_option linter.unusedSectionVars false
namespace SE
variable {V : Type} [NumOps V]

/-- the companion suffixes a family of this type exposes -/
def companionSfx : MType → List Bytes
  | .histogram => [sfxSum, sfxCount, sfxBucket]
  | .summary => [sfxSum, sfxCount]
  | _ => []

theorem companionSfx_spec (t : MType) (s : Bytes) (hs : s ∈ companionSfx t) :
    s ∈ [sfxBucket, sfxCount, sfxSum] ∧ s ≠ [] ∧ t ≠ .counter := by
  cases t with
  | counter => cases hs
  | gauge => cases hs
  | histogram =>
    simp only [companionSfx, List.mem_cons, List.not_mem_nil, or_false] at hs
    rcases hs with rfl | rfl | rfl <;> exact ⟨by simp, by decide, by decide⟩
  | summary =>
    simp only [companionSfx, List.mem_cons, List.not_mem_nil, or_false] at hs
    rcases hs with rfl | rfl <;> exact ⟨by simp, by decide, by decide⟩

/-! ### lookups and membership -/

theorem type?_some_of_mem {r : Reg V} (hw : RegWF r) {m : MetricM V} (hm : m ∈ r.metrics) :
    r.type? m.name = some m.ty := by
  unfold Reg.type?; rw [hw.find_of_mem hm]; rfl

theorem mem_of_type?_some {r : Reg V} {n : Bytes} {t : MType} (h : r.type? n = some t) :
    ∃ m, m ∈ r.metrics ∧ m.name = n ∧ m.ty = t := by
  unfold Reg.type? at h
  cases hf : r.find n with
  | none => rw [hf] at h; cases h
  | some m =>
    rw [hf] at h
    simp only [Option.map_some, Option.some.injEq] at h
    exact ⟨m, (mem_of_find hf).1, (mem_of_find hf).2, h⟩

theorem type?_none_iff (r : Reg V) (n : Bytes) : r.type? n = none ↔ ∀ m, m ∈ r.metrics → m.name ≠ n := by
  unfold Reg.type? Reg.find
  simp only [Option.map_eq_none_iff, List.find?_eq_none, beq_iff_eq]

/-! ### the two readings of `SuffixFree` -/

/-- `SuffixFree` with the suffix lists of `companionSfx` -/
theorem suffixFree_iff_sfx (r : Reg V) :
    SuffixFree r ↔ ∀ m, m ∈ r.metrics → ∀ m', m' ∈ r.metrics → ∀ s, s ∈ companionSfx m.ty → m'.name ≠ m.name ++ s := by
  constructor
  · intro h m hm m' hm' s hs
    obtain ⟨h1, h2⟩ := h m hm m' hm'
    cases hty : m.ty with
    | counter => rw [hty] at hs; cases hs
    | gauge => rw [hty] at hs; cases hs
    | histogram =>
      rw [hty] at hs
      simp only [companionSfx, List.mem_cons, List.not_mem_nil, or_false] at hs
      obtain ⟨a, b, c⟩ := h1 hty
      rcases hs with rfl | rfl | rfl
      · exact a
      · exact b
      · exact c
    | summary =>
      rw [hty] at hs
      simp only [companionSfx, List.mem_cons, List.not_mem_nil, or_false] at hs
      obtain ⟨a, b⟩ := h2 hty
      rcases hs with rfl | rfl
      · exact a
      · exact b
  · intro h m hm m' hm'
    have := h m hm m' hm'
    refine ⟨fun hty => ?_, fun hty => ?_⟩
    · rw [hty] at this
      exact ⟨this _ (by simp [companionSfx]), this _ (by simp [companionSfx]), this _ (by simp [companionSfx])⟩
    · rw [hty] at this
      exact ⟨this _ (by simp [companionSfx]), this _ (by simp [companionSfx])⟩

/-- the lookup reading: a companion name of a registered observer resolves to nothing -/
def SuffixFreeL (r : Reg V) : Prop :=
  ∀ n t, r.type? n = some t → ∀ s, s ∈ companionSfx t → r.type? (n ++ s) = none

theorem SuffixFreeL_of_suffixFree {r : Reg V} (h : SuffixFree r) : SuffixFreeL r := by
  rw [suffixFree_iff_sfx] at h
  intro n t ht s hs
  obtain ⟨m, hm, hn, hty⟩ := mem_of_type?_some ht
  subst hn; subst hty
  rw [type?_none_iff]
  intro m' hm'
  exact h m hm m' hm' s hs

theorem suffixFree_of_SuffixFreeL {r : Reg V} (hw : RegWF r) (h : SuffixFreeL r) : SuffixFree r := by
  rw [suffixFree_iff_sfx]
  intro m hm m' hm' s hs
  exact (type?_none_iff r _).mp (h m.name m.ty (type?_some_of_mem hw hm) s hs) m' hm'

theorem suffixFree_iff_lookup {r : Reg V} (hw : RegWF r) : SuffixFree r ↔ SuffixFreeL r :=
  ⟨SuffixFreeL_of_suffixFree, suffixFree_of_SuffixFreeL hw⟩

/-! ### preservation -/

theorem SuffixFree_empty (pre : List (Bytes × MType × Bytes)) : SuffixFree ({ metrics := [], pre := pre } : Reg V) :=
  fun _ h => by cases h

/-- `SuffixFree` only looks at the (name, type) pairs of the metric list, and fewer pairs are fine -/
theorem SuffixFree_of_sub {r r' : Reg V}
    (hsub : ∀ m', m' ∈ r'.metrics → ∃ m, m ∈ r.metrics ∧ m.name = m'.name ∧ m.ty = m'.ty)
    (h : SuffixFree r) : SuffixFree r' := by
  intro m1 hm1 m2 hm2
  obtain ⟨n1, hn1, e1, t1⟩ := hsub m1 hm1
  obtain ⟨n2, hn2, e2, _⟩ := hsub m2 hm2
  have := h n1 hn1 n2 hn2
  rw [e1, t1, e2] at this
  exact this

theorem SuffixFree_updateMetric {r : Reg V} (h : SuffixFree r) (name : Bytes) (f : MetricM V → MetricM V)
    (hf : ∀ m, (f m).name = m.name ∧ (f m).ty = m.ty) : SuffixFree (updateMetric r name f) := by
  refine SuffixFree_of_sub ?_ h
  intro m' hm'
  obtain ⟨m, hm, ⟨_, e⟩ | ⟨_, e⟩⟩ := mem_updateMetric hm'
  · subst e; exact ⟨m, hm, ((hf m).1).symm, ((hf m).2).symm⟩
  · subst e; exact ⟨m', hm, rfl, rfl⟩

theorem SuffixFree_updateSeries {r : Reg V} (h : SuffixFree r) (name : Bytes) (labels : Labels)
    (f : VecM V → Series V → Series V) : SuffixFree (updateSeries r name labels f) := by
  rw [updateSeries_eq]
  exact SuffixFree_updateMetric h name _ (fun _ => ⟨rfl, rfl⟩)

/-- the sweep removes series only: every metric entry stays, with its name and type — so `SuffixFree` is not
    merely preserved, it is the same statement before and after -/
theorem SuffixFree_sweep_iff (r : Reg V) (now : Int) : SuffixFree (r.sweep now) ↔ SuffixFree r := by
  constructor
  · refine SuffixFree_of_sub ?_
    intro m hm
    exact ⟨sweepMetric now m, by rw [sweep_metrics]; exact List.mem_map_of_mem hm, rfl, rfl⟩
  · refine SuffixFree_of_sub ?_
    intro m' hm'
    rw [sweep_metrics, List.mem_map] at hm'
    obtain ⟨m, hm, e⟩ := hm'
    subst e
    exact ⟨m, hm, rfl, rfl⟩

theorem SuffixFree_sweep {r : Reg V} (h : SuffixFree r) (now : Int) : SuffixFree (r.sweep now) :=
  (SuffixFree_sweep_iff r now).mpr h

/-- the sweep never removes a metric entry -/
theorem sweep_names_types (r : Reg V) (now : Int) :
    (r.sweep now).metrics.map (fun m => (m.name, m.ty)) = r.metrics.map (fun m => (m.name, m.ty)) := by
  rw [sweep_metrics, List.map_map]; rfl

theorem companion_false_sfx {r : Reg V} {ty : MType} {name : Bytes} (h : r.companion ty name = false) :
    r.histNameCollision name = false ∧ ∀ s, s ∈ companionSfx ty → r.type? (name ++ s) = none := by
  obtain ⟨h0, h1, h2⟩ := companion_false h
  refine ⟨h0, fun s hs => ?_⟩
  cases ty with
  | counter => cases hs
  | gauge => cases hs
  | histogram =>
    simp only [companionSfx, List.mem_cons, List.not_mem_nil, or_false] at hs
    obtain ⟨a, b, c⟩ := h1 rfl
    rcases hs with rfl | rfl | rfl
    · exact a
    · exact b
    · exact c
  | summary =>
    simp only [companionSfx, List.mem_cons, List.not_mem_nil, or_false] at hs
    obtain ⟨a, b⟩ := h2 rfl
    rcases hs with rfl | rfl
    · exact a
    · exact b

/-- **every `getOrCreate` that returns a registry preserves `SuffixFree`** (lookup reading; no well-formedness
    needed). Hit path: no name or type changes. Creation path, the new name `a.name` of type `ty`:
    * its own companion names are not registered — `checkObserverNameCollision` just verified that;
    * it is not a companion name of a registered observer `n` — then `checkHistogramNameCollision` would have
      found `n` registered with a type other than counter. -/
theorem SuffixFreeL_getOrCreate {r r' : Reg V} {ty : MType} {a : GetArgs V} {now : Int} (h : SuffixFreeL r)
    (hg : r.getOrCreate ty a now = .ok (.ok r')) : SuffixFreeL r' := by
  intro n t ht s hs
  obtain ⟨hsm, hsne, htc⟩ := companionSfx_spec t s hs
  have hne : n ++ s ≠ n := fun e => hsne (List.append_right_eq_self.mp e)
  rw [getOrCreate_type? hg n] at ht
  rw [getOrCreate_type? hg (n ++ s)]
  by_cases e1 : n = a.name
  · subst e1
    rw [if_pos rfl] at ht
    injection ht with ht
    subst ht
    rw [if_neg hne]
    rcases getOrCreate_ok_cases hg with ⟨hh, _⟩ | ⟨_, _, hcomp, _⟩
    · exact h _ ty ((isHit_iff r ty a).mp hh).1 s hs
    · exact (companion_false_sfx hcomp).2 s hs
  · rw [if_neg e1] at ht
    by_cases e2 : n ++ s = a.name
    · exfalso
      rcases getOrCreate_ok_cases hg with ⟨hh, _⟩ | ⟨_, _, hcomp, _⟩
      · have := h n t ht s hs
        rw [e2, ((isHit_iff r ty a).mp hh).1] at this
        cases this
      · have hc := (companion_false_sfx hcomp).1
        have : r.histNameCollision a.name = true :=
          (histNameCollision_iff r a.name).mpr ⟨s, hsm, n, e2.symm, t, ht, htc⟩
        rw [hc] at this; cases this
    · rw [if_neg e2]; exact h n t ht s hs

theorem SuffixFree_getOrCreate {r r' : Reg V} {ty : MType} {a : GetArgs V} {now : Int} (hw : RegWF r)
    (h : SuffixFree r) (hg : r.getOrCreate ty a now = .ok (.ok r')) : SuffixFree r' :=
  suffixFree_of_SuffixFreeL (RegWF_getOrCreate hw hg) (SuffixFreeL_getOrCreate (SuffixFreeL_of_suffixFree h) hg)

/-! ### along steps and histories -/

theorem SuffixFree_handleEvent {p p' : Pipe V} {rx : Rx} {ev : Ev V} {tags : Labels} (hw : RegWF p.reg)
    (hs : SuffixFree p.reg) (h : handleEvent p rx ev tags = some (.ok p')) : SuffixFree p'.reg := by
  by_cases ha : p'.counts.applied = p.counts.applied + 1
  · obtain ⟨c, pl, reg, ht, hg, e⟩ := handleEvent_applied h ha
    subst e
    simp only [appliedPipe]
    exact SuffixFree_updateSeries (SuffixFree_getOrCreate hw hs hg) _ _ _
  · rw [handleEvent_not_applied h ha]; exact hs

theorem SuffixFree_handleEvents {rx : Rx} {tags : Labels} (evs : List (Ev V)) :
    ∀ {p p' : Pipe V}, RegWF p.reg → SuffixFree p.reg → handleEvents p rx tags evs = some (.ok p') →
      RegWF p'.reg ∧ SuffixFree p'.reg := by
  induction evs with
  | nil =>
    intro p p' hw hs h
    simp only [handleEvents] at h; injection h with h; injection h with h; subst h; exact ⟨hw, hs⟩
  | cons e es ih =>
    intro p p' hw hs h
    simp only [handleEvents] at h
    split at h
    · cases h
    · cases h
    · rename_i p1 h1
      exact ih (RegWF_handleEvent hw h1) (SuffixFree_handleEvent hw hs h1) h

theorem SuffixFree_runOps (rx : Rx) (ops : List (PipeOp V)) :
    ∀ {p p' : Pipe V}, RegWF p.reg → SuffixFree p.reg → runOps rx p ops = some (.ok p') →
      RegWF p'.reg ∧ SuffixFree p'.reg := by
  induction ops with
  | nil => intro p p' hw hs h; simp only [runOps] at h; injection h with h; injection h with h; subst h; exact ⟨hw, hs⟩
  | cons op rest ih =>
    intro p p' hw hs h
    cases op with
    | line tags evs =>
      simp only [runOps] at h
      split at h
      · rename_i p1 h1
        obtain ⟨hw1, hs1⟩ := SuffixFree_handleEvents evs hw hs h1
        exact ih hw1 hs1 h
      · rename_i other hne
        cases ho : handleEvents p rx tags evs with
        | none => rw [ho] at h; cases h
        | some x =>
          cases x with
          | error pn => rw [ho] at h; injection h with h; cases h
          | ok p1 => exact absurd ho (hne p1)
    | sweep =>
      simp only [runOps] at h
      exact ih (p := { p with reg := p.reg.sweep p.now }) (RegWF_sweep hw p.now) (SuffixFree_sweep hs p.now) h
    | advance now => simp only [runOps] at h; exact ih (p := { p with now := now }) hw hs h
    | reload m => simp only [runOps] at h; exact ih (p := { p with mapper := m }) hw hs h

/-! ### the pre-registered families are never touched -/

theorem pre_handleEvent {p p' : Pipe V} {rx : Rx} {ev : Ev V} {tags : Labels}
    (h : handleEvent p rx ev tags = some (.ok p')) : p'.reg.pre = p.reg.pre := by
  by_cases ha : p'.counts.applied = p.counts.applied + 1
  · obtain ⟨c, pl, reg, ht, hg, e⟩ := handleEvent_applied h ha
    subst e
    simp only [appliedPipe]
    rw [(updateSeries_others reg _ _ _).2, (getOrCreate_others hg).2]
  · rw [handleEvent_not_applied h ha]

theorem pre_handleEvents {rx : Rx} {tags : Labels} (evs : List (Ev V)) :
    ∀ {p p' : Pipe V}, handleEvents p rx tags evs = some (.ok p') → p'.reg.pre = p.reg.pre := by
  induction evs with
  | nil => intro p p' h; simp only [handleEvents] at h; injection h with h; injection h with h; subst h; rfl
  | cons e es ih =>
    intro p p' h
    simp only [handleEvents] at h
    split at h
    · cases h
    · cases h
    · rename_i p1 h1
      rw [ih h, pre_handleEvent h1]

theorem pre_runOps (rx : Rx) (ops : List (PipeOp V)) :
    ∀ {p p' : Pipe V}, runOps rx p ops = some (.ok p') → p'.reg.pre = p.reg.pre := by
  induction ops with
  | nil => intro p p' h; simp only [runOps] at h; injection h with h; injection h with h; subst h; rfl
  | cons op rest ih =>
    intro p p' h
    cases op with
    | line tags evs =>
      simp only [runOps] at h
      split at h
      · rename_i p1 h1
        rw [ih h, pre_handleEvents evs h1]
      · rename_i other hne
        cases ho : handleEvents p rx tags evs with
        | none => rw [ho] at h; cases h
        | some x =>
          cases x with
          | error pn => rw [ho] at h; injection h with h; cases h
          | ok p1 => exact absurd ho (hne p1)
    | sweep => simp only [runOps] at h; exact ih (p := { p with reg := p.reg.sweep p.now }) h
    | advance now => simp only [runOps] at h; exact ih (p := { p with now := now }) h
    | reload m => simp only [runOps] at h; exact ih (p := { p with mapper := m }) h

/-- a registry without statsd metrics (whatever is pre-registered) is well-formed and suffix-free -/
theorem wf_suffixFree_of_no_metrics {r : Reg V} (h : r.metrics = []) : RegWF r ∧ SuffixFree r := by
  obtain ⟨metrics, pre⟩ := r
  simp only at h
  subst h
  exact ⟨RegWF_empty pre, SuffixFree_empty pre⟩

/-! ### the link to `Gather` -/

/-- `checkSuffixCollisions` finds nothing among (any selection of) the metrics of a suffix-free registry -/
theorem suffixCollision_of_suffixFree {r : Reg V} (h : SuffixFree r) (l : List (MetricM V))
    (hl : ∀ m, m ∈ l → m ∈ r.metrics) : suffixCollision (l.map fun m => (m.name, m.ty)) = false := by
  cases hc : suffixCollision (l.map fun m => (m.name, m.ty)) with
  | false => rfl
  | true =>
    exfalso
    unfold suffixCollision at hc
    rw [List.any_eq_true] at hc
    obtain ⟨⟨n, t⟩, hmem, hc⟩ := hc
    rw [List.mem_map] at hmem
    obtain ⟨m, hm, e⟩ := hmem
    simp only [Prod.mk.injEq] at e
    obtain ⟨en, et⟩ := e
    subst en; subst et
    cases hty : m.ty with
    | counter => rw [hty] at hc; cases hc
    | gauge => rw [hty] at hc; cases hc
    | histogram =>
      rw [hty] at hc
      simp only at hc
      rw [List.any_eq_true] at hc
      obtain ⟨⟨n', t'⟩, hmem', hc'⟩ := hc
      rw [List.mem_map] at hmem'
      obtain ⟨m', hm', e'⟩ := hmem'
      simp only [Prod.mk.injEq] at e'
      obtain ⟨en', _⟩ := e'
      subst en'
      obtain ⟨a, b, c⟩ := (h m (hl m hm) m' (hl m' hm')).1 hty
      simp only [Bool.or_eq_true, beq_iff_eq] at hc'
      rcases hc' with (hc' | hc') | hc'
      · exact b hc'
      · exact a hc'
      · exact c hc'
    | summary =>
      rw [hty] at hc
      simp only at hc
      rw [List.any_eq_true] at hc
      obtain ⟨⟨n', t'⟩, hmem', hc'⟩ := hc
      rw [List.mem_map] at hmem'
      obtain ⟨m', hm', e'⟩ := hmem'
      simp only [Prod.mk.injEq] at e'
      obtain ⟨en', _⟩ := e'
      subst en'
      obtain ⟨a, b⟩ := (h m (hl m hm) m' (hl m' hm')).2 hty
      simp only [Bool.or_eq_true, beq_iff_eq] at hc'
      rcases hc' with hc' | hc'
      · exact b hc'
      · exact a hc'

/-- the (name, type) pairs of the families a scrape collects are those of the metrics that have a series -/
theorem families_names_types (r : Reg V) :
    r.families.map (fun f => (f.name, f.ty)) = (r.metrics.filter (!·.series.isEmpty)).map fun m => (m.name, m.ty) := by
  unfold Reg.families
  induction r.metrics with
  | nil => rfl
  | cons m t ih =>
    rw [List.filterMap_cons, List.filter_cons]
    cases he : m.series.isEmpty with
    | true => simpa using ih
    | false => simpa using ih

/-- … in particular among the live statsd families, the ones `Gather` collects -/
theorem suffixCollision_live_of_suffixFree {r : Reg V} (h : SuffixFree r) :
    suffixCollision ((r.metrics.filter (!·.series.isEmpty)).map fun m => (m.name, m.ty)) = false :=
  suffixCollision_of_suffixFree h _ (fun _ hm => (List.mem_filter.mp hm).1)

/-- without pre-registered families these are all the families `Reg.gatherOk` checks -/
theorem suffixCollision_liveFams_of_suffixFree {r : Reg V} (h : SuffixFree r) (hpre : r.pre = []) :
    suffixCollision (liveFams r) = false := by
  unfold liveFams
  rw [hpre, List.map_nil, List.append_nil]
  exact suffixCollision_live_of_suffixFree h

/-- suffix-free and nothing pre-registered: `Gather` succeeds iff every live family has one help string -/
theorem gatherOk_of_suffixFree {r : Reg V} (h : SuffixFree r) (hpre : r.pre = []) :
    r.gatherOk = (r.metrics.filter (!·.series.isEmpty)).all helpConsistent := by
  have h3 := suffixCollision_live_of_suffixFree h
  unfold Reg.gatherOk
  simp only [hpre, List.map_nil, List.append_nil, h3, List.all_nil, Bool.not_false, Bool.and_true]
  cases (r.metrics.filter (!·.series.isEmpty)).all helpConsistent <;> simp

end SE
