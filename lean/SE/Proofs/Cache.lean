import SE.Spec.History
/-
Helper lemmas for C13 (the mapping cache is invisible) and C14 (reload is all-or-nothing).
-/
namespace SE
variable {A V : Type}

/-! ### the cache key -/

theorem strCounter_eq : strCounter = [99, 111, 117, 110, 116, 101, 114] := by with_unfolding_all decide
theorem strGauge_eq : strGauge = [103, 97, 117, 103, 101] := by with_unfolding_all decide
theorem strObserver_eq : strObserver = [111, 98, 115, 101, 114, 118, 101, 114] := by with_unfolding_all decide

/-- the type prefix of a key contains no `.` -/
def tyStr (t : Nat) : Bytes := match t with | 0 => strCounter | 1 => strGauge | _ => strObserver

theorem formatKey_eq (k : CKey) : formatKey k = tyStr k.1 ++ 46 :: k.2 := by
  unfold formatKey tyStr; rfl

theorem tyStr_no_dot (t : Nat) : (46 : UInt8) ∉ tyStr t := by
  unfold tyStr
  split <;> simp [strCounter_eq, strGauge_eq, strObserver_eq]

theorem tyStr_inj (a b : Nat) (ha : a < 3) (hb : b < 3) (h : tyStr a = tyStr b) : a = b := by
  have ha' : a = 0 ∨ a = 1 ∨ a = 2 := by omega
  have hb' : b = 0 ∨ b = 1 ∨ b = 2 := by omega
  rcases ha' with rfl | rfl | rfl <;> rcases hb' with rfl | rfl | rfl <;>
    simp [tyStr, strCounter_eq, strGauge_eq, strObserver_eq] at h ⊢

/-- splitting at the first occurrence of a separator is unambiguous -/
theorem append_sep_inj (sep : UInt8) :
    ∀ (a b c d : Bytes), sep ∉ a → sep ∉ c → a ++ sep :: b = c ++ sep :: d → a = c ∧ b = d := by
  intro a
  induction a with
  | nil =>
    intro b c d _ hc h
    cases c with
    | nil => simpa using h
    | cons x c => simp at h hc; exact absurd h.1 hc.1
  | cons x a ih =>
    intro b c d ha hc h
    cases c with
    | nil => simp at h ha; exact absurd h.1.symm ha.1
    | cons y c =>
      simp at h ha hc
      obtain ⟨h1, h2⟩ := ih b c d ha.2 hc.2 h.2
      exact ⟨by rw [h.1, h1], h2⟩

/-! ### `Cache` operations -/

theorem Cache.get_kind (c : Cache A) (k : CKey) : (c.get k).1.kind = c.kind := by
  unfold Cache.get; split
  · rfl
  · split <;> rfl
  · rfl

theorem Cache.get_size (c : Cache A) (k : CKey) : (c.get k).1.size = c.size := by
  unfold Cache.get; split
  · rfl
  · split <;> rfl
  · rfl

/-- `get` never invents entries: what is in the cache afterwards was in it before -/
theorem Cache.get_items_sub (c : Cache A) (k : CKey) :
    ∀ x, x ∈ (c.get k).1.items → x ∈ c.items := by
  intro x hx
  unfold Cache.get at hx
  split at hx
  · exact hx
  · split at hx
    · rename_i kv hf
      simp only [List.mem_cons] at hx
      rcases hx with rfl | hx
      · exact List.mem_of_find?_eq_some hf
      · exact (List.mem_filter.mp hx).1
    · exact hx
  · exact hx

/-- a hit returns a value that is stored in the cache under exactly that key -/
theorem Cache.get_some_mem (c : Cache A) (k : CKey) (a : A) (h : (c.get k).2 = some a) :
    (k, a) ∈ c.items := by
  unfold Cache.get at h
  have key : ∀ kv, c.items.find? (·.1 == k) = some kv → (k, kv.2) ∈ c.items := by
    intro kv hf
    have h1 := List.mem_of_find?_eq_some hf
    have h2 := List.find?_some hf
    simp at h2
    rw [← h2]; exact h1
  split at h
  · simp at h
  · split at h
    · rename_i kv hf
      simp at h; rw [← h]; exact key kv hf
    · simp at h
  · cases hf : c.items.find? (·.1 == k) with
    | none => simp [hf] at h
    | some kv => simp [hf] at h; rw [← h]; exact key kv hf

/-- a cache of kind 0 ("no cache") never hits -/
theorem Cache.get_kind0 (c : Cache A) (k : CKey) (h : c.kind = 0) : (c.get k).2 = none := by
  unfold Cache.get; simp [h]

theorem Cache.add_kind (c : Cache A) (k : CKey) (a : A) (ch : Nat) : (c.add k a ch).kind = c.kind := by
  unfold Cache.add; split
  · rfl
  · split <;> rfl
  · rfl

theorem Cache.add_size (c : Cache A) (k : CKey) (a : A) (ch : Nat) : (c.add k a ch).size = c.size := by
  unfold Cache.add; split
  · rfl
  · split <;> rfl
  · rfl

/-- `add` stores at most the new entry: everything else was there before (any kind, size, choice) -/
theorem Cache.add_items_sub (c : Cache A) (k : CKey) (a : A) (ch : Nat) :
    ∀ x, x ∈ (c.add k a ch).items → x = (k, a) ∨ x ∈ c.items := by
  intro x hx
  unfold Cache.add at hx
  split at hx
  · exact Or.inr hx
  · split at hx
    · simp only [List.mem_cons] at hx
      rcases hx with rfl | hx
      · exact Or.inl rfl
      · exact Or.inr (List.mem_filter.mp hx).1
    · simp only at hx
      split at hx
      · have := List.dropLast_subset _ hx
        simpa using this
      · simpa using hx
  · simp only at hx
    have hsub : x ∈ (k, a) :: c.items.filter (·.1 != k) := by
      split at hx
      · exact List.mem_of_mem_eraseIdx hx
      · exact hx
    simp only [List.mem_cons] at hsub
    rcases hsub with rfl | h
    · exact Or.inl rfl
    · exact Or.inr (List.mem_filter.mp h).1

theorem Cache.reset_items (c : Cache A) : c.reset.items = [] := rfl
theorem Cache.reset_kind (c : Cache A) : c.reset.kind = c.kind := rfl
theorem Cache.reset_size (c : Cache A) : c.reset.size = c.size := rfl

/-! ### structural invariant of the two real caches: keys are unique and the capacity is respected -/

/-- well-formedness of a cache value: no key is stored twice and, for a real cache, at most
    `size` entries are stored -/
structure Cache.WF (c : Cache A) : Prop where
  nodup : (c.items.map (·.1)).Nodup
  bound : c.kind ≠ 0 → c.items.length ≤ c.size

theorem nodup_keys_filter (l : List (CKey × A)) (p : CKey × A → Bool) (h : (l.map (·.1)).Nodup) :
    ((l.filter p).map (·.1)).Nodup :=
  List.Nodup.sublist (List.Sublist.map _ List.filter_sublist) h

theorem key_not_mem_filter (l : List (CKey × A)) (k : CKey) : k ∉ (l.filter (·.1 != k)).map (·.1) := by
  intro h
  obtain ⟨x, hx, rfl⟩ := List.mem_map.mp h
  have := (List.mem_filter.mp hx).2
  simp at this

theorem Cache.get_wf (c : Cache A) (k : CKey) (h : c.WF) : (c.get k).1.WF := by
  unfold Cache.get
  split
  · exact h
  · rename_i hk
    split
    · rename_i kv hf
      have hkv : kv.1 = k := by have := List.find?_some hf; simpa using this
      have hmem := List.mem_of_find?_eq_some hf
      refine ⟨?_, ?_⟩
      · simp only [List.map_cons, List.nodup_cons]
        exact ⟨by rw [hkv]; exact key_not_mem_filter _ _, nodup_keys_filter _ _ h.nodup⟩
      · intro _
        have hb := h.bound (by simp [hk])
        simp only [List.length_cons]
        -- the filter removes at least `kv`
        have hlt : (c.items.filter (·.1 != k)).length < c.items.length := by
          have hle := List.length_filter_le (fun x : CKey × A => x.1 != k) c.items
          rcases Nat.lt_or_ge (c.items.filter (·.1 != k)).length c.items.length with h' | h'
          · exact h'
          · exfalso
            have heq : (c.items.filter (·.1 != k)).length = c.items.length := by omega
            have := List.length_filter_eq_length_iff.mp heq kv hmem
            simp [hkv] at this
        omega
    · exact h
  · exact h

theorem Cache.add_wf (c : Cache A) (k : CKey) (a : A) (ch : Nat) (h : c.WF) : (c.add k a ch).WF := by
  unfold Cache.add
  split
  · exact h
  · rename_i hk
    have hb := h.bound (by simp [hk])
    split
    · rename_i hany
      obtain ⟨kv, hmem, hkv⟩ := List.any_eq_true.mp hany
      have hkv : kv.1 = k := by simpa using hkv
      refine ⟨?_, ?_⟩
      · simp only [List.map_cons, List.nodup_cons]
        exact ⟨key_not_mem_filter _ _, nodup_keys_filter _ _ h.nodup⟩
      · intro _
        simp only [List.length_cons]
        have hlt : (c.items.filter (·.1 != k)).length < c.items.length := by
          have hle := List.length_filter_le (fun x : CKey × A => x.1 != k) c.items
          rcases Nat.lt_or_ge (c.items.filter (·.1 != k)).length c.items.length with h' | h'
          · exact h'
          · exfalso
            have heq : (c.items.filter (·.1 != k)).length = c.items.length := by omega
            have := List.length_filter_eq_length_iff.mp heq kv hmem
            simp [hkv] at this
        omega
    · rename_i hany
      have hnot : k ∉ c.items.map (·.1) := by
        intro hm
        obtain ⟨x, hx, hxk⟩ := List.mem_map.mp hm
        exact hany (List.any_eq_true.mpr ⟨x, hx, by simp [hxk]⟩)
      have hnd : (((k, a) :: c.items).map (·.1)).Nodup := by
        simp only [List.map_cons, List.nodup_cons]; exact ⟨hnot, h.nodup⟩
      simp only
      split
      · refine ⟨List.Nodup.sublist (List.Sublist.map _ (List.dropLast_sublist _)) hnd, ?_⟩
        intro _; simp only [List.length_dropLast, List.length_cons]; omega
      · rename_i hgt
        exact ⟨hnd, fun _ => by simp only [List.length_cons] at hgt ⊢; omega⟩
  · rename_i hk0 hk1
    have hb := h.bound hk0
    have hnd : (((k, a) :: c.items.filter (·.1 != k)).map (·.1)).Nodup := by
      simp only [List.map_cons, List.nodup_cons]
      exact ⟨key_not_mem_filter _ _, nodup_keys_filter _ _ h.nodup⟩
    have hle := List.length_filter_le (fun x : CKey × A => x.1 != k) c.items
    simp only
    split
    · refine ⟨List.Nodup.sublist (List.Sublist.map _ (List.eraseIdx_sublist _ _)) hnd, ?_⟩
      intro _
      rw [List.length_eraseIdx]
      simp only [List.length_cons]
      split
      · omega
      · rename_i hlt; exfalso; apply hlt
        exact Nat.mod_lt _ (by simp)
    · rename_i hgt
      exact ⟨hnd, fun _ => by simp only [List.length_cons] at hgt ⊢; omega⟩

theorem Cache.reset_wf (c : Cache A) : c.reset.WF := ⟨by simp [Cache.reset], by simp [Cache.reset]⟩

/-- with unique keys the LRU's move-to-front is a pure reordering -/
theorem Cache.get_items_perm (c : Cache A) (k : CKey) (h : (c.items.map (·.1)).Nodup) :
    (c.get k).1.items.Perm c.items := by
  unfold Cache.get
  split
  · exact List.Perm.refl _
  · split
    · rename_i kv hf
      simp only
      have hkv : kv.1 = k := by have := List.find?_some hf; simpa using this
      -- generalise over the list
      have key : ∀ (l : List (CKey × A)), (l.map (·.1)).Nodup → l.find? (·.1 == k) = some kv →
          (kv :: l.filter (·.1 != k)).Perm l := by
        intro l
        induction l with
        | nil => intro _ hf; simp at hf
        | cons x l ih =>
          intro hnd hf
          simp only [List.map_cons, List.nodup_cons] at hnd
          by_cases hx : x.1 = k
          · have hxkv : x = kv := by simpa [List.find?_cons, hx] using hf
            subst hxkv
            have hfil : l.filter (·.1 != k) = l := by
              apply List.filter_eq_self.mpr
              intro y hy
              have : y.1 ≠ k := by
                intro e; apply hnd.1; rw [hx, ← e]; exact List.mem_map_of_mem hy
              simp [this]
            simp [hx, hfil]
          · have hf' : l.find? (·.1 == k) = some kv := by simpa [List.find?_cons, hx] using hf
            have := ih hnd.2 hf'
            simp only [List.filter_cons, bne_iff_ne, ne_eq, hx, not_false_eq_true, ↓reduceIte]
            exact (List.Perm.swap x kv _).trans (List.Perm.cons x this)
      exact key c.items h hf
    · exact List.Perm.refl _
  · exact List.Perm.refl _

/-! ### the cache law: a hit returns the most recently added value -/

theorem nodup_keys_unique (l : List (CKey × A)) (h : (l.map (·.1)).Nodup) (k : CKey) (a b : A)
    (ha : (k, a) ∈ l) (hb : (k, b) ∈ l) : a = b := by
  induction l with
  | nil => cases ha
  | cons x l ih =>
    simp only [List.map_cons, List.nodup_cons] at h
    simp only [List.mem_cons] at ha hb
    rcases ha with rfl | ha
    · rcases hb with hb | hb
      · exact (Prod.mk.inj hb).2.symm
      · exact absurd (List.mem_map_of_mem (f := (·.1)) hb) h.1
    · rcases hb with rfl | hb
      · exact absurd (List.mem_map_of_mem (f := (·.1)) ha) h.1
      · exact ih h.2 ha hb

/-- in a real cache with unique keys, a lookup hits exactly the stored entries -/
theorem Cache.get_some_iff (c : Cache A) (k : CKey) (a : A) (h : (c.items.map (·.1)).Nodup) (hk : c.kind ≠ 0) :
    (c.get k).2 = some a ↔ (k, a) ∈ c.items := by
  refine ⟨Cache.get_some_mem c k a, fun hm => ?_⟩
  have hf : ∃ kv, c.items.find? (·.1 == k) = some kv := by
    cases hfind : c.items.find? (·.1 == k) with
    | some kv => exact ⟨kv, rfl⟩
    | none =>
      have := List.find?_eq_none.mp hfind (k, a) hm
      simp at this
  obtain ⟨kv, hf⟩ := hf
  have hkv1 : kv.1 = k := by have := List.find?_some hf; simpa using this
  have hkvm := List.mem_of_find?_eq_some hf
  have hkv2 : kv.2 = a := by
    apply nodup_keys_unique c.items h k
    · rw [← hkv1]; exact hkvm
    · exact hm
  unfold Cache.get
  split
  · rename_i h0; exact absurd h0 hk
  · simp [hf, hkv2]
  · simp [hf, hkv2]

/-- after `add k a`, the only value stored under `k` is `a` (it may also have been evicted at once) -/
theorem Cache.add_items_key (c : Cache A) (k : CKey) (a v : A) (ch : Nat) (hk : c.kind ≠ 0)
    (hm : (k, v) ∈ (c.add k a ch).items) : v = a := by
  have hfil : (k, v) ∉ c.items.filter (·.1 != k) := by
    intro h; have := (List.mem_filter.mp h).2; simp at this
  unfold Cache.add at hm
  split at hm
  · rename_i h0; exact absurd h0 hk
  · split at hm
    · simp only [List.mem_cons] at hm
      rcases hm with h | h
      · exact (Prod.mk.inj h).2
      · exact absurd h hfil
    · rename_i hany
      have hnot : (k, v) ∉ c.items := by
        intro h; exact hany (List.any_eq_true.mpr ⟨(k, v), h, by simp⟩)
      simp only at hm
      have hsub : (k, v) ∈ (k, a) :: c.items := by
        split at hm
        · exact List.dropLast_subset _ hm
        · exact hm
      simp only [List.mem_cons] at hsub
      rcases hsub with h | h
      · exact (Prod.mk.inj h).2
      · exact absurd h hnot
  · simp only at hm
    have hsub : (k, v) ∈ (k, a) :: c.items.filter (·.1 != k) := by
      split at hm
      · exact List.mem_of_mem_eraseIdx hm
      · exact hm
    simp only [List.mem_cons] at hsub
    rcases hsub with h | h
    · exact (Prod.mk.inj h).2
    · exact absurd h hfil

/-! ### soundness of the cached mapper -/

/-- the C13 invariant: every entry of a real cache is the answer the current mapper object would
    give for that (type, name). For "no cache" (kind 0) nothing is required. -/
def CacheSound (rx : Rx) (m : CachedMapper V) : Prop :=
  m.cache.kind ≠ 0 → ∀ (k : CKey) (r : Option Mapped), (k, r) ∈ m.cache.items → r = m.st.lookup rx k.2 k.1

theorem cacheSound_of_empty (rx : Rx) (m : CachedMapper V) (h : m.cache.items = []) : CacheSound rx m := by
  intro _ k r hm; rw [h] at hm; cases hm

theorem cacheSound_of_kind0 (rx : Rx) (m : CachedMapper V) (h : m.cache.kind = 0) : CacheSound rx m := by
  intro h'; exact absurd h h'

/-- `get` preserves soundness (LRU: reorders; RR and none: unchanged) -/
theorem cacheSound_get (rx : Rx) (m : CachedMapper V) (k : CKey) (h : CacheSound rx m) :
    CacheSound rx { m with cache := (m.cache.get k).1 } := by
  intro hk k' r hm
  simp only at hk hm
  rw [Cache.get_kind] at hk
  exact h hk k' r (Cache.get_items_sub _ _ _ hm)

/-- `add k r` preserves soundness when `r` is the true answer for `k` (any kind, size, choice) -/
theorem cacheSound_add (rx : Rx) (m : CachedMapper V) (k : CKey) (ch : Nat) (h : CacheSound rx m) :
    CacheSound rx { m with cache := m.cache.add k (m.st.lookup rx k.2 k.1) ch } := by
  intro hk k' r hm
  simp only at hk hm
  rw [Cache.add_kind] at hk
  rcases Cache.add_items_sub _ _ _ _ _ hm with heq | hin
  · cases heq; rfl
  · exact h hk k' r hin

/-- one cached lookup: answers like the mapper object, leaves the mapper object alone, stays sound -/
theorem cached_lookup_spec (rx : Rx) (m : CachedMapper V) (name : Bytes) (ty ch : Nat) (h : CacheSound rx m) :
    (m.lookup rx name ty ch).2 = m.st.lookup rx name ty ∧
    (m.lookup rx name ty ch).1.st = m.st ∧
    CacheSound rx (m.lookup rx name ty ch).1 := by
  unfold CachedMapper.lookup
  simp only
  cases hg : (m.cache.get (ty, name)).2 with
  | some r =>
    simp only
    have hmem := Cache.get_some_mem _ _ _ hg
    have hk : m.cache.kind ≠ 0 := by
      intro h0; rw [Cache.get_kind0 _ _ h0] at hg; cases hg
    refine ⟨h hk (ty, name) r hmem, trivial, ?_⟩
    exact cacheSound_get rx m (ty, name) h
  | none =>
    simp only
    refine ⟨trivial, trivial, ?_⟩
    have h1 := cacheSound_get rx m (ty, name) h
    exact cacheSound_add rx { m with cache := (m.cache.get (ty, name)).1 } (ty, name) ch h1

theorem cached_lookup_kind (rx : Rx) (m : CachedMapper V) (name : Bytes) (ty ch : Nat) :
    (m.lookup rx name ty ch).1.cache.kind = m.cache.kind ∧
    (m.lookup rx name ty ch).1.cache.size = m.cache.size := by
  unfold CachedMapper.lookup
  simp only
  cases hg : (m.cache.get (ty, name)).2 with
  | some r => simp only; exact ⟨Cache.get_kind _ _, Cache.get_size _ _⟩
  | none =>
    simp only
    exact ⟨by rw [Cache.add_kind, Cache.get_kind], by rw [Cache.add_size, Cache.get_size]⟩

theorem cached_lookup_wf (rx : Rx) (m : CachedMapper V) (name : Bytes) (ty ch : Nat) (h : m.cache.WF) :
    (m.lookup rx name ty ch).1.cache.WF := by
  unfold CachedMapper.lookup
  simp only
  cases hg : (m.cache.get (ty, name)).2 with
  | some r => simp only; exact Cache.get_wf _ _ h
  | none => simp only; exact Cache.add_wf _ _ _ _ (Cache.get_wf _ _ h)

theorem cacheSound_reload (rx : Rx) (m : CachedMapper V) (l : Except LoadErr (Config V)) (h : CacheSound rx m) :
    CacheSound rx (m.reload l) := by
  cases l with
  | error e => exact h
  | ok n => exact cacheSound_of_empty rx _ rfl

theorem reload_st (m : CachedMapper V) (l : Except LoadErr (Config V)) :
    (m.reload l).st = m.st.step (.reload l) := by
  cases l <;> rfl

/-- the cached run and the cache-less run give the same answers -/
theorem runCached_eq_runPlain (rx : Rx) (ops : List (Op V)) :
    ∀ (m : CachedMapper V), CacheSound rx m → runCached rx m ops = runPlain rx m.st ops := by
  induction ops with
  | nil => intro m _; rfl
  | cons op ops ih =>
    intro m h
    cases op with
    | get name ty ch =>
      obtain ⟨h1, h2, h3⟩ := cached_lookup_spec rx m name ty ch h
      simp only [runCached, runPlain]
      rw [h1, ih _ h3, h2]
    | reload l =>
      simp only [runCached, runPlain]
      rw [ih _ (cacheSound_reload rx m l h), reload_st]

theorem runPlain_choice_irrelevant (rx : Rx) (ops1 : List (Op V)) :
    ∀ (ops2 : List (Op V)) (st : MState V), sameUpToChoices ops1 ops2 → runPlain rx st ops1 = runPlain rx st ops2 := by
  induction ops1 with
  | nil => intro ops2 st h; cases ops2 with
    | nil => rfl
    | cons _ _ => simp [sameUpToChoices] at h
  | cons o1 a ih =>
    intro ops2 st h
    cases ops2 with
    | nil => cases o1 with
      | get _ _ _ => simp [sameUpToChoices] at h
      | reload l => cases l <;> simp [sameUpToChoices] at h
    | cons o2 b =>
      cases o1 with
      | get n1 t1 c1 =>
        cases o2 with
        | get n2 t2 c2 =>
          simp only [sameUpToChoices] at h
          obtain ⟨rfl, rfl, h⟩ := h
          simp [runPlain, ih b st h]
        | reload l => cases l <;> simp [sameUpToChoices] at h
      | reload l1 =>
        cases o2 with
        | get _ _ _ => cases l1 <;> simp [sameUpToChoices] at h
        | reload l2 =>
          cases l1 with
          | error e1 =>
            cases l2 with
            | error e2 => simp only [sameUpToChoices] at h; simp [runPlain, MState.step, ih b st h]
            | ok _ => simp [sameUpToChoices] at h
          | ok c1 =>
            cases l2 with
            | error _ => simp [sameUpToChoices] at h
            | ok c2 =>
              simp only [sameUpToChoices] at h
              obtain ⟨rfl, h⟩ := h
              simp [runPlain, MState.step, ih b _ h]

end SE
