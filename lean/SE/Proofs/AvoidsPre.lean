import SE.Proofs.HelpUniform
/-
Helper lemmas for C03/C08: `Gather` next to pre-registered families. `AvoidsPre` (SE/Spec/Registry.lean) says that
a statsd metric stays clear of the families other collectors expose: not the same name, and no `_sum/_count/_bucket`
companion relation in either direction. `suffixCollision_iff` reads `checkSuffixCollisions` as "some family is named
like a companion series of some family"; splitting the families into the live statsd ones and the pre-registered ones
gives four cases — statsd/statsd (`SuffixFree`), pre/pre (the pre-registered families scrape fine by themselves),
and the two mixed ones (`AvoidsPre`) — hence `gatherOk_of_invariants_pre`: suffix-free, help-uniform, consistent
pre-registered families and every live statsd metric clear of them ⇒ `Gather` succeeds. The suffix clauses of
`AvoidsPre` are also necessary (`clear_of_companions_of_gatherOk`); the name clause is necessary up to the case
that type and help strings happen to agree.
-/
set_option linter.unusedSectionVars false
namespace SE
variable {V : Type} [NumOps V]

/-- `AvoidsPre`, read as a proposition -/
theorem avoidsPre_iff (pre : List (Bytes × MType × Bytes)) (name : Bytes) (ty : MType) :
    AvoidsPre pre name ty = true ↔
      ∀ p, p ∈ pre → p.1 ≠ name ∧ p.1 ∉ companionNames name ty ∧ name ∉ companionNames p.1 p.2.1 := by
  unfold AvoidsPre
  simp only [List.all_eq_true, Bool.and_eq_true, bne_iff_ne, Bool.not_eq_true', List.contains_eq_mem,
    decide_eq_false_iff_not, and_assoc]

/-- `checkSuffixCollisions` finds something iff some family is named like a companion series of some family -/
theorem suffixCollision_iff (fams : List (Bytes × MType)) :
    suffixCollision fams = true ↔ ∃ x, x ∈ fams ∧ ∃ y, y ∈ fams ∧ y.1 ∈ companionNames x.1 x.2 := by
  unfold suffixCollision
  rw [List.any_eq_true]
  constructor
  · rintro ⟨⟨n, t⟩, hx, h⟩
    refine ⟨(n, t), hx, ?_⟩
    cases t with
    | counter => cases h
    | gauge => cases h
    | histogram =>
      simp only [List.any_eq_true, Bool.or_eq_true, beq_iff_eq] at h
      obtain ⟨y, hy, h⟩ := h
      exact ⟨y, hy, by simp only [companionNames, List.mem_cons, List.not_mem_nil, or_false]; rcases h with (h | h) | h <;> simp [h]⟩
    | summary =>
      simp only [List.any_eq_true, Bool.or_eq_true, beq_iff_eq] at h
      obtain ⟨y, hy, h⟩ := h
      exact ⟨y, hy, by simp only [companionNames, List.mem_cons, List.not_mem_nil, or_false]; rcases h with h | h <;> simp [h]⟩
  · rintro ⟨⟨n, t⟩, hx, y, hy, h⟩
    refine ⟨(n, t), hx, ?_⟩
    cases t with
    | counter => cases h
    | gauge => cases h
    | histogram =>
      simp only [companionNames, List.mem_cons, List.not_mem_nil, or_false] at h
      simp only [List.any_eq_true, Bool.or_eq_true, beq_iff_eq]
      exact ⟨y, hy, by rcases h with h | h | h <;> simp [h]⟩
    | summary =>
      simp only [companionNames, List.mem_cons, List.not_mem_nil, or_false] at h
      simp only [List.any_eq_true, Bool.or_eq_true, beq_iff_eq]
      exact ⟨y, hy, by rcases h with h | h <;> simp [h]⟩


/-- in a suffix-free registry no metric is named like a companion series of a metric -/
theorem not_mem_companionNames_of_suffixFree {r : Reg V} (h : SuffixFree r) {m m' : MetricM V} (hm : m ∈ r.metrics)
    (hm' : m' ∈ r.metrics) : m'.name ∉ companionNames m.name m.ty := by
  intro hc
  obtain ⟨h1, h2⟩ := h m hm m' hm'
  cases hty : m.ty with
  | counter => rw [hty] at hc; cases hc
  | gauge => rw [hty] at hc; cases hc
  | histogram =>
    rw [hty] at hc
    obtain ⟨a, b, c⟩ := h1 hty
    simp only [companionNames, List.mem_cons, List.not_mem_nil, or_false] at hc
    rcases hc with hc | hc | hc
    · exact b hc
    · exact a hc
    · exact c hc
  | summary =>
    rw [hty] at hc
    obtain ⟨a, b⟩ := h2 hty
    simp only [companionNames, List.mem_cons, List.not_mem_nil, or_false] at hc
    rcases hc with hc | hc
    · exact b hc
    · exact a hc

/-- **`Gather` next to pre-registered families**: in a suffix-free, help-uniform registry (every registry a
    history reaches is such) whose pre-registered families are consistent among themselves (`hp`: the registry
    without statsd metrics scrapes fine, i.e. `checkSuffixCollisions` finds nothing among the pre-registered names)
    `Gather` succeeds as soon as every statsd metric *that has a series* stays clear of the pre-registered families. -/
theorem gatherOk_of_invariants_pre {r : Reg V} (hs : SuffixFree r) (hh : HelpUniform r)
    (hp : ({ metrics := [], pre := r.pre } : Reg V).gatherOk = true)
    (hav : ∀ m, m ∈ r.metrics → m.series.isEmpty = false → AvoidsPre r.pre m.name m.ty = true) :
    r.gatherOk = true := by
  rw [gatherOk_iff]
  refine ⟨fun m hm he => ⟨helpConsistent_of_helpUniform hh m hm, ?_⟩, ?_⟩
  · unfold preOk
    rw [List.all_eq_true]
    intro p hp'
    have hne := ((avoidsPre_iff _ _ _).mp (hav m hm he) p hp').1
    simp [hne]
  · cases hc : suffixCollision (liveFams r) with
    | false => rfl
    | true =>
      exfalso
      rw [gatherOk_empty_pre, Bool.not_eq_true'] at hp
      obtain ⟨x, hx, y, hy, hxy⟩ := (suffixCollision_iff _).mp hc
      simp only [liveFams, List.mem_append, List.mem_map, List.mem_filter, Bool.not_eq_true'] at hx hy
      rcases hx with ⟨m, ⟨hm, he⟩, ex⟩ | ⟨p, hp', ex⟩ <;> rcases hy with ⟨m', ⟨hm', he'⟩, ey⟩ | ⟨q, hq, ey⟩ <;>
        subst ex <;> subst ey
      · exact not_mem_companionNames_of_suffixFree hs hm hm' hxy
      · exact ((avoidsPre_iff _ _ _).mp (hav m hm he) q hq).2.1 hxy
      · exact ((avoidsPre_iff _ _ _).mp (hav m' hm' he') p hp').2.2 hxy
      · have : suffixCollision (r.pre.map fun p => (p.1, p.2.1)) = true :=
          (suffixCollision_iff _).mpr ⟨_, List.mem_map_of_mem hp', _, List.mem_map_of_mem hq, hxy⟩
        rw [hp] at this; cases this

/-- … in particular if every registered statsd metric, with or without series, stays clear of them -/
theorem gatherOk_of_invariants_pre_all {r : Reg V} (hs : SuffixFree r) (hh : HelpUniform r)
    (hp : ({ metrics := [], pre := r.pre } : Reg V).gatherOk = true)
    (hav : ∀ m, m ∈ r.metrics → AvoidsPre r.pre m.name m.ty = true) : r.gatherOk = true :=
  gatherOk_of_invariants_pre hs hh hp (fun m hm _ => hav m hm)

/-- the converse for the suffix clauses, on any registry: if `Gather` succeeds, every live statsd metric is clear
    of the companion names of every pre-registered family and vice versa; and a pre-registered family of the same
    name has the same type (and help string: second conjunct of `Reg.gatherOk`) -/
theorem clear_of_companions_of_gatherOk {r : Reg V} (h : r.gatherOk = true) {m : MetricM V} (hm : m ∈ r.metrics)
    (he : m.series.isEmpty = false) {p : Bytes × MType × Bytes} (hp : p ∈ r.pre) :
    p.1 ∉ companionNames m.name m.ty ∧ m.name ∉ companionNames p.1 p.2.1 ∧ (p.1 = m.name → p.2.1 = m.ty) := by
  rw [gatherOk_iff] at h
  obtain ⟨h1, h2⟩ := h
  have hml : (m.name, m.ty) ∈ liveFams r := by
    simp only [liveFams, List.mem_append, List.mem_map, List.mem_filter, Bool.not_eq_true']
    exact Or.inl ⟨m, ⟨hm, he⟩, rfl⟩
  have hpl : (p.1, p.2.1) ∈ liveFams r := by
    simp only [liveFams, List.mem_append, List.mem_map]
    exact Or.inr ⟨p, hp, rfl⟩
  refine ⟨fun hc => ?_, fun hc => ?_, fun hn => ?_⟩
  · rw [(suffixCollision_iff _).mpr ⟨_, hml, _, hpl, hc⟩] at h2; cases h2
  · rw [(suffixCollision_iff _).mpr ⟨_, hpl, _, hml, hc⟩] at h2; cases h2
  · have := (h1 m hm he).2
    unfold preOk at this
    rw [List.all_eq_true] at this
    have := this p hp
    simp only [hn, bne_self_eq_false, Bool.false_or, Bool.and_eq_true, beq_iff_eq] at this
    exact this.1

end SE
