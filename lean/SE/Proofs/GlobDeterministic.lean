import SE.Proofs.GlobUnordered
/-
The repaired `BacktrackingNeeded` flag: `TestIfNeedBacktracking(...) || FSM.HasAmbiguousTransitions()`.

When the trie of a type root is *not* ambiguous (`ambiguousAt rs = false`: no node has the `*` child
together with a literal child), the search is deterministic: at every node at most one child can be
entered, so the search without backtracking reaches the same first final state as the search with
backtracking. A metric field that is literally `*` is no exception: since repair 0275669 it is not
taken for the literal transition, both searches take the single wildcard branch for it (and record
the field as a capture), so the backtracking search never enters a child twice.
-/
namespace SE
open SE.ListLemmas

theorem mem_of_mem_zipIdx' {α} {l : List α} {x : α × Nat} (h : x ∈ l.zipIdx) : x.1 ∈ l :=
  List.mem_of_getElem? (List.mem_zipIdx_iff_getElem?.mp h)

/-! ### the rules found do not depend on the captures collected so far

(General facts about `dfs`; the key lemma below no longer needs them: before repair 0275669 a field that
was literally `*` made the backtracking search visit the `*` child twice with different captures.) -/

theorem dfs_map_rule_caps (rs : TRules) (bt : Bool) :
    ∀ (fields : List Bytes) (p : Pat) (caps caps' : List Bytes),
      (dfs rs bt p caps fields).map (·.rule) = (dfs rs bt p caps' fields).map (·.rule) := by
  intro fields
  induction fields with
  | nil => intro p caps caps'; simp [dfs]
  | cons fd rest ih =>
    intro p caps caps'
    have hv : ∀ (q : Pat) (c c' : List Bytes),
        (dfsVisit rs bt rest q c).map (·.rule) = (dfsVisit rs bt rest q c').map (·.rule) := by
      intro q c c'
      cases rest with
      | nil => simp only [dfsVisit]; cases result rs q <;> rfl
      | cons g rest' => exact ih q c c'
    rw [dfs_cons, dfs_cons]
    split
    · rfl
    · split
      · split
        · rw [List.map_append, List.map_append, hv _ caps caps', hv _ (caps ++ [fd]) (caps' ++ [fd])]
        · rw [List.map_append, List.map_append, hv _ caps caps']
      · split
        · exact hv _ _ _
        · rfl

theorem dfsVisit_map_rule_caps (rs : TRules) (bt : Bool) (rest : List Bytes) (q : Pat) (c c' : List Bytes) :
    (dfsVisit rs bt rest q c).map (·.rule) = (dfsVisit rs bt rest q c').map (·.rule) := by
  cases rest with
  | nil => simp only [dfsVisit]; cases result rs q <;> rfl
  | cons g rest' => exact dfs_map_rule_caps rs bt (g :: rest') q c c'

/-- whether a visit finds anything does not depend on the captures -/
theorem dfsVisit_nil_caps {rs : TRules} {bt : Bool} {rest : List Bytes} {q : Pat} {c : List Bytes}
    (c' : List Bytes) (h : dfsVisit rs bt rest q c = []) : dfsVisit rs bt rest q c' = [] := by
  have := dfsVisit_map_rule_caps rs bt rest q c c'
  rw [h] at this
  simpa using this.symm

/-! ### `ambiguousAt` -/

theorem exists_of_nodeExists {rs : TRules} {p : Pat} (h : nodeExists rs p = true) :
    ∃ r ∈ rs, p <+: r.2 := by
  simp only [nodeExists, Bool.not_eq_true', List.isEmpty_eq_false_iff] at h
  obtain ⟨r, hr⟩ := List.exists_mem_of_ne_nil _ h
  exact ⟨r, (mem_through.mp hr).1, (mem_through.mp hr).2⟩

/-- a node with the `*` child and a literal child makes the trie ambiguous -/
theorem ambiguousAt_of_children {rs : TRules} {p : Pat} {f : Bytes} {r1 r2 : Nat × Pat}
    (h1 : r1 ∈ rs) (h2 : r2 ∈ rs) (hp1 : (p ++ [starB]) <+: r1.2) (hp2 : (p ++ [f]) <+: r2.2)
    (hf : f ≠ starB) : ambiguousAt rs = true := by
  obtain ⟨t1, ht1⟩ := hp1
  obtain ⟨t2, ht2⟩ := hp2
  simp only [ambiguousAt, List.any_eq_true, List.mem_range, Bool.and_eq_true, beq_iff_eq,
    decide_eq_true_eq, bne_iff_ne, ne_eq]
  refine ⟨r1, h1, p.length, ?_, ?_, r2, h2, ⟨?_, ?_⟩, ?_⟩
  · rw [← ht1]; simp
  · rw [← ht1]; simp
  · rw [← ht1, ← ht2]; simp
  · rw [← ht2]; simp
  · rw [← ht2]; simp
    exact hf

/-- `ambiguousAt` only depends on the set of rules, monotonically -/
theorem ambiguousAt_mono {rs rs' : TRules} (hsub : ∀ r ∈ rs, r ∈ rs') (h : ambiguousAt rs = true) :
    ambiguousAt rs' = true := by
  simp only [ambiguousAt, List.any_eq_true] at h ⊢
  obtain ⟨r1, h1, k, hk, hand⟩ := h
  rw [Bool.and_eq_true] at hand
  obtain ⟨hs, r2, h2, hr2⟩ := by
    rw [List.any_eq_true] at hand
    exact hand
  exact ⟨r1, hsub _ h1, k, hk, by
    rw [Bool.and_eq_true, List.any_eq_true]
    exact ⟨hs, r2, hsub _ h2, hr2⟩⟩

/-- the node invariant of a non-ambiguous trie: a node that can be left through `*` can be left
    through no literal -/
theorem okChild_star_unique {rs : TRules} (hna : ambiguousAt rs = false) {p : Pat} {f : Bytes}
    {left left' : Nat} (h1 : okChild rs p f left = true) (h2 : okChild rs p starB left' = true) :
    f = starB := by
  simp only [okChild, Bool.and_eq_true] at h1 h2
  obtain ⟨r2, hr2, hp2⟩ := exists_of_nodeExists h1.1.1
  obtain ⟨r1, hr1, hp1⟩ := exists_of_nodeExists h2.1.1
  apply Classical.byContradiction
  intro hf
  rw [ambiguousAt_of_children hr1 hr2 hp1 hp2 hf] at hna
  cases hna

/-! ### the deterministic search -/

/-- **Key lemma of the repair.** In a non-ambiguous trie the search without backtracking reaches the
    same first final state (rule *and* captures) as the search with backtracking, from every node, with
    every capture prefix, for every list of remaining fields (also fields that are literally `*`). -/
theorem dfs_head_deterministic (rs : TRules) (hna : ambiguousAt rs = false) :
    ∀ (fields : List Bytes) (p : Pat) (caps : List Bytes),
      (dfs rs false p caps fields).head? = (dfs rs true p caps fields).head? := by
  intro fields
  induction fields with
  | nil => intro p caps; simp [dfs]
  | cons fd rest ih =>
    intro p caps
    have hv : ∀ (q : Pat) (c : List Bytes),
        (dfsVisit rs false rest q c).head? = (dfsVisit rs true rest q c).head? := by
      intro q c
      cases rest with
      | nil => rfl
      | cons g rest' => exact ih q c
    rw [dfs_cons, dfs_cons]
    simp only [Bool.false_and, Bool.true_and, Bool.false_eq_true, if_false, List.append_nil]
    split
    · rfl
    · split
      · rename_i hokf
        rw [Bool.and_eq_true] at hokf
        split
        · -- a literal child (`fd ≠ *`) together with the `*` child: impossible in a non-ambiguous trie
          rename_i hoks
          have hfd : fd = starB := okChild_star_unique hna hokf.2 hoks
          rw [hfd] at hokf
          simp at hokf
        · rw [List.append_nil]; exact hv _ _
      · split
        · exact hv _ _
        · rfl

/-- unordered mode, one type root, non-ambiguous trie: the heuristic's answer does not matter -/
theorem pick_dfs_deterministic (rs : TRules) (hna : ambiguousAt rs = false) (name : Pat) :
    pick false (dfs rs false [] [] name) = pick false (dfs rs true [] [] name) := by
  rw [pick_unordered, pick_unordered]
  exact dfs_head_deterministic rs hna name [] []

/-- in a non-ambiguous trie the flag is irrelevant for the first final state -/
theorem pick_dfs_bt_irrelevant (rs : TRules) (hna : ambiguousAt rs = false) (bt : Bool) (name : Pat) :
    pick false (dfs rs bt [] [] name) = pick false (dfs rs true [] [] name) := by
  cases bt with
  | true => rfl
  | false => exact pick_dfs_deterministic rs hna name

/-! ### from the whole rule list to one type root -/

theorem mem_rulesFor {rules : List GRule} {ty : Nat} {x : Nat × Pat} :
    x ∈ rulesFor rules ty ↔
      ∃ y ∈ rules.zipIdx, (y.1.ty.isNone || y.1.ty == some ty) = true ∧ (y.2, y.1.pat) = x := by
  simp only [rulesFor, List.mem_map, List.mem_filter]
  constructor
  · rintro ⟨y, ⟨h1, h2⟩, h3⟩; exact ⟨y, h1, h2, h3⟩
  · rintro ⟨y, h1, h2, h3⟩; exact ⟨y, ⟨h1, h2⟩, h3⟩

/-- a type that no rule names has the untyped rules only, and these are under every root -/
theorem rulesFor_sub_of_untyped {rules : List GRule} {ty : Nat} (hty : ty ∉ rules.filterMap GRule.ty)
    (ty' : Nat) : ∀ x ∈ rulesFor rules ty, x ∈ rulesFor rules ty' := by
  intro x hx
  rw [mem_rulesFor] at hx ⊢
  obtain ⟨y, hy, hyt, hyx⟩ := hx
  refine ⟨y, hy, ?_, hyx⟩
  cases ht : y.1.ty with
  | none => rfl
  | some t =>
    exfalso
    rw [ht] at hyt
    have hte : t = ty := by simpa using hyt
    apply hty
    rw [List.mem_filterMap]
    exact ⟨y.1, mem_of_mem_zipIdx' hy, by rw [ht, hte]⟩

/-- `HasAmbiguousTransitions = false` says that *every* type root is non-ambiguous: the roots the
    rules name are inspected directly, every other type sees a subset of root 0 -/
theorem ambiguousAt_rulesFor_of_not_ambiguous {rules : List GRule} (h : ambiguous rules = false) (ty : Nat) :
    ambiguousAt (rulesFor rules ty) = false := by
  simp only [ambiguous, List.any_eq_false] at h
  by_cases hmem : ty ∈ [0, 1, 2] ++ rules.filterMap GRule.ty
  · simpa using h ty hmem
  · have h0 := h 0 (by simp)
    cases hA : ambiguousAt (rulesFor rules ty) with
    | false => rfl
    | true =>
      exfalso
      apply h0
      apply ambiguousAt_mono _ hA
      exact rulesFor_sub_of_untyped (fun hc => hmem (List.mem_append_right _ hc)) 0

/-- **`FSM.GetMapping` in unordered mode after the repair**: whatever the heuristic answers, the lookup
    returns the first final state of the backtracking search. -/
theorem globLookup_unordered (rules : List GRule) (name : Pat) (ty : Nat) :
    globLookup rules true name ty = pick false (dfs (rulesFor rules ty) true [] [] name) := by
  simp only [globLookup, Bool.not_true]
  cases hb : backtracking rules true with
  | true => rfl
  | false =>
    simp only [backtracking, Bool.or_eq_false_iff] at hb
    exact pick_dfs_deterministic _ (ambiguousAt_rulesFor_of_not_ambiguous hb.2 ty) name

end SE
