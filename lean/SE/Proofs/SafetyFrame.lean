import SE.Proofs.SafetyPipe
import SE.Proofs.RegistryLabels
import SE.Proofs.RegistryCounter
/-
Helper lemmas for C02: the frame properties of one `handleEvent` step lifted to all events of a
line (`handleEvents`): which series a line may touch, and that everything else — types, vectors,
all other series, the mapper, the clock — stays as it was.
-/
set_option linter.unusedSectionVars false
namespace SE
variable {V : Type} [NumOps V]

/-- the series (metric name, sorted label set) an event addresses in the registry, if it reaches it.
    A function of the mapper, the regex oracle, the event and the line's tags only (`evAddr_congr`). -/
def evAddr (p : Pipe V) (rx : Rx) (ev : Ev V) (tags : Labels) : Option (Bytes × Labels) :=
  (evTarget p rx ev tags).map fun cp => (cp.2.2.1.name, cp.2.2.1.labels)

theorem evAddr_congr (p q : Pipe V) (hm : p.mapper = q.mapper) (rx : Rx) (ev : Ev V) (tags : Labels) :
    evAddr p rx ev tags = evAddr q rx ev tags := by
  have h := congrArg (Option.map fun (pl : Plan V) => (pl.2.1.name, pl.2.1.labels)) (evTarget_congr p q hm rx ev tags)
  simp only [Option.map_map] at h
  exact h

/-- one of the events of the line addresses the series `(name, L)` -/
def LineAddresses (p : Pipe V) (rx : Rx) (tags : Labels) (evs : List (Ev V)) (name : Bytes) (L : Labels) : Prop :=
  ∃ e, e ∈ evs ∧ evAddr p rx e tags = some (name, L)

/-- one step: a series the event does not address is untouched -/
theorem handleEvent_series_frame {p p' : Pipe V} {rx : Rx} {ev : Ev V} {tags : Labels}
    (h : handleEvent p rx ev tags = some (.ok p')) (name : Bytes) (L : Labels)
    (hne : evAddr p rx ev tags ≠ some (name, L)) : p'.reg.series? name L = p.reg.series? name L := by
  by_cases ha : p'.counts.applied = p.counts.applied + 1
  · obtain ⟨c, pl, reg, ht, hg, e⟩ := handleEvent_applied h ha
    subst e
    refine applied_series_frame (evTarget_keeps ht) hg name L ?_
    rintro ⟨e1, e2⟩
    apply hne
    unfold evAddr
    rw [ht, e1, e2]; rfl
  · rw [handleEvent_not_applied h ha]

theorem handleEvent_vec_keep {p p' : Pipe V} {rx : Rx} {ev : Ev V} {tags : Labels}
    (h : handleEvent p rx ev tags = some (.ok p')) (name : Bytes) (names : List Bytes) (v : VecM V)
    (hv : p.reg.vec? name names = some v) : p'.reg.vec? name names = some v := by
  by_cases ha : p'.counts.applied = p.counts.applied + 1
  · obtain ⟨c, pl, reg, _, hg, e⟩ := handleEvent_applied h ha
    subst e; exact applied_vec_keep hg name names v hv
  · rw [handleEvent_not_applied h ha]; exact hv

/-- **frame of a whole line**: types and vectors are kept, every series no event of the line addresses
    is the same record as before, mapper and clock are unchanged -/
theorem handleEvents_frame {rx : Rx} {tags : Labels} (evs : List (Ev V)) :
    ∀ {p p' : Pipe V}, handleEvents p rx tags evs = some (.ok p') →
      p'.mapper = p.mapper ∧ p'.now = p.now ∧
      (∀ name t, p.reg.type? name = some t → p'.reg.type? name = some t) ∧
      (∀ name names v, p.reg.vec? name names = some v → p'.reg.vec? name names = some v) ∧
      (∀ name L, ¬ LineAddresses p rx tags evs name L → p'.reg.series? name L = p.reg.series? name L) := by
  induction evs with
  | nil =>
    intro p p' h
    simp only [handleEvents] at h
    injection h with h; injection h with h; subst h
    exact ⟨rfl, rfl, fun _ _ h => h, fun _ _ _ h => h, fun _ _ _ => rfl⟩
  | cons e es ih =>
    intro p p' h
    simp only [handleEvents] at h
    split at h
    · cases h
    · cases h
    · rename_i p1 h1
      obtain ⟨k1, k2⟩ := handleEvent_keeps h1
      obtain ⟨i1, i2, i3, i4, i5⟩ := ih h
      refine ⟨by rw [i1, k1], by rw [i2, k2],
        fun name t ht => i3 name t (handleEvent_type_keep h1 name t ht),
        fun name names v hv => i4 name names v (handleEvent_vec_keep h1 name names v hv),
        fun name L hna => ?_⟩
      rw [i5 name L, handleEvent_series_frame h1 name L]
      · intro hadd
        exact hna ⟨e, List.mem_cons_self .., hadd⟩
      · rintro ⟨e', he', hadd⟩
        refine hna ⟨e', List.mem_cons_of_mem _ he', ?_⟩
        rw [← evAddr_congr p1 p k1]; exact hadd

/-- the request any later event gets is the one it would have got without the line -/
theorem handleEvents_request_frame {rx : Rx} {tags : Labels} (evs : List (Ev V)) :
    ∀ {p p' : Pipe V}, handleEvents p rx tags evs = some (.ok p') → ∀ (evB : Ev V) (tagsB : Labels),
      (evTarget p' rx evB tagsB).map (·.2) = (evTarget p rx evB tagsB).map (·.2) := by
  intro p p' h evB tagsB
  exact evTarget_congr p' p (handleEvents_frame evs h).1 rx evB tagsB

end SE
