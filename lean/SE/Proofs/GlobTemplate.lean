import SE.Proofs.Template
/-
C11, glob side: `NewTemplateFormatter` / `Format` (`compileTemplate` / `Formatter.format`) compute the
documented expansion `expandSpec` — for EVERY template (since the repair a7bcc3e the formatter has
`regexp.Expand`'s reference syntax; before, this was provable only under the guard `SafeTemplate`).

The formatter escapes `%`, scans the escaped template once (`substRefs`) and leaves the rest to
`Sprintf`; the specification scans the template itself. The proof is a parallel induction over the two
scans:
  * `extract` does not see the escaping (`rxExtractU_escapePct`, SE/Proofs/NameRune.lean), so both scans
    make the same case distinction at every `$` (`$$`, unmodelled / malformed / well-formed reference,
    number or name);
  * where the specification copies a byte the formatter copies it into the format string — `%` doubled —
    and `Sprintf` gives it back (`agrees_plain`, `agrees_pct`); where the specification puts a capture
    the formatter puts `%s` and records the index, and `Sprintf` puts the capture (`agrees_ref`);
    references to captures the rule does not have (`idx > captureCount`) vanish on the formatter's side
    and must be empty on the specification's side: this is the only hypothesis, `hrel`;
  * the flag "a reference or `$$` was seen" only chooses between `Sprintf` and returning the template as
    it is: when nothing was seen the specification returns the template too (second half of `Agrees`).
Fuels: the formatter's scan runs on the escaped template, the specification's on the template; the
induction is stated for arbitrary sufficient fuels (`substRefs_agrees`).
-/
namespace SE

/-! ### `Sprintf`, read from the front -/

theorem sprintfS_cons_plain (b : UInt8) (rest : Bytes) (args : List Bytes) (hb : (b == cPct) = false) :
    sprintfS (b :: rest) args = (sprintfS rest args).map (b :: ·) := by
  rw [sprintfS.eq_def]; simp [hb]

theorem sprintfS_pct_pct (R : Bytes) (args : List Bytes) :
    sprintfS (cPct :: cPct :: R) args = (sprintfS R args).map (cPct :: ·) := by
  rw [sprintfS.eq_def]
  have : (cPct == (115 : UInt8)) = false := by decide
  simp [this]

theorem sprintfS_pct_s (R a : Bytes) (as : List Bytes) :
    sprintfS (cPct :: 115 :: R) (a :: as) = (sprintfS R as).map (a ++ ·) := by
  rw [sprintfS.eq_def]; simp

/-- `Sprintf` un-escapes an escaped literal, whatever the arguments (it consumes none) -/
theorem sprintfS_escapePct : ∀ (l rest : Bytes) (args : List Bytes),
    sprintfS (escapePct l ++ rest) args = (sprintfS rest args).map (l ++ ·) := by
  intro l
  induction l with
  | nil => intro rest args; simp [escapePct]
  | cons b l ih =>
    intro rest args
    by_cases hb : (b == cPct) = true
    · have hbe : b = cPct := by simpa using hb
      subst hbe
      rw [escapePct_cons_pct, List.cons_append, List.cons_append, sprintfS_pct_pct, ih rest args]
      cases sprintfS rest args <;> simp
    · have hb' : (b == cPct) = false := by simpa using hb
      rw [escapePct_cons_plain b l hb', List.cons_append, sprintfS_cons_plain _ _ _ hb', ih rest args]
      cases sprintfS rest args <;> simp

/-! ### one step of the formatter's scan -/

/-- what the formatter makes of a well-formed reference `name`, given the result for the rest -/
def refStep (n : Nat) (name : Bytes) (o : Bytes × List Nat × Bool) : Bytes × List Nat × Bool :=
  match rxNum name with
  | some idx =>
    if idx > n || idx < 1 then (o.1, o.2.1, true)
    else ([cPct, 115] ++ o.1, (idx - 1) :: o.2.1, true)
  | none => (o.1, o.2.1, true)

theorem substRefs_nil (n fuel : Nat) : substRefs n fuel [] = some ([], [], false) := by
  cases fuel <;> rfl

theorem substRefs_cons_plain (n fuel : Nat) (b : UInt8) (rest : Bytes) (hb : (b == cDollar) = false) :
    substRefs n (fuel + 1) (b :: rest) = (substRefs n fuel rest).map fun o => (b :: o.1, o.2.1, o.2.2) := by
  simp only [substRefs, hb, Bool.false_eq_true, if_false]

theorem substRefs_dollar_end (n fuel : Nat) :
    substRefs n (fuel + 1) [cDollar] = some ([cDollar], [], false) := by
  have h0 : (cDollar == cDollar) = true := by decide
  simp only [substRefs, h0, if_true]

theorem substRefs_dollar_dollar (n fuel : Nat) (r : Bytes) :
    substRefs n (fuel + 1) (cDollar :: cDollar :: r) =
      (substRefs n fuel r).map fun o => (cDollar :: o.1, o.2.1, true) := by
  have h0 : (cDollar == cDollar) = true := by decide
  simp only [substRefs, h0, if_true]

theorem substRefs_dollar_none (n fuel : Nat) (c : UInt8) (X : Bytes) (hc : (c == cDollar) = false)
    (hx : rxExtractU (c :: X) = none) : substRefs n (fuel + 1) (cDollar :: c :: X) = none := by
  have h0 : (cDollar == cDollar) = true := by decide
  simp only [substRefs, h0, hc, hx, if_true, Bool.false_eq_true, if_false]

theorem substRefs_dollar_malformed (n fuel : Nat) (c : UInt8) (X : Bytes) (hc : (c == cDollar) = false)
    (hx : rxExtractU (c :: X) = some none) :
    substRefs n (fuel + 1) (cDollar :: c :: X) =
      (substRefs n fuel (c :: X)).map fun o => (cDollar :: o.1, o.2.1, o.2.2) := by
  have h0 : (cDollar == cDollar) = true := by decide
  simp only [substRefs, h0, hc, hx, if_true, Bool.false_eq_true, if_false]

theorem substRefs_dollar_name (n fuel : Nat) (c : UInt8) (X name r : Bytes) (hc : (c == cDollar) = false)
    (hx : rxExtractU (c :: X) = some (some (name, r))) :
    substRefs n (fuel + 1) (cDollar :: c :: X) = (substRefs n fuel r).map (refStep n name) := by
  have h0 : (cDollar == cDollar) = true := by decide
  simp only [substRefs, h0, hc, hx, if_true, Bool.false_eq_true, if_false]
  cases substRefs n fuel r with
  | none => rfl
  | some o =>
    simp only [Option.map_some, refStep]
    cases rxNum name <;> rfl

/-! ### one step of the specification's scan -/

/-- what the specification puts for a well-formed reference `name` -/
def specSub (caps : List Bytes) (name : Bytes) : Bytes :=
  match rxNum name with
  | some n => if n ≥ 1 then caps.getD (n - 1) [] else []
  | none => []

theorem expandSpec_nil (caps : List Bytes) (fuel : Nat) : expandSpec caps fuel [] = some [] := by
  cases fuel <;> rfl

theorem expandSpec_cons_plain (caps : List Bytes) (fuel : Nat) (b : UInt8) (rest : Bytes)
    (hb : (b == cDollar) = false) :
    expandSpec caps (fuel + 1) (b :: rest) = (expandSpec caps fuel rest).map (b :: ·) := by
  simp only [expandSpec, hb, Bool.false_eq_true, if_false]

theorem expandSpec_dollar_end (caps : List Bytes) (fuel : Nat) :
    expandSpec caps (fuel + 1) [cDollar] = some [cDollar] := by
  have h0 : (cDollar == cDollar) = true := by decide
  simp only [expandSpec, h0, if_true]

theorem expandSpec_dollar_dollar (caps : List Bytes) (fuel : Nat) (r : Bytes) :
    expandSpec caps (fuel + 1) (cDollar :: cDollar :: r) = (expandSpec caps fuel r).map (cDollar :: ·) := by
  have h0 : (cDollar == cDollar) = true := by decide
  simp only [expandSpec, h0, if_true]

theorem expandSpec_dollar_none (caps : List Bytes) (fuel : Nat) (c : UInt8) (X : Bytes)
    (hc : (c == cDollar) = false) (hx : rxExtractU (c :: X) = none) :
    expandSpec caps (fuel + 1) (cDollar :: c :: X) = none := by
  have h0 : (cDollar == cDollar) = true := by decide
  simp only [expandSpec, h0, hc, hx, if_true, Bool.false_eq_true, if_false]

theorem expandSpec_dollar_malformed (caps : List Bytes) (fuel : Nat) (c : UInt8) (X : Bytes)
    (hc : (c == cDollar) = false) (hx : rxExtractU (c :: X) = some none) :
    expandSpec caps (fuel + 1) (cDollar :: c :: X) = (expandSpec caps fuel (c :: X)).map (cDollar :: ·) := by
  have h0 : (cDollar == cDollar) = true := by decide
  simp only [expandSpec, h0, hc, hx, if_true, Bool.false_eq_true, if_false]

theorem expandSpec_dollar_name (caps : List Bytes) (fuel : Nat) (c : UInt8) (X name r : Bytes)
    (hc : (c == cDollar) = false) (hx : rxExtractU (c :: X) = some (some (name, r))) :
    expandSpec caps (fuel + 1) (cDollar :: c :: X) = (expandSpec caps fuel r).map (specSub caps name ++ ·) := by
  have h0 : (cDollar == cDollar) = true := by decide
  simp only [expandSpec, h0, hc, hx, if_true, Bool.false_eq_true, if_false, specSub]
  cases rxNum name <;> rfl

/-! ### the invariant of the parallel scan -/

/-- `x` = the formatter's scan of (the escaped) `t`, `y` = the specification's result on `t`: both are
    outside the modelled fragment, or both inside, and then `Sprintf` on the format string with the
    captures selected by the indexes gives the specified bytes — and if the scan saw no reference and no
    `$$`, the specified bytes are `t` itself. -/
def Agrees (caps : List Bytes) (t : Bytes) (x : Option (Bytes × List Nat × Bool)) (y : Option Bytes) : Prop :=
  match x, y with
  | none, none => True
  | some o, some out => sprintfS o.1 (o.2.1.map fun i => caps.getD i []) = some out ∧ (o.2.2 = false → out = t)
  | _, _ => False

theorem agrees_plain (caps : List Bytes) (b : UInt8) (hb : (b == cPct) = false) (t : Bytes)
    (x : Option (Bytes × List Nat × Bool)) (y : Option Bytes) (h : Agrees caps t x y) :
    Agrees caps (b :: t) (x.map fun o => (b :: o.1, o.2.1, o.2.2)) (y.map (b :: ·)) := by
  cases x with
  | none => cases y with
    | none => trivial
    | some out => exact h.elim
  | some o => cases y with
    | none => exact h.elim
    | some out =>
      obtain ⟨h1, h2⟩ := h
      refine ⟨?_, fun hf => ?_⟩
      · show sprintfS (b :: o.1) _ = _
        rw [sprintfS_cons_plain _ _ _ hb, h1]; rfl
      · show b :: out = b :: t
        rw [h2 hf]

theorem agrees_pct (caps : List Bytes) (t : Bytes)
    (x : Option (Bytes × List Nat × Bool)) (y : Option Bytes) (h : Agrees caps t x y) :
    Agrees caps (cPct :: t)
      ((x.map fun o => (cPct :: o.1, o.2.1, o.2.2)).map fun o => (cPct :: o.1, o.2.1, o.2.2))
      (y.map (cPct :: ·)) := by
  cases x with
  | none => cases y with
    | none => trivial
    | some out => exact h.elim
  | some o => cases y with
    | none => exact h.elim
    | some out =>
      obtain ⟨h1, h2⟩ := h
      refine ⟨?_, fun hf => ?_⟩
      · show sprintfS (cPct :: cPct :: o.1) _ = _
        rw [sprintfS_pct_pct, h1]; rfl
      · show cPct :: out = cPct :: t
        rw [h2 hf]

theorem agrees_dollar_dollar (caps : List Bytes) (t t' : Bytes)
    (x : Option (Bytes × List Nat × Bool)) (y : Option Bytes) (h : Agrees caps t x y) :
    Agrees caps t' (x.map fun o => (cDollar :: o.1, o.2.1, true)) (y.map (cDollar :: ·)) := by
  cases x with
  | none => cases y with
    | none => trivial
    | some out => exact h.elim
  | some o => cases y with
    | none => exact h.elim
    | some out =>
      obtain ⟨h1, _⟩ := h
      refine ⟨?_, fun hf => by cases hf⟩
      show sprintfS (cDollar :: o.1) _ = _
      rw [sprintfS_cons_plain _ _ _ (by decide), h1]; rfl

/-- a well-formed reference: `%s` and the capture's index on the formatter's side, the capture on the
    specification's; nothing on either side for `$0`, an index beyond the rule's captures (`hrel`) or a
    name that is no number -/
theorem agrees_ref (n : Nat) (caps caps' : List Bytes)
    (hrel : ∀ i, caps'.getD i [] = if i < n then caps.getD i [] else [])
    (name t t' : Bytes) (x : Option (Bytes × List Nat × Bool)) (y : Option Bytes) (h : Agrees caps t x y) :
    Agrees caps t' (x.map (refStep n name)) (y.map (specSub caps' name ++ ·)) := by
  cases x with
  | none => cases y with
    | none => trivial
    | some out => exact h.elim
  | some o => cases y with
    | none => exact h.elim
    | some out =>
      obtain ⟨h1, _⟩ := h
      show Agrees caps t' (some (refStep n name o)) (some (specSub caps' name ++ out))
      unfold refStep specSub
      cases rxNum name with
      | none => exact ⟨h1, fun hf => by cases hf⟩
      | some idx =>
        simp only
        by_cases hbad : idx > n ∨ idx < 1
        · have hb : (decide (idx > n) || decide (idx < 1)) = true := by simpa using hbad
          simp only [hb, if_true]
          refine ⟨?_, fun hf => by cases hf⟩
          have : (if idx ≥ 1 then caps'.getD (idx - 1) [] else []) = [] := by
            by_cases h1' : idx ≥ 1
            · have : ¬ idx - 1 < n := by omega
              simp only [h1', if_true, hrel, this, if_false]
            · simp only [h1', if_false]
          rw [this]; exact h1
        · have hb : (decide (idx > n) || decide (idx < 1)) = false := by
            simpa using hbad
          have hge : idx ≥ 1 := by omega
          have hlt : idx - 1 < n := by omega
          simp only [hb, Bool.false_eq_true, if_false, hge, if_true, hrel, hlt]
          refine ⟨?_, fun hf => by cases hf⟩
          show sprintfS (cPct :: 115 :: o.1) (caps.getD (idx - 1) [] :: _) = _
          rw [sprintfS_pct_s, h1]; rfl

/-! ### the parallel induction -/

/-- **Formatter scan + `Sprintf` = specification**, for arbitrary sufficient fuels: `caps` are the
    captures handed to `Format`, `caps'` the captures of the specification; `caps'` must be `caps` on
    the first `n` positions and empty beyond. -/
theorem substRefs_agrees (n : Nat) (caps caps' : List Bytes)
    (hrel : ∀ i, caps'.getD i [] = if i < n then caps.getD i [] else []) :
    ∀ (fuel' : Nat) (t : Bytes) (fuel : Nat), t.length ≤ fuel' → (escapePct t).length ≤ fuel →
      Agrees caps t (substRefs n fuel (escapePct t)) (expandSpec caps' fuel' t) := by
  have hnil : ∀ fuel fuel', Agrees caps [] (substRefs n fuel (escapePct [])) (expandSpec caps' fuel' []) := by
    intro fuel fuel'
    rw [escapePct_nil, substRefs_nil, expandSpec_nil]
    exact ⟨rfl, fun _ => rfl⟩
  intro fuel'
  induction fuel' with
  | zero =>
    intro t fuel hl _
    have : t = [] := List.eq_nil_of_length_eq_zero (Nat.le_zero.mp hl)
    subst this
    exact hnil _ _
  | succ fuel' ih =>
    intro t fuel hl hf
    cases t with
    | nil => exact hnil _ _
    | cons b rest =>
      have hl' : rest.length ≤ fuel' := by simpa using hl
      by_cases hb : (b == cDollar) = true
      · have hbe : b = cDollar := by simpa using hb
        subst hbe
        have hesc : escapePct (cDollar :: rest) = cDollar :: escapePct rest :=
          escapePct_cons_plain _ _ (by decide)
        rw [hesc] at hf ⊢
        cases fuel with
        | zero => simp at hf
        | succ fuel =>
          have hf' : (escapePct rest).length ≤ fuel := by simpa using hf
          cases rest with
          | nil =>
            rw [escapePct_nil, substRefs_dollar_end, expandSpec_dollar_end]
            exact ⟨show sprintfS [cDollar] [] = some [cDollar] by decide, fun _ => rfl⟩
          | cons c rest' =>
            by_cases hc : (c == cDollar) = true
            · have hce : c = cDollar := by simpa using hc
              subst hce
              have hesc2 : escapePct (cDollar :: rest') = cDollar :: escapePct rest' :=
                escapePct_cons_plain _ _ (by decide)
              rw [hesc2] at hf' ⊢
              rw [substRefs_dollar_dollar, expandSpec_dollar_dollar]
              apply agrees_dollar_dollar caps rest'
              apply ih
              · simp only [List.length_cons] at hl'; omega
              · simp only [List.length_cons] at hf'; omega
            · have hc' : (c == cDollar) = false := by simpa using hc
              -- the escaped rest starts with a byte that is not `$` either
              obtain ⟨c', X, hcX, hc'X⟩ : ∃ c' X, escapePct (c :: rest') = c' :: X ∧ (c' == cDollar) = false := by
                rcases escapePct_cons_cases c rest' with ⟨rfl, h⟩ | ⟨_, h⟩
                · exact ⟨_, _, h, by decide⟩
                · exact ⟨_, _, h, hc'⟩
              have hxe := rxExtractU_escapePct (c :: rest')
              rw [hcX] at hxe hf' ⊢
              cases hx : rxExtractU (c :: rest') with
              | none =>
                rw [hx] at hxe
                rw [substRefs_dollar_none _ _ _ _ hc'X hxe, expandSpec_dollar_none _ _ _ _ hc' hx]
                trivial
              | some o =>
                cases o with
                | none =>
                  rw [hx] at hxe
                  rw [substRefs_dollar_malformed _ _ _ _ hc'X hxe, expandSpec_dollar_malformed _ _ _ _ hc' hx]
                  apply agrees_plain caps cDollar (by decide)
                  rw [← hcX]
                  apply ih _ _ hl'
                  rw [hcX]; exact hf'
                | some nr =>
                  obtain ⟨name, r⟩ := nr
                  rw [hx] at hxe
                  rw [substRefs_dollar_name _ _ _ _ _ _ hc'X hxe, expandSpec_dollar_name _ _ _ _ _ _ hc' hx]
                  apply agrees_ref n caps caps' hrel name r
                  obtain ⟨_, pre, hpre⟩ := rxExtractU_some _ _ _ hx
                  apply ih
                  · have := congrArg List.length hpre
                    simp only [List.length_append] at this
                    omega
                  · have := congrArg (fun l => (escapePct l).length) hpre
                    simp only [escapePct_append, List.length_append, hcX] at this
                    omega
      · have hb' : (b == cDollar) = false := by simpa using hb
        rcases escapePct_cons_cases b rest with ⟨rfl, h⟩ | ⟨hp, h⟩
        · rw [h] at hf ⊢
          cases fuel with
          | zero => simp at hf
          | succ fuel =>
            cases fuel with
            | zero => simp at hf
            | succ fuel =>
              rw [substRefs_cons_plain _ _ _ _ hb', substRefs_cons_plain _ _ _ _ hb',
                expandSpec_cons_plain _ _ _ _ hb']
              apply agrees_pct
              apply ih _ _ hl'
              simp only [List.length_cons] at hf; omega
        · rw [h] at hf ⊢
          cases fuel with
          | zero => simp at hf
          | succ fuel =>
            rw [substRefs_cons_plain _ _ _ _ hb', expandSpec_cons_plain _ _ _ _ hb']
            apply agrees_plain caps b hp
            apply ih _ _ hl'
            simpa using hf

/-! ### `NewTemplateFormatter` / `Format` -/

/-- **The formatter is the specification**, for every template, capture count and capture list, when the
    specification's captures `caps'` are `caps` on the first `n` positions and empty beyond. -/
theorem compileTemplate_format (tmpl : Bytes) (n : Nat) (caps caps' : List Bytes)
    (hrel : ∀ i, caps'.getD i [] = if i < n then caps.getD i [] else []) :
    (compileTemplate tmpl n).format caps = expandSpec caps' tmpl.length tmpl := by
  have h := substRefs_agrees n caps caps' hrel tmpl.length tmpl (escapePct tmpl).length
    (Nat.le_refl _) (Nat.le_refl _)
  unfold compileTemplate
  simp only
  cases hs : substRefs n (escapePct tmpl).length (escapePct tmpl) with
  | none =>
    rw [hs] at h
    cases hy : expandSpec caps' tmpl.length tmpl with
    | none => rfl
    | some out => rw [hy] at h; exact h.elim
  | some o =>
    rw [hs] at h
    obtain ⟨f, idxs, fl⟩ := o
    cases hy : expandSpec caps' tmpl.length tmpl with
    | none => rw [hy] at h; exact h.elim
    | some out =>
      rw [hy] at h
      obtain ⟨h1, h2⟩ := h
      cases fl with
      | true => simpa [Formatter.format] using h1
      | false => simp [Formatter.format, h2 rfl]

theorem take_getD (n : Nat) (caps : List Bytes) (i : Nat) :
    (caps.take n).getD i [] = if i < n then caps.getD i [] else [] := by
  rw [List.getD_eq_getElem?_getD, List.getD_eq_getElem?_getD, List.getElem?_take]
  split <;> rfl

/-- unconditionally: the formatter computes the documented expansion with the first `n` captures -/
theorem compileTemplate_format_take (tmpl : Bytes) (n : Nat) (caps : List Bytes) :
    (compileTemplate tmpl n).format caps = expandSpec (caps.take n) tmpl.length tmpl :=
  compileTemplate_format tmpl n caps _ (take_getD n caps)

/-- `unmodelled` is the only way `Format` answers `none`: the format string never leaves the modelled
    `Sprintf` fragment -/
theorem compileTemplate_format_isSome (tmpl : Bytes) (n : Nat) (caps : List Bytes) :
    ((compileTemplate tmpl n).format caps).isSome = true ↔ (compileTemplate tmpl n).unmodelled = false := by
  have h := substRefs_agrees n caps _ (take_getD n caps) tmpl.length tmpl (escapePct tmpl).length
    (Nat.le_refl _) (Nat.le_refl _)
  unfold compileTemplate
  simp only
  cases hs : substRefs n (escapePct tmpl).length (escapePct tmpl) with
  | none => simp [Formatter.format]
  | some o =>
    rw [hs] at h
    obtain ⟨f, idxs, fl⟩ := o
    cases hy : expandSpec (caps.take n) tmpl.length tmpl with
    | none => rw [hy] at h; exact h.elim
    | some out =>
      rw [hy] at h
      obtain ⟨h1, _⟩ := h
      cases fl with
      | true =>
        have h1' : sprintfS f (idxs.map fun i => caps.getD i []) = some out := h1
        simp only [Formatter.format, Bool.false_eq_true, if_false, if_true, h1', Option.isSome_some]
      | false => simp [Formatter.format]

end SE
