import SE.Proofs.Template
/-
C11, glob side: on templates that satisfy `SafeSegs` the `NewTemplateFormatter` / `Format` pair
(reference regex repaired: the name class is `[a-zA-Z0-9_]`; `%` escaped and the references
substituted in ONE left-to-right pass since b74fba2) computes `expandSpec`.

Structure of the proof (tmpl = flatSegs segs):
  A. `findRefs` finds exactly the references of `segs`              (`findRefs_flat`)
  B. `%`-escaping leaves the references alone (`refMatchAt_escapePct`, `findRefs_escapePct`), and the
     single pass over the escaped template yields the escaped literals with `%s` at the usable
     references, nothing at the others, and the indexes in order   (`substRefs_flat`)
  C. `Sprintf` on that format string un-escapes the literals and fills the captures in
                                                                     (`sprintfS_escapePct`, `sprintf_fmtOf`)
  D. `expandSpec` on `flatSegs segs` yields the same bytes           (`expandSpec_flat`, `expected_eq_specOut`)
  E. for EVERY template (no guard) the format string stays inside the modelled `Sprintf` fragment
                                                                     (`substRefs_fmtOk`, `compileTemplate_format_isSome`)
-/
namespace SE

/-! ### bytes -/

theorem digit_isRefByte (d : UInt8) (h : isDigitB d = true) : isRefByte d = true := by
  simp only [isDigitB, Bool.and_eq_true, decide_eq_true_eq] at h
  simp [isRefByte, isWordByte, h.1, h.2]

theorem digit_isWordByte (d : UInt8) (h : isDigitB d = true) : isWordByte d = true := by
  simp only [isDigitB, Bool.and_eq_true, decide_eq_true_eq] at h
  simp [isWordByte, h.1, h.2]

theorem digit_ne_dollar (d : UInt8) (h : isDigitB d = true) : d ≠ cDollar := by
  intro e; subst e; revert h; decide

theorem digit_ne_lbrace (d : UInt8) (h : isDigitB d = true) : d ≠ cLBrace := by
  intro e; subst e; revert h; decide

theorem word_isRefByte (d : UInt8) (h : isWordByte d = true) : isRefByte d = true := by
  simpa [isRefByte] using h

theorem word_ne_dollar (d : UInt8) (h : isWordByte d = true) : d ≠ cDollar := by
  intro e; subst e; revert h; decide

theorem word_ne_lbrace (d : UInt8) (h : isWordByte d = true) : d ≠ cLBrace := by
  intro e; subst e; revert h; decide

theorem not_ref_not_word (c : UInt8) (h : isRefByte c = false) : isWordByte c = false := h

theorem rxNum_digits (ds : Bytes) (h : (rxNum ds).isSome = true) : ds.all isDigitB = true := by
  unfold rxNum at h
  split at h
  · rename_i hc; simp only [Bool.and_eq_true] at hc; exact hc.1.1
  · cases h

theorem rxNum_atoi (ds : Bytes) (hne : ds ≠ []) (k : Nat) (h : rxNum ds = some k) : atoiDigits ds = some k := by
  have hd := rxNum_digits ds (by rw [h]; rfl)
  unfold rxNum at h
  split at h
  · simp only [Option.some.injEq] at h
    unfold atoiDigits
    have h1 : ds.all (fun b => decide (48 ≤ b) && decide (b ≤ 57)) = true := hd
    have h2 : ds.isEmpty = false := by cases ds <;> simp_all
    simp [h1, h2, h]
  · cases h

/-! ### segments -/

def refTail (b : Bool) (ds : Bytes) : Bytes := if b then cLBrace :: (ds ++ [cRBrace]) else ds

theorem refText_cons (b : Bool) (ds : Bytes) : refText b ds = cDollar :: refTail b ds := by
  unfold refText refTail; cases b <;> rfl

theorem dollar_not_mem_digits (ds : Bytes) (hd : ds.all isWordByte = true) : cDollar ∉ ds := by
  intro hm
  have := List.all_eq_true.mp hd _ hm
  revert this; decide

theorem dollar_not_mem_refTail (b : Bool) (ds : Bytes) (hd : ds.all isWordByte = true) : cDollar ∉ refTail b ds := by
  have := dollar_not_mem_digits ds hd
  unfold refTail
  cases b
  · simpa using this
  · simp only [if_true, List.mem_cons, List.mem_append, List.not_mem_nil, or_false, not_or]
    exact ⟨by decide, this, by decide⟩


def refsOf : List Seg → List (Bytes × Bytes)
  | [] => []
  | .lit _ :: segs => refsOf segs
  | .ref b ds :: segs => (refText b ds, ds) :: refsOf segs


/-- the facts `segOk` gives about a reference -/
theorem segOk_ref (b : Bool) (ds : Bytes) (h : segOk (.ref b ds) = true) :
    ds ≠ [] ∧ ds.all isWordByte = true ∧
      ((∃ k, rxNum ds = some k) ∨ (rxNum ds = none ∧ atoiDigits ds = none)) := by
  simp only [segOk, Bool.and_eq_true, Bool.or_eq_true, Bool.not_eq_true'] at h
  refine ⟨by intro e; simp [e] at h, h.1.2, ?_⟩
  cases hk : rxNum ds with
  | some k => exact Or.inl ⟨k, rfl⟩
  | none =>
    right
    refine ⟨rfl, ?_⟩
    have hnd : ds.all isDigitB = false := by
      rcases h.2 with h2 | h2
      · rw [hk] at h2; cases h2
      · exact h2
    unfold atoiDigits
    have h1 : ds.all (fun b => decide (48 ≤ b) && decide (b ≤ 57)) = false := hnd
    simp [h1]


theorem segOk_lit (l : Bytes) (h : segOk (.lit l) = true) : cDollar ∉ l := by
  simp only [segOk, Bool.not_eq_true', List.contains_eq_mem, decide_eq_false_iff_not] at h
  exact h


/-! ### A. `findRefs` on a segmented template -/

theorem findRefs_plain : ∀ (l : Bytes) (fuel : Nat) (rest : Bytes), cDollar ∉ l → l.length ≤ fuel →
    findRefs fuel (l ++ rest) = findRefs (fuel - l.length) rest := by
  intro l
  induction l with
  | nil => intro fuel rest _ _; simp
  | cons b l ih =>
    intro fuel rest hd hf
    simp only [List.mem_cons, not_or] at hd
    cases fuel with
    | zero => simp at hf
    | succ fuel =>
      have hb : (b == cDollar) = false := by
        cases hbb : (b == cDollar) with
        | false => rfl
        | true => exfalso; apply hd.1; simp at hbb; exact hbb.symm
      simp only [List.cons_append, findRefs, hb, Bool.false_eq_true, if_false, List.length_cons]
      rw [ih fuel rest hd.2 (by simpa using hf)]
      congr 1; omega

/-- what may follow a bare reference: the end, or a byte outside `[a-zA-Z0-9_}]` (`$` is fine) -/
def tailOk (b : Bool) (R : Bytes) : Prop :=
  b = false → match R with
    | [] => True
    | c :: _ => isWordByte c = false ∧ c ≠ cRBrace

theorem takeWhile_ref_tail (R : Bytes) (h : tailOk false R) : R.takeWhile isRefByte = [] := by
  have := h rfl
  cases R with
  | nil => rfl
  | cons c r => simp only at this; simp [isRefByte_eq, this.1]

theorem takeWhile_word_tail (R : Bytes) (h : tailOk false R) : R.takeWhile isWordByte = [] := by
  have := h rfl
  cases R with
  | nil => rfl
  | cons c r => simp only at this; simp [this.1]

theorem refMatchAt_ref (b : Bool) (ds R : Bytes) (hne : ds ≠ []) (hd : ds.all isWordByte = true)
    (ht : tailOk b R) : refMatchAt (refTail b ds ++ R) = some (refTail b ds, ds, R) := by
  have hall : ∀ a ∈ ds, isRefByte a = true := fun a ha => word_isRefByte a (List.all_eq_true.mp hd a ha)
  cases b with
  | true =>
    have hrb : isRefByte cRBrace = false := by decide
    have htw : (ds ++ cRBrace :: R).takeWhile isRefByte = ds := by
      rw [List.takeWhile_append_of_pos hall]; simp [hrb]
    have hemp : ds.isEmpty = false := by cases ds <;> simp_all
    simp only [refTail, if_true, List.cons_append, List.append_assoc, List.nil_append, refMatchAt,
      beq_self_eq_true, htw, hemp, Bool.false_eq_true, if_false, List.drop_left]
  | false =>
    cases ds with
    | nil => exact absurd rfl hne
    | cons d ds' =>
      have hdd : isWordByte d = true := by simp only [List.all_cons, Bool.and_eq_true] at hd; exact hd.1
      have hlb : (d == cLBrace) = false := by simpa using word_ne_lbrace d hdd
      have htw : (d :: (ds' ++ R)).takeWhile isRefByte = d :: ds' := by
        have := List.takeWhile_append_of_pos (l₂ := R) hall
        rw [takeWhile_ref_tail R ht] at this
        simpa using this
      have hdrop : List.drop (d :: ds').length (d :: (ds' ++ R)) = R := by simp
      show refMatchAt (d :: ds' ++ R) = some (d :: ds', d :: ds', R)
      rw [List.cons_append]
      unfold refMatchAt
      simp only [hlb, Bool.false_eq_true, if_false]
      rw [htw, hdrop]
      have := ht rfl
      cases R with
      | nil => simp
      | cons c r =>
        simp only at this
        have hc : (c == cRBrace) = false := by simpa using this.2
        simp [hc]

/-- `followOk` as a statement about the remainder of the template -/
theorem followOk_cons_ref (b : Bool) (ds : Bytes) (segs : List Seg) (h : followOk (.ref b ds :: segs) = true) :
    tailOk b (flatSegs segs) ∧ followOk segs = true := by
  cases b with
  | true => exact ⟨fun e => (by cases e), (by simpa [followOk] using h)⟩
  | false =>
    simp only [followOk, Bool.and_eq_true] at h
    refine ⟨fun _ => ?_, h.2⟩
    have h1 := h.1
    cases hR : flatSegs segs with
    | nil => trivial
    | cons c r =>
      rw [hR] at h1
      simp only [Bool.and_eq_true, Bool.not_eq_true', bne_iff_ne, ne_eq] at h1
      exact h1.1

/-- the first byte, if any, is ASCII -/
def headAscii (R : Bytes) : Prop :=
  match R with
  | [] => True
  | c :: _ => c < 0x80

/-- the part of `followOk` the regex side needs: what follows a bare reference is absent or ASCII -/
theorem followOk_cons_ref_ascii (ds : Bytes) (segs : List Seg) (h : followOk (.ref false ds :: segs) = true) :
    headAscii (flatSegs segs) := by
  unfold headAscii
  simp only [followOk, Bool.and_eq_true] at h
  have h1 := h.1
  cases hR : flatSegs segs with
  | nil => trivial
  | cons c r =>
    rw [hR] at h1
    simp only [Bool.and_eq_true, decide_eq_true_eq] at h1
    exact h1.2

theorem findRefs_flat : ∀ (segs : List Seg) (fuel : Nat), (∀ s ∈ segs, segOk s = true) → followOk segs = true →
    (flatSegs segs).length ≤ fuel → findRefs fuel (flatSegs segs) = refsOf segs := by
  intro segs
  induction segs with
  | nil => intro fuel _ _ _; cases fuel <;> rfl
  | cons s segs ih =>
    intro fuel hok hfo hf
    have hok' : ∀ s ∈ segs, segOk s = true := fun s hs => hok s (List.mem_cons_of_mem _ hs)
    cases s with
    | lit l =>
      have hl := segOk_lit l (hok _ List.mem_cons_self)
      simp only [flatSegs, Seg.text, List.length_append] at hf ⊢
      rw [findRefs_plain l fuel _ hl (by omega), refsOf]
      exact ih _ hok' (by simpa [followOk] using hfo) (by omega)
    | ref b ds =>
      obtain ⟨hne, hd, _⟩ := segOk_ref b ds (hok _ List.mem_cons_self)
      obtain ⟨ht, hfo'⟩ := followOk_cons_ref b ds segs hfo
      simp only [flatSegs, Seg.text, refText_cons, List.cons_append, List.length_cons, List.length_append] at hf ⊢
      cases fuel with
      | zero => omega
      | succ fuel =>
        simp only [findRefs, beq_self_eq_true, if_true, refMatchAt_ref b ds _ hne hd ht, refsOf, refText_cons]
        rw [ih fuel hok' hfo' (by omega)]


/-! ### B. `%`-escaping and the single substitution pass -/

theorem escapePct_cons (b : UInt8) (s : Bytes) :
    escapePct (b :: s) = (if b == cPct then [cPct, cPct] else [b]) ++ escapePct s := by
  simp [escapePct]

theorem escapePct_cons_pct (s : Bytes) : escapePct (cPct :: s) = cPct :: cPct :: escapePct s := by
  rw [escapePct_cons]; rfl

theorem escapePct_cons_plain (b : UInt8) (s : Bytes) (hb : (b == cPct) = false) :
    escapePct (b :: s) = b :: escapePct s := by
  rw [escapePct_cons]; simp [hb]

theorem escapePct_append (s t : Bytes) : escapePct (s ++ t) = escapePct s ++ escapePct t := by
  simp [escapePct]

/-- a text without `%` is not changed by the escaping -/
theorem escapePct_plain (s : Bytes) (h : cPct ∉ s) : escapePct s = s := by
  induction s with
  | nil => rfl
  | cons b s ih =>
    simp only [List.mem_cons, not_or] at h
    have hb : (b == cPct) = false := by
      cases hbb : (b == cPct) with
      | false => rfl
      | true => exfalso; apply h.1; simp at hbb; exact hbb.symm
    rw [escapePct_cons_plain b s hb, ih h.2]

theorem dollar_not_mem_escapePct (l : Bytes) (h : cDollar ∉ l) : cDollar ∉ escapePct l := by
  induction l with
  | nil => exact h
  | cons b l ih =>
    simp only [List.mem_cons, not_or] at h
    rw [escapePct_cons]
    simp only [List.mem_append, not_or]
    refine ⟨?_, ih h.2⟩
    split
    · decide
    · simpa using h.1

theorem word_ne_pct (d : UInt8) (h : isWordByte d = true) : d ≠ cPct := by
  intro e; subst e; revert h; decide

theorem pct_not_mem_word (ds : Bytes) (hd : ds.all isWordByte = true) : cPct ∉ ds := by
  intro hm
  have := List.all_eq_true.mp hd _ hm
  revert this; decide

/-- a reference text contains no `%`: the escaping does not touch `$`, `{`, `}` or name bytes -/
theorem pct_not_mem_refText (b : Bool) (ds : Bytes) (hd : ds.all isWordByte = true) : cPct ∉ refText b ds := by
  have := pct_not_mem_word ds hd
  unfold refText
  cases b
  · simp only [Bool.false_eq_true, if_false, List.mem_cons, not_or]
    exact ⟨by decide, this⟩
  · simp only [if_true, List.mem_cons, List.mem_append, List.not_mem_nil, or_false, not_or]
    exact ⟨by decide, by decide, this, by decide⟩

/-- the escaping does not change the first byte -/
theorem tailOk_escapePct (b : Bool) (R : Bytes) (h : tailOk b R) : tailOk b (escapePct R) := by
  intro hb
  have h1 := h hb
  cases R with
  | nil => trivial
  | cons c r =>
    simp only at h1
    by_cases hc : (c == cPct) = true
    · have hce : c = cPct := by simpa using hc
      subst hce
      rw [escapePct_cons_pct]
      exact h1
    · have hc' : (c == cPct) = false := by simpa using hc
      rw [escapePct_cons_plain c r hc']
      exact h1

/-- the escaping does not change the name run at the head of a text … -/
theorem takeWhile_escapePct (s : Bytes) : (escapePct s).takeWhile isRefByte = s.takeWhile isRefByte := by
  induction s with
  | nil => rfl
  | cons b s ih =>
    by_cases hb : (b == cPct) = true
    · have : b = cPct := by simpa using hb
      subst this
      rw [escapePct_cons_pct]
      have : isRefByte cPct = false := by decide
      simp [this]
    · have hb' : (b == cPct) = false := by simpa using hb
      rw [escapePct_cons_plain b s hb']
      simp only [List.takeWhile_cons, ih]

/-- … and commutes with dropping it -/
theorem drop_takeWhile_escapePct (s : Bytes) :
    (escapePct s).drop (s.takeWhile isRefByte).length = escapePct (s.drop (s.takeWhile isRefByte).length) := by
  induction s with
  | nil => rfl
  | cons b s ih =>
    by_cases hr : isRefByte b = true
    · have hb' : (b == cPct) = false := by
        have := word_ne_pct b hr
        simpa using this
      rw [escapePct_cons_plain b s hb']
      simp only [List.takeWhile_cons, hr, if_true, List.length_cons, List.drop_succ_cons]
      exact ih
    · simp [hr]

theorem takeWhile_append_drop {α : Type} (p : α → Bool) (l : List α) :
    l.takeWhile p ++ l.drop (l.takeWhile p).length = l := by
  induction l with
  | nil => rfl
  | cons a l ih =>
    by_cases h : p a = true
    · simp only [List.takeWhile_cons, h, if_true, List.length_cons, List.drop_succ_cons, List.cons_append, ih]
    · simp [h]

/-- `refMatchAt` after the optional `{` (`pre`) has been taken off -/
def refMatchCore (pre r1 : Bytes) : Option (Bytes × Bytes × Bytes) :=
  let grp := r1.takeWhile isRefByte
  if grp.isEmpty then none
  else
    let r2 := r1.drop grp.length
    match r2 with
    | b :: r3 => if b == cRBrace then some (pre ++ grp ++ [cRBrace], grp, r3) else some (pre ++ grp, grp, r2)
    | [] => some (pre ++ grp, grp, [])

theorem refMatchAt_eq_core (rest : Bytes) :
    refMatchAt rest = match rest with
      | [] => none
      | b :: r => if b == cLBrace then refMatchCore [cLBrace] r else refMatchCore [] (b :: r) := by
  cases rest with
  | nil => rfl
  | cons b r =>
    by_cases hb : (b == cLBrace) = true
    · simp only [hb, if_true]; unfold refMatchAt refMatchCore; simp only [hb, if_true]; rfl
    · have hb' : (b == cLBrace) = false := by simpa using hb
      simp only [hb', Bool.false_eq_true, if_false]; unfold refMatchAt refMatchCore
      simp only [hb', Bool.false_eq_true, if_false]; rfl

theorem refMatchCore_escapePct (pre r1 : Bytes) :
    refMatchCore pre (escapePct r1) = (refMatchCore pre r1).map fun x => (x.1, x.2.1, escapePct x.2.2) := by
  unfold refMatchCore
  simp only [takeWhile_escapePct, drop_takeWhile_escapePct]
  by_cases hg : (r1.takeWhile isRefByte).isEmpty = true
  · simp only [hg, if_true]; rfl
  · have hg' : (r1.takeWhile isRefByte).isEmpty = false := by simpa using hg
    simp only [hg', Bool.false_eq_true, if_false]
    generalize r1.drop (r1.takeWhile isRefByte).length = r2
    cases r2 with
    | nil => rfl
    | cons c r3 =>
      by_cases hc : (c == cPct) = true
      · have hce : c = cPct := by simpa using hc
        subst hce
        have : (cPct == cRBrace) = false := by decide
        simp only [escapePct_cons_pct, this, Bool.false_eq_true, if_false, Option.map_some]
      · have hc' : (c == cPct) = false := by simpa using hc
        by_cases hcb : (c == cRBrace) = true
        · simp only [escapePct_cons_plain c r3 hc', hcb, if_true, Option.map_some]
        · have hcb' : (c == cRBrace) = false := by simpa using hcb
          simp only [escapePct_cons_plain c r3 hc', hcb', Bool.false_eq_true, if_false, Option.map_some]

/-- **`%`-escaping does not touch the references** (1): the formatter's regex, anchored after a `$`,
    matches in the escaped text exactly what it matches in the original one, and what remains is the
    escaped remainder. -/
theorem refMatchAt_escapePct (rest : Bytes) :
    refMatchAt (escapePct rest) = (refMatchAt rest).map fun x => (x.1, x.2.1, escapePct x.2.2) := by
  cases rest with
  | nil => rfl
  | cons b r =>
    by_cases hb : (b == cLBrace) = true
    · have hbe : b = cLBrace := by simpa using hb
      subst hbe
      have hp : (cLBrace == cPct) = false := by decide
      rw [escapePct_cons_plain cLBrace r hp, refMatchAt_eq_core, refMatchAt_eq_core]
      simp only [beq_self_eq_true, if_true]
      exact refMatchCore_escapePct _ r
    · have hb' : (b == cLBrace) = false := by simpa using hb
      have hcore := refMatchCore_escapePct [] (b :: r)
      rw [refMatchAt_eq_core (b :: r)]
      simp only [hb', Bool.false_eq_true, if_false]
      rw [← hcore]
      by_cases hp : (b == cPct) = true
      · have hbe : b = cPct := by simpa using hp
        subst hbe
        rw [escapePct_cons_pct, refMatchAt_eq_core]
        simp only [hb', Bool.false_eq_true, if_false]
      · have hp' : (b == cPct) = false := by simpa using hp
        rw [escapePct_cons_plain b r hp', refMatchAt_eq_core]
        simp only [hb', Bool.false_eq_true, if_false]

theorem refMatchCore_split (pre r1 m g r : Bytes) (hpre : cPct ∉ pre) (h : refMatchCore pre r1 = some (m, g, r)) :
    pre ++ r1 = m ++ r ∧ cPct ∉ m := by
  have hg : cPct ∉ r1.takeWhile isRefByte := by
    intro hm
    have := List.all_eq_true.mp (List.all_takeWhile (p := isRefByte) (l := r1)) _ hm
    revert this; decide
  have hsplit : r1 = r1.takeWhile isRefByte ++ r1.drop (r1.takeWhile isRefByte).length :=
    (takeWhile_append_drop isRefByte r1).symm
  unfold refMatchCore at h
  simp only at h
  split at h
  · cases h
  · split at h
    · rename_i c r3 hr2
      split at h
      · rename_i hc
        have hce : c = cRBrace := by simpa using hc
        simp only [Option.some.injEq, Prod.mk.injEq] at h
        obtain ⟨rfl, _, rfl⟩ := h
        refine ⟨?_, ?_⟩
        · conv => lhs; rw [hsplit, hr2, hce]
          simp
        · simp only [List.mem_append, not_or, List.mem_singleton]
          exact ⟨⟨hpre, hg⟩, by decide⟩
      · simp only [Option.some.injEq, Prod.mk.injEq] at h
        obtain ⟨rfl, _, rfl⟩ := h
        refine ⟨?_, ?_⟩
        · conv => lhs; rw [hsplit]
          simp
        · simp only [List.mem_append, not_or]; exact ⟨hpre, hg⟩
    · rename_i hr2
      simp only [Option.some.injEq, Prod.mk.injEq] at h
      obtain ⟨rfl, _, rfl⟩ := h
      refine ⟨?_, ?_⟩
      · conv => lhs; rw [hsplit, hr2]
        simp
      · simp only [List.mem_append, not_or]; exact ⟨hpre, hg⟩

/-- a match of the formatter's regex splits the text into the match and the remainder, and the match
    contains no `%` -/
theorem refMatchAt_split (rest m g r : Bytes) (h : refMatchAt rest = some (m, g, r)) :
    rest = m ++ r ∧ cPct ∉ m := by
  rw [refMatchAt_eq_core] at h
  cases rest with
  | nil => cases h
  | cons b r' =>
    simp only at h
    split at h
    · rename_i hb
      have hbe : b = cLBrace := by simpa using hb
      subst hbe
      have := refMatchCore_split [cLBrace] r' m g r (by decide) h
      simpa using this
    · have := refMatchCore_split [] (b :: r') m g r (by simp) h
      simpa using this

theorem findRefs_nil' (fuel : Nat) : findRefs fuel [] = [] := by cases fuel <;> rfl

/-- **`%`-escaping does not touch the references** (2): `FindAllStringSubmatch` returns the same
    (match, group) pairs on the escaped template as on the original one -/
theorem findRefs_escapePct : ∀ (fuel fuel' : Nat) (t : Bytes), t.length ≤ fuel → (escapePct t).length ≤ fuel' →
    findRefs fuel' (escapePct t) = findRefs fuel t := by
  intro fuel
  induction fuel with
  | zero =>
    intro fuel' t h _
    have : t = [] := by cases t <;> simp_all
    subst this
    exact findRefs_nil' fuel'
  | succ fuel ih =>
    intro fuel' t h h'
    cases t with
    | nil => exact findRefs_nil' fuel'
    | cons b rest =>
      simp only [List.length_cons] at h
      by_cases hd : (b == cDollar) = true
      · have hbe : b = cDollar := by simpa using hd
        subst hbe
        have hp : (cDollar == cPct) = false := by decide
        rw [escapePct_cons_plain cDollar rest hp] at h' ⊢
        cases fuel' with
        | zero => simp at h'
        | succ fuel' =>
          simp only [List.length_cons] at h'
          simp only [findRefs, beq_self_eq_true, if_true, refMatchAt_escapePct]
          cases hm : refMatchAt rest with
          | none => exact ih fuel' rest (by omega) (by omega)
          | some x =>
            obtain ⟨m, g, r⟩ := x
            obtain ⟨hsp, _⟩ := refMatchAt_split rest m g r hm
            have hl : r.length ≤ rest.length := by rw [hsp]; simp
            have hl' : (escapePct r).length ≤ (escapePct rest).length := by
              rw [hsp, escapePct_append]; simp
            simp only [Option.map_some]
            rw [ih fuel' r (by omega) (by omega)]
      · have hd' : (b == cDollar) = false := by simpa using hd
        by_cases hp : (b == cPct) = true
        · have hbe : b = cPct := by simpa using hp
          subst hbe
          rw [escapePct_cons_pct] at h' ⊢
          simp only [List.length_cons] at h'
          cases fuel' with
          | zero => omega
          | succ fuel' =>
            cases fuel' with
            | zero => omega
            | succ fuel' =>
              simp only [findRefs, hd', Bool.false_eq_true, if_false]
              exact ih fuel' rest (by omega) (by omega)
        · have hp' : (b == cPct) = false := by simpa using hp
          rw [escapePct_cons_plain b rest hp'] at h' ⊢
          simp only [List.length_cons] at h'
          cases fuel' with
          | zero => omega
          | succ fuel' =>
            simp only [findRefs, hd', Bool.false_eq_true, if_false]
            exact ih fuel' rest (by omega) (by omega)

/-- in particular with the fuels `NewTemplateFormatter` would use -/
theorem findRefs_escapePct_self (t : Bytes) :
    findRefs (escapePct t).length (escapePct t) = findRefs t.length t :=
  findRefs_escapePct t.length (escapePct t).length t (Nat.le_refl _) (Nat.le_refl _)

/-- argument index of a reference (`none`: not a number, `0`, or out of range — replaced by nothing) -/
def idxOf (n : Nat) (ds : Bytes) : Option Nat :=
  match atoiDigits ds with
  | some idx => if idx > n || idx < 1 then none else some (idx - 1)
  | none => none

/-- what a reference becomes in the format string -/
def substOf (n : Nat) (ds : Bytes) : Bytes :=
  match idxOf n ds with
  | some _ => [cPct, 115]
  | none => []

/-- the format string of a segmented template: escaped literals, `%s` at the usable references -/
def fmtOf (n : Nat) : List Seg → Bytes
  | [] => []
  | .lit l :: segs => escapePct l ++ fmtOf n segs
  | .ref _ ds :: segs => substOf n ds ++ fmtOf n segs

/-- the indexes of the usable references, in order -/
def idxsOf (n : Nat) : List Seg → List Nat
  | [] => []
  | .lit _ :: segs => idxsOf n segs
  | .ref _ ds :: segs => (idxOf n ds).toList ++ idxsOf n segs

theorem substRefs_nil (n fuel : Nat) : substRefs n fuel [] = ([], []) := by cases fuel <;> rfl

/-- text without `$` is copied by the pass -/
theorem substRefs_plain (n : Nat) : ∀ (l : Bytes) (fuel : Nat) (rest : Bytes), cDollar ∉ l → l.length ≤ fuel →
    substRefs n fuel (l ++ rest) =
      (l ++ (substRefs n (fuel - l.length) rest).1, (substRefs n (fuel - l.length) rest).2) := by
  intro l
  induction l with
  | nil => intro fuel rest _ _; simp
  | cons b l ih =>
    intro fuel rest hd hf
    simp only [List.mem_cons, not_or] at hd
    cases fuel with
    | zero => simp at hf
    | succ fuel =>
      have hb : (b == cDollar) = false := by
        cases hbb : (b == cDollar) with
        | false => rfl
        | true => exfalso; apply hd.1; simp at hbb; exact hbb.symm
      simp only [List.cons_append, substRefs, hb, Bool.false_eq_true, if_false, List.length_cons]
      rw [ih fuel rest hd.2 (by simpa using hf)]
      have : fuel + 1 - (l.length + 1) = fuel - l.length := by omega
      rw [this]

/-- **the single pass on a segmented template**: the format string and the indexes -/
theorem substRefs_flat (n : Nat) : ∀ (segs : List Seg) (fuel : Nat), (∀ s ∈ segs, segOk s = true) →
    followOk segs = true → (escapePct (flatSegs segs)).length ≤ fuel →
    substRefs n fuel (escapePct (flatSegs segs)) = (fmtOf n segs, idxsOf n segs) := by
  intro segs
  induction segs with
  | nil => intro fuel _ _ _; exact substRefs_nil n fuel
  | cons s segs ih =>
    intro fuel hok hfo hf
    have hok' : ∀ s ∈ segs, segOk s = true := fun s hs => hok s (List.mem_cons_of_mem _ hs)
    cases s with
    | lit l =>
      have hl := dollar_not_mem_escapePct l (segOk_lit l (hok _ List.mem_cons_self))
      simp only [flatSegs, Seg.text, escapePct_append, List.length_append] at hf ⊢
      rw [substRefs_plain n _ fuel _ hl (by omega)]
      rw [ih _ hok' (by simpa [followOk] using hfo) (by omega)]
      rfl
    | ref b ds =>
      obtain ⟨hne, hd, _⟩ := segOk_ref b ds (hok _ List.mem_cons_self)
      obtain ⟨ht, hfo'⟩ := followOk_cons_ref b ds segs hfo
      have ht' := tailOk_escapePct b _ ht
      simp only [flatSegs, Seg.text, escapePct_append, escapePct_plain _ (pct_not_mem_refText b ds hd)] at hf ⊢
      simp only [refText_cons, List.cons_append, List.length_cons, List.length_append] at hf ⊢
      cases fuel with
      | zero => omega
      | succ fuel =>
        simp only [substRefs, beq_self_eq_true, if_true, refMatchAt_ref b ds _ hne hd ht']
        rw [ih fuel hok' hfo' (by omega)]
        simp only [fmtOf, idxsOf, substOf, idxOf]
        cases atoiDigits ds with
        | none => rfl
        | some idx =>
          by_cases h : (idx > n || idx < 1) = true
          · simp only [h, if_true]; rfl
          · simp only [h]; rfl

/-! ### C. `Sprintf` on the format string -/

def argsOf (n : Nat) (caps : List Bytes) : List Seg → List Bytes
  | [] => []
  | .lit _ :: segs => argsOf n caps segs
  | .ref _ ds :: segs => (match idxOf n ds with | some i => [caps.getD i []] | none => []) ++ argsOf n caps segs

/-- what the formatter outputs on a safe template -/
def expected (n : Nat) (caps : List Bytes) : List Seg → Bytes
  | [] => []
  | .lit l :: segs => l ++ expected n caps segs
  | .ref _ ds :: segs => (match idxOf n ds with | some i => caps.getD i [] | none => []) ++ expected n caps segs

theorem args_eq (n : Nat) (caps : List Bytes) (segs : List Seg) :
    (idxsOf n segs).map (fun i => caps.getD i []) = argsOf n caps segs := by
  induction segs with
  | nil => rfl
  | cons s segs ih =>
    cases s with
    | lit l => simpa [idxsOf, argsOf] using ih
    | ref b ds =>
      simp only [idxsOf, argsOf, List.map_append, ih]
      cases h : idxOf n ds <;> rfl

theorem sprintfS_cons_plain (b : UInt8) (rest : Bytes) (args : List Bytes) (hb : (b == cPct) = false) :
    sprintfS (b :: rest) args = (sprintfS rest args).map (b :: ·) := by
  rw [sprintfS.eq_def]; simp [hb]

theorem sprintfS_pct_pct (R : Bytes) (args : List Bytes) :
    sprintfS (cPct :: cPct :: R) args = (sprintfS R args).map (cPct :: ·) := by
  rw [sprintfS.eq_def]
  have : (cPct == (115 : UInt8)) = false := by decide
  simp [this]

/-- `Sprintf` un-escapes an escaped literal, whatever the arguments (it consumes none) -/
theorem sprintfS_escapePct : ∀ (l rest : Bytes) (args : List Bytes),
    sprintfS (escapePct l ++ rest) args = (sprintfS rest args).map (l ++ ·) := by
  intro l
  induction l with
  | nil => intro rest args; simp [escapePct]
  | cons b l ih =>
    intro rest args
    by_cases hb : (b == cPct) = true
    · have hbe : b = cPct := by simpa using hb
      subst hbe
      rw [escapePct_cons_pct, List.cons_append, List.cons_append, sprintfS_pct_pct, ih rest args]
      cases sprintfS rest args <;> simp
    · have hb' : (b == cPct) = false := by simpa using hb
      rw [escapePct_cons_plain b l hb', List.cons_append, sprintfS_cons_plain _ _ _ hb', ih rest args]
      cases sprintfS rest args <;> simp

theorem sprintfS_pct_s (R a : Bytes) (as : List Bytes) :
    sprintfS (cPct :: 115 :: R) (a :: as) = (sprintfS R as).map (a ++ ·) := by
  rw [sprintfS.eq_def]; simp

/-- no hypothesis about the literals: whatever they contain has been escaped. This also covers a
    template whose references are all unusable (`$5` with two captures, `$foo`): no arguments, and
    `Sprintf` still un-escapes `%%`. -/
theorem sprintf_fmtOf (n : Nat) (caps : List Bytes) (segs : List Seg) :
    sprintfS (fmtOf n segs) (argsOf n caps segs) = some (expected n caps segs) := by
  induction segs with
  | nil => simp [fmtOf, argsOf, expected, sprintfS]
  | cons s segs ih =>
    cases s with
    | lit l =>
      simp only [fmtOf, argsOf, expected]
      rw [sprintfS_escapePct l _ _, ih]; rfl
    | ref b ds =>
      simp only [fmtOf, argsOf, expected, substOf]
      cases h : idxOf n ds with
      | none => simpa using ih
      | some i =>
        simp only [List.cons_append, List.nil_append]
        rw [sprintfS_pct_s, ih]; rfl

/-- a segment list without references is its literal text -/
theorem expected_no_refs (n : Nat) (caps : List Bytes) (segs : List Seg) (h : refsOf segs = []) :
    expected n caps segs = flatSegs segs := by
  induction segs with
  | nil => rfl
  | cons s segs ih =>
    cases s with
    | lit l => simp only [expected, flatSegs, Seg.text]; rw [ih (by simpa [refsOf] using h)]
    | ref b ds => simp [refsOf] at h

/-! ### D. `expandSpec` on a segmented template -/

def specOut (caps : List Bytes) : List Seg → Bytes
  | [] => []
  | .lit l :: segs => l ++ specOut caps segs
  | .ref _ ds :: segs =>
    (match rxNum ds with
     | some k => if k ≥ 1 then caps.getD (k - 1) [] else []
     | none => []) ++ specOut caps segs

theorem expandSpec_nil (caps : List Bytes) (fuel : Nat) : expandSpec caps fuel [] = [] := by
  cases fuel <;> rfl

theorem expandSpec_plain (caps : List Bytes) : ∀ (l : Bytes) (fuel : Nat) (rest : Bytes), cDollar ∉ l → l.length ≤ fuel →
    expandSpec caps fuel (l ++ rest) = l ++ expandSpec caps (fuel - l.length) rest := by
  intro l
  induction l with
  | nil => intro fuel rest _ _; simp
  | cons b l ih =>
    intro fuel rest hm hf
    simp only [List.mem_cons, not_or] at hm
    cases fuel with
    | zero => simp at hf
    | succ fuel =>
      have hb : (b == cDollar) = false := by
        cases hbb : (b == cDollar) with
        | false => rfl
        | true => exfalso; apply hm.1; simp at hbb; exact hbb.symm
      simp only [List.cons_append, expandSpec, hb, Bool.false_eq_true, if_false, List.length_cons,
        List.cons.injEq, true_and]
      rw [ih fuel rest hm.2 (by simpa using hf)]
      congr 2; omega

theorem rxExtract_ref (b : Bool) (ds R : Bytes) (hne : ds ≠ []) (hd : ds.all isWordByte = true)
    (ht : tailOk b R) : rxExtract (refTail b ds ++ R) = some (ds, R) := by
  have hall : ∀ a ∈ ds, isWordByte a = true := fun a ha => List.all_eq_true.mp hd a ha
  have hemp : ds.isEmpty = false := by cases ds <;> simp_all
  cases b with
  | true =>
    have hrb : isWordByte cRBrace = false := by decide
    have htw : (ds ++ cRBrace :: R).takeWhile isWordByte = ds := by
      rw [List.takeWhile_append_of_pos hall]; simp [hrb]
    simp only [refTail, if_true, List.cons_append, List.append_assoc, List.nil_append, rxExtract,
      beq_self_eq_true, htw, hemp, Bool.false_eq_true, if_false, List.drop_left]
  | false =>
    cases ds with
    | nil => exact absurd rfl hne
    | cons d ds' =>
      have hdd : isWordByte d = true := by simp only [List.all_cons, Bool.and_eq_true] at hd; exact hd.1
      have hlb : (d == cLBrace) = false := by simpa using word_ne_lbrace d hdd
      have htw : (d :: (ds' ++ R)).takeWhile isWordByte = d :: ds' := by
        have := List.takeWhile_append_of_pos (l₂ := R) hall
        rw [takeWhile_word_tail R ht] at this
        simpa using this
      have hdrop : List.drop (d :: ds').length (d :: (ds' ++ R)) = R := by simp
      show rxExtract (d :: ds' ++ R) = some (d :: ds', R)
      rw [List.cons_append]
      unfold rxExtract
      simp only [hlb, Bool.false_eq_true, if_false]
      rw [htw, hdrop]
      simp

theorem expandSpec_flat (caps : List Bytes) : ∀ (segs : List Seg) (fuel : Nat), (∀ s ∈ segs, segOk s = true) →
    followOk segs = true → (flatSegs segs).length ≤ fuel →
    expandSpec caps fuel (flatSegs segs) = specOut caps segs := by
  intro segs
  induction segs with
  | nil => intro fuel _ _ _; exact expandSpec_nil caps fuel
  | cons s segs ih =>
    intro fuel hok hfo hf
    have hok' : ∀ s ∈ segs, segOk s = true := fun s hs => hok s (List.mem_cons_of_mem _ hs)
    cases s with
    | lit l =>
      have hl := segOk_lit l (hok _ List.mem_cons_self)
      simp only [flatSegs, Seg.text, List.length_append, specOut] at hf ⊢
      rw [expandSpec_plain caps l fuel _ hl (by omega)]
      rw [ih _ hok' (by simpa [followOk] using hfo) (by omega)]
    | ref b ds =>
      obtain ⟨hne, hd, _⟩ := segOk_ref b ds (hok _ List.mem_cons_self)
      obtain ⟨ht, hfo'⟩ := followOk_cons_ref b ds segs hfo
      have hx := rxExtract_ref b ds (flatSegs segs) hne hd ht
      -- the byte after `$` is `{` or a word byte, not `$`
      have htail : ∃ c tl, refTail b ds = c :: tl ∧ (c == cDollar) = false := by
        cases b with
        | true => exact ⟨cLBrace, ds ++ [cRBrace], rfl, by decide⟩
        | false =>
          cases ds with
          | nil => exact absurd rfl hne
          | cons d ds' =>
            have hdd : isWordByte d = true := by simp only [List.all_cons, Bool.and_eq_true] at hd; exact hd.1
            exact ⟨d, ds', rfl, by simpa using word_ne_dollar d hdd⟩
      obtain ⟨c, tl, hc1, hc2⟩ := htail
      simp only [flatSegs, Seg.text, refText_cons, List.cons_append, List.length_cons, List.length_append,
        specOut] at hf ⊢
      cases fuel with
      | zero => omega
      | succ fuel =>
        rw [hc1] at hx hf ⊢
        simp only [List.cons_append] at hx hf ⊢
        simp only [expandSpec, beq_self_eq_true, if_true, hc2, Bool.false_eq_true, if_false, hx]
        rw [ih fuel hok' hfo' (by simp at hf; omega)]
        cases rxNum ds <;> rfl

/-! ### D'. the regex-side guard on a segmented template -/

theorem refsAsciiFollowed_plain : ∀ (l : Bytes) (fuel : Nat) (rest : Bytes), cDollar ∉ l → l.length ≤ fuel →
    refsAsciiFollowed fuel (l ++ rest) = refsAsciiFollowed (fuel - l.length) rest := by
  intro l
  induction l with
  | nil => intro fuel rest _ _; simp
  | cons b l ih =>
    intro fuel rest hm hf
    simp only [List.mem_cons, not_or] at hm
    cases fuel with
    | zero => simp at hf
    | succ fuel =>
      have hb : (b == cDollar) = false := by
        cases hbb : (b == cDollar) with
        | false => rfl
        | true => exfalso; apply hm.1; simp at hbb; exact hbb.symm
      simp only [List.cons_append, refsAsciiFollowed, hb, Bool.false_eq_true, if_false, List.length_cons]
      rw [ih fuel rest hm.2 (by simpa using hf)]
      congr 1; omega

/-- after a well-formed reference of a safe template the next byte is ASCII: `}` for a braced one,
    what `followOk` allows for a bare one -/
theorem asciiAfterName_ref (b : Bool) (ds R : Bytes) (hne : ds ≠ []) (hd : ds.all isWordByte = true)
    (ht : tailOk b R) (ha : b = false → headAscii R) :
    asciiAfterName (refTail b ds ++ R) = true := by
  have hall : ∀ a ∈ ds, isWordByte a = true := fun a ha => List.all_eq_true.mp hd a ha
  cases b with
  | true =>
    have hrb : isWordByte cRBrace = false := by decide
    have hdw : (ds ++ cRBrace :: R).dropWhile isWordByte = cRBrace :: R := by
      rw [List.dropWhile_append_of_pos hall]; simp [hrb]
    simp only [refTail, if_true, List.cons_append, List.append_assoc, List.nil_append, asciiAfterName,
      beq_self_eq_true, hdw]
    decide
  | false =>
    cases ds with
    | nil => exact absurd rfl hne
    | cons d ds' =>
      have hdd : isWordByte d = true := by simp only [List.all_cons, Bool.and_eq_true] at hd; exact hd.1
      have hlb : (d == cLBrace) = false := by simpa using word_ne_lbrace d hdd
      have hdw : (d :: (ds' ++ R)).dropWhile isWordByte = R.dropWhile isWordByte := by
        have := List.dropWhile_append_of_pos (l₂ := R) hall
        simpa using this
      show asciiAfterName (d :: ds' ++ R) = true
      rw [List.cons_append]
      unfold asciiAfterName
      simp only [hlb, Bool.false_eq_true, if_false]
      rw [hdw]
      have h1 := ht rfl
      have h2 := ha rfl
      cases R with
      | nil => rfl
      | cons c r =>
        simp only [headAscii] at h1 h2
        simp [h1.1, h2]

/-- **a safe template satisfies the regex-side guard**: `followOk` (strengthened: ASCII after a bare
    name) gives `refsAsciiFollowed` -/
theorem refsAsciiFollowed_flat : ∀ (segs : List Seg) (fuel : Nat), (∀ s ∈ segs, segOk s = true) →
    followOk segs = true → (flatSegs segs).length ≤ fuel →
    refsAsciiFollowed fuel (flatSegs segs) = true := by
  intro segs
  induction segs with
  | nil => intro fuel _ _ _; cases fuel <;> rfl
  | cons s segs ih =>
    intro fuel hok hfo hf
    have hok' : ∀ s ∈ segs, segOk s = true := fun s hs => hok s (List.mem_cons_of_mem _ hs)
    cases s with
    | lit l =>
      have hl := segOk_lit l (hok _ List.mem_cons_self)
      simp only [flatSegs, Seg.text, List.length_append] at hf ⊢
      rw [refsAsciiFollowed_plain l fuel _ hl (by omega)]
      exact ih _ hok' (by simpa [followOk] using hfo) (by omega)
    | ref b ds =>
      obtain ⟨hne, hd, _⟩ := segOk_ref b ds (hok _ List.mem_cons_self)
      obtain ⟨ht, hfo'⟩ := followOk_cons_ref b ds segs hfo
      have hx := rxExtract_ref b ds (flatSegs segs) hne hd ht
      have hfa : b = false → headAscii (flatSegs segs) := by
        intro hb; subst hb
        exact followOk_cons_ref_ascii ds segs hfo
      have hasc : asciiAfterName (refTail b ds ++ flatSegs segs) = true :=
        asciiAfterName_ref b ds _ hne hd ht hfa
      have htail : ∃ c tl, refTail b ds = c :: tl ∧ (c == cDollar) = false := by
        cases b with
        | true => exact ⟨cLBrace, ds ++ [cRBrace], rfl, by decide⟩
        | false =>
          cases ds with
          | nil => exact absurd rfl hne
          | cons d ds' =>
            have hdd : isWordByte d = true := by simp only [List.all_cons, Bool.and_eq_true] at hd; exact hd.1
            exact ⟨d, ds', rfl, by simpa using word_ne_dollar d hdd⟩
      obtain ⟨c, tl, hc1, hc2⟩ := htail
      simp only [flatSegs, Seg.text, refText_cons, List.cons_append, List.length_cons, List.length_append] at hf ⊢
      cases fuel with
      | zero => omega
      | succ fuel =>
        rw [hc1] at hx hasc hf ⊢
        simp only [List.cons_append] at hx hasc hf ⊢
        simp only [refsAsciiFollowed, beq_self_eq_true, if_true, hc2, Bool.false_eq_true, if_false, hx, hasc,
          Bool.true_and]
        exact ih fuel hok' hfo' (by simp at hf; omega)

theorem expected_eq_specOut (n : Nat) (caps : List Bytes) (hc : caps.length ≤ n) (segs : List Seg)
    (hok : ∀ s ∈ segs, segOk s = true) : expected n caps segs = specOut caps segs := by
  induction segs with
  | nil => rfl
  | cons s segs ih =>
    have ih' := ih (fun s hs => hok s (List.mem_cons_of_mem _ hs))
    cases s with
    | lit l => simp only [expected, specOut, ih']
    | ref b ds =>
      obtain ⟨hne, _, hcase⟩ := segOk_ref b ds (hok _ List.mem_cons_self)
      rcases hcase with ⟨k, hk⟩ | ⟨hk, ha⟩
      case inr => simp only [expected, specOut, ih', idxOf, ha, hk]
      have ha := rxNum_atoi ds hne k hk
      simp only [expected, specOut, ih', idxOf, ha, hk]
      congr 1
      by_cases h1 : k < 1
      · have : ¬ k ≥ 1 := by omega
        simp [h1, this]
      · have h1' : k ≥ 1 := by omega
        by_cases h2 : k > n
        · have : caps[k - 1]? = none := List.getElem?_eq_none (by omega)
          simp [h2, h1', this]
        · simp [h1, h2, h1']


/-! ### putting it together -/

theorem glob_format_segs (segs : List Seg) (caps : List Bytes) (n : Nat) (hs : SafeSegs segs = true)
    (hc : caps.length ≤ n) :
    (compileTemplate (flatSegs segs) n).format caps =
      some (expandSpec caps (flatSegs segs).length (flatSegs segs)) := by
  unfold SafeSegs at hs
  simp only [Bool.and_eq_true] at hs
  obtain ⟨hok0, hfo⟩ := hs
  have hok : ∀ s ∈ segs, segOk s = true := List.all_eq_true.mp hok0
  rw [expandSpec_flat caps segs _ hok hfo (Nat.le_refl _), ← expected_eq_specOut n caps hc segs hok]
  unfold compileTemplate
  rw [findRefs_flat segs _ hok hfo (Nat.le_refl _)]
  simp only
  split
  · -- no reference at all: the template is returned unchanged
    rename_i hemp
    have h0 : refsOf segs = [] := by simpa using hemp
    simp only [Formatter.format, if_true]
    rw [expected_no_refs n caps segs h0]
  · -- at least one reference (usable or not): `Sprintf` on the escaped, substituted template
    rw [substRefs_flat n segs _ hok hfo (Nat.le_refl _)]
    simp only [Formatter.format, Bool.false_eq_true, if_false]
    rw [args_eq]
    exact sprintf_fmtOf n caps segs

/-! ### E. totality: the format string never leaves the modelled `Sprintf` fragment -/

/-- `%` occurs only in pairs `%%` (`pend`: an odd `%` has just been read) -/
def pctPaired : Bool → Bytes → Bool
  | pend, [] => !pend
  | false, b :: r => if b == cPct then pctPaired true r else pctPaired false r
  | true, b :: r => b == cPct && pctPaired false r

/-- every `%` is the head of `%%` or `%s` -/
def fmtOk : Bool → Bytes → Bool
  | pend, [] => !pend
  | false, b :: r => if b == cPct then fmtOk true r else fmtOk false r
  | true, b :: r => (b == cPct || b == 115) && fmtOk false r

theorem pctPaired_fmtOk : ∀ (s : Bytes) (pend : Bool), pctPaired pend s = true → fmtOk pend s = true := by
  intro s
  induction s with
  | nil => intro pend h; cases pend <;> simp [pctPaired, fmtOk] at h ⊢
  | cons b r ih =>
    intro pend h
    cases pend with
    | false =>
      simp only [pctPaired] at h
      simp only [fmtOk]
      split <;> rename_i hb
      · simp only [hb, if_true] at h; exact ih _ h
      · simp only [hb] at h; exact ih _ h
    | true =>
      simp only [pctPaired, Bool.and_eq_true] at h
      simp only [fmtOk, Bool.and_eq_true, Bool.or_eq_true]
      exact ⟨Or.inl h.1, ih _ h.2⟩

theorem pctPaired_escapePct (s : Bytes) : pctPaired false (escapePct s) = true := by
  induction s with
  | nil => rfl
  | cons b s ih =>
    by_cases hb : (b == cPct) = true
    · have hbe : b = cPct := by simpa using hb
      subst hbe
      rw [escapePct_cons_pct]
      simpa [pctPaired] using ih
    · have hb' : (b == cPct) = false := by simpa using hb
      rw [escapePct_cons_plain b s hb']
      simpa [pctPaired, hb'] using ih

/-- skipping text without `%` -/
theorem pctPaired_plain : ∀ (m r : Bytes), cPct ∉ m → pctPaired false (m ++ r) = pctPaired false r := by
  intro m
  induction m with
  | nil => intro r _; rfl
  | cons b m ih =>
    intro r h
    simp only [List.mem_cons, not_or] at h
    have hb : (b == cPct) = false := by
      cases hbb : (b == cPct) with
      | false => rfl
      | true => exfalso; apply h.1; simp at hbb; exact hbb.symm
    simp only [List.cons_append, pctPaired, hb, Bool.false_eq_true, if_false]
    exact ih r h.2

/-- the pass keeps the invariant, for EVERY input in which `%` is paired and every fuel: bytes are
    copied, references (which contain no `%`) are dropped or replaced by `%s` -/
theorem substRefs_fmtOk (n : Nat) : ∀ (fuel : Nat) (s : Bytes) (pend : Bool), pctPaired pend s = true →
    fmtOk pend (substRefs n fuel s).1 = true := by
  intro fuel
  induction fuel with
  | zero => intro s pend h; simpa [substRefs] using pctPaired_fmtOk s pend h
  | succ fuel ih =>
    intro s pend h
    cases s with
    | nil => simpa [substRefs] using pctPaired_fmtOk [] pend h
    | cons b rest =>
      cases pend with
      | true =>
        simp only [pctPaired, Bool.and_eq_true] at h
        have hbe : b = cPct := by simpa using h.1
        subst hbe
        have hd : (cPct == cDollar) = false := by decide
        simp only [substRefs, hd, Bool.false_eq_true, if_false, fmtOk, beq_self_eq_true, Bool.true_or, Bool.true_and]
        exact ih rest false h.2
      | false =>
        by_cases hd : (b == cDollar) = true
        · have hbe : b = cDollar := by simpa using hd
          subst hbe
          have hp : (cDollar == cPct) = false := by decide
          simp only [pctPaired, hp, Bool.false_eq_true, if_false] at h
          simp only [substRefs, beq_self_eq_true, if_true]
          cases hm : refMatchAt rest with
          | none =>
            simp only [fmtOk, hp, Bool.false_eq_true, if_false]
            exact ih rest false h
          | some x =>
            obtain ⟨m, g, r⟩ := x
            obtain ⟨hsp, hpm⟩ := refMatchAt_split rest m g r hm
            rw [hsp, pctPaired_plain m r hpm] at h
            have hr := ih r false h
            simp only
            cases atoiDigits g with
            | none => exact hr
            | some idx =>
              simp only
              split
              · exact hr
              · simpa [fmtOk] using hr
        · have hd' : (b == cDollar) = false := by simpa using hd
          simp only [substRefs, hd', Bool.false_eq_true, if_false]
          by_cases hp : (b == cPct) = true
          · simp only [pctPaired, hp, if_true] at h
            simp only [fmtOk, hp, if_true]
            exact ih rest true h
          · have hp' : (b == cPct) = false := by simpa using hp
            simp only [pctPaired, hp', Bool.false_eq_true, if_false] at h
            simp only [fmtOk, hp', Bool.false_eq_true, if_false]
            exact ih rest false h

/-- on such a format string the modelled `Sprintf` is defined, with any number of arguments (too few:
    `%!s(MISSING)`, too many: `%!(EXTRA …)`, both inside the model) -/
theorem sprintfS_isSome_of_fmtOk : ∀ (k : Nat) (f : Bytes) (args : List Bytes), f.length ≤ k → fmtOk false f = true →
    (sprintfS f args).isSome = true := by
  intro k
  induction k with
  | zero =>
    intro f args hk _
    have : f = [] := by cases f <;> simp_all
    subst this
    cases args <;> simp [sprintfS]
  | succ k ih =>
    intro f args hk h
    cases f with
    | nil => cases args <;> simp [sprintfS]
    | cons b rest =>
      simp only [List.length_cons] at hk
      by_cases hp : (b == cPct) = true
      · simp only [fmtOk, hp, if_true] at h
        cases rest with
        | nil => simp [fmtOk] at h
        | cons c rest' =>
          simp only [fmtOk, Bool.and_eq_true, Bool.or_eq_true] at h
          simp only [List.length_cons] at hk
          have hbe : b = cPct := by simpa using hp
          subst hbe
          by_cases hc : (c == 115) = true
          · have hce : c = 115 := by simpa using hc
            subst hce
            cases args with
            | nil =>
              rw [sprintfS.eq_def]
              have := ih rest' [] (by omega) h.2
              simp only [beq_self_eq_true, if_true, Option.isSome_map]
              exact this
            | cons a as =>
              rw [sprintfS_pct_s, Option.isSome_map]
              exact ih rest' as (by omega) h.2
          · have hc' : (c == 115) = false := by simpa using hc
            have hce : c = cPct := by
              rcases h.1 with h1 | h1
              · simpa using h1
              · rw [h1] at hc'; cases hc'
            subst hce
            rw [sprintfS_pct_pct, Option.isSome_map]
            exact ih rest' args (by omega) h.2
      · have hp' : (b == cPct) = false := by simpa using hp
        simp only [fmtOk, hp', Bool.false_eq_true, if_false] at h
        rw [sprintfS_cons_plain b rest args hp', Option.isSome_map]
        exact ih rest args (by omega) h

/-- **`Format` is total**: for every template, every capture count and every capture list the result is
    inside the modelled `Sprintf` fragment -/
theorem compileTemplate_format_isSome (tmpl : Bytes) (n : Nat) (caps : List Bytes) :
    ((compileTemplate tmpl n).format caps).isSome = true := by
  unfold compileTemplate
  simp only
  split
  · rfl
  · simp only [Formatter.format, Bool.false_eq_true, if_false]
    exact sprintfS_isSome_of_fmtOk _ _ _ (Nat.le_refl _)
      (substRefs_fmtOk n _ _ false (pctPaired_escapePct tmpl))

end SE
