import SE.Proofs.Template
/-
C11, glob side: on templates that satisfy `SafeSegs` the `NewTemplateFormatter` / `Format` pair
(reference regex repaired: the name class is `[a-zA-Z0-9_]`) computes `expandSpec`.

Structure of the proof (tmpl = flatSegs segs):
  A. `findRefs` finds exactly the references of `segs`              (`findRefs_flat`)
  B. each textual `ReplaceAll` turns the occurrences of one reference text into `%s` / nothing and
     leaves everything else alone                                    (`replaceAll_render`, `fold_render`)
  C. `Sprintf` on the final format string fills the captures in      (`sprintf_renderAll`)
  D. `expandSpec` on `flatSegs segs` yields the same bytes           (`expandSpec_flat`, `expected_eq_specOut`)
-/
namespace SE

/-! ### bytes -/

theorem digit_isRefByte (d : UInt8) (h : isDigitB d = true) : isRefByte d = true := by
  simp only [isDigitB, Bool.and_eq_true, decide_eq_true_eq] at h
  simp [isRefByte, isWordByte, h.1, h.2]

theorem digit_isWordByte (d : UInt8) (h : isDigitB d = true) : isWordByte d = true := by
  simp only [isDigitB, Bool.and_eq_true, decide_eq_true_eq] at h
  simp [isWordByte, h.1, h.2]

theorem digit_ne_dollar (d : UInt8) (h : isDigitB d = true) : d ≠ cDollar := by
  intro e; subst e; revert h; decide

theorem digit_ne_lbrace (d : UInt8) (h : isDigitB d = true) : d ≠ cLBrace := by
  intro e; subst e; revert h; decide

theorem word_isRefByte (d : UInt8) (h : isWordByte d = true) : isRefByte d = true := by
  simpa [isRefByte] using h

theorem word_ne_dollar (d : UInt8) (h : isWordByte d = true) : d ≠ cDollar := by
  intro e; subst e; revert h; decide

theorem word_ne_lbrace (d : UInt8) (h : isWordByte d = true) : d ≠ cLBrace := by
  intro e; subst e; revert h; decide

theorem not_ref_not_word (c : UInt8) (h : isRefByte c = false) : isWordByte c = false := h

theorem rxNum_digits (ds : Bytes) (h : (rxNum ds).isSome = true) : ds.all isDigitB = true := by
  unfold rxNum at h
  split at h
  · rename_i hc; simp only [Bool.and_eq_true] at hc; exact hc.1.1
  · cases h

theorem rxNum_atoi (ds : Bytes) (hne : ds ≠ []) (k : Nat) (h : rxNum ds = some k) : atoiDigits ds = some k := by
  have hd := rxNum_digits ds (by rw [h]; rfl)
  unfold rxNum at h
  split at h
  · simp only [Option.some.injEq] at h
    unfold atoiDigits
    have h1 : ds.all (fun b => decide (48 ≤ b) && decide (b ≤ 57)) = true := hd
    have h2 : ds.isEmpty = false := by cases ds <;> simp_all
    simp [h1, h2, h]
  · cases h

/-! ### segments -/

def refTail (b : Bool) (ds : Bytes) : Bytes := if b then cLBrace :: (ds ++ [cRBrace]) else ds

theorem refText_cons (b : Bool) (ds : Bytes) : refText b ds = cDollar :: refTail b ds := by
  unfold refText refTail; cases b <;> rfl

theorem dollar_not_mem_digits (ds : Bytes) (hd : ds.all isWordByte = true) : cDollar ∉ ds := by
  intro hm
  have := List.all_eq_true.mp hd _ hm
  revert this; decide

theorem dollar_not_mem_refTail (b : Bool) (ds : Bytes) (hd : ds.all isWordByte = true) : cDollar ∉ refTail b ds := by
  have := dollar_not_mem_digits ds hd
  unfold refTail
  cases b
  · simpa using this
  · simp only [if_true, List.mem_cons, List.mem_append, List.not_mem_nil, or_false, not_or]
    exact ⟨by decide, this, by decide⟩

/-- a reference text determines its digits -/
theorem refText_inj (b b0 : Bool) (ds ds0 : Bytes) (hd : ds.all isWordByte = true) (hd0 : ds0.all isWordByte = true)
    (hne : ds ≠ []) (hne0 : ds0 ≠ []) (h : refText b ds = refText b0 ds0) : ds = ds0 := by
  unfold refText at h
  cases b <;> cases b0
  · simpa using h
  · simp only [Bool.false_eq_true, if_false, if_true, List.cons.injEq, true_and] at h
    exfalso
    cases ds with
    | nil => exact hne rfl
    | cons d ds' =>
      simp only [List.cons.injEq] at h
      have := word_ne_lbrace d (by simp only [List.all_cons, Bool.and_eq_true] at hd; exact hd.1)
      exact this h.1
  · simp only [Bool.false_eq_true, if_false, if_true, List.cons.injEq, true_and] at h
    exfalso
    cases ds0 with
    | nil => exact hne0 rfl
    | cons d ds' =>
      simp only [List.cons.injEq] at h
      have := word_ne_lbrace d (by simp only [List.all_cons, Bool.and_eq_true] at hd0; exact hd0.1)
      exact this h.1.symm
  · simp only [if_true, List.cons.injEq, true_and] at h
    exact List.append_cancel_right h

def refsOf : List Seg → List (Bytes × Bytes)
  | [] => []
  | .lit _ :: segs => refsOf segs
  | .ref b ds :: segs => (refText b ds, ds) :: refsOf segs

theorem refTexts_eq (segs : List Seg) : refTexts segs = (refsOf segs).map (·.1) := by
  induction segs with
  | nil => rfl
  | cons s segs ih => cases s <;> simp [refTexts, refsOf, ih]

theorem mem_refsOf (segs : List Seg) (m : Bytes × Bytes) (h : m ∈ refsOf segs) :
    ∃ b ds, Seg.ref b ds ∈ segs ∧ m = (refText b ds, ds) := by
  induction segs with
  | nil => cases h
  | cons s segs ih =>
    cases s with
    | lit l =>
      obtain ⟨b, ds, h1, h2⟩ := ih h
      exact ⟨b, ds, List.mem_cons_of_mem _ h1, h2⟩
    | ref b ds =>
      simp only [refsOf, List.mem_cons] at h
      rcases h with rfl | h
      · exact ⟨b, ds, List.mem_cons_self, rfl⟩
      · obtain ⟨b', ds', h1, h2⟩ := ih h
        exact ⟨b', ds', List.mem_cons_of_mem _ h1, h2⟩

theorem mem_refTexts_of_mem (segs : List Seg) (b : Bool) (ds : Bytes) (h : Seg.ref b ds ∈ segs) :
    refText b ds ∈ refTexts segs := by
  induction segs with
  | nil => cases h
  | cons s segs ih =>
    simp only [List.mem_cons] at h
    rcases h with rfl | h
    · simp [refTexts]
    · cases s <;> simp [refTexts, ih h]

/-- the facts `segOk` gives about a reference -/
theorem segOk_ref (b : Bool) (ds : Bytes) (h : segOk (.ref b ds) = true) :
    ds ≠ [] ∧ ds.all isWordByte = true ∧
      ((∃ k, rxNum ds = some k) ∨ (rxNum ds = none ∧ atoiDigits ds = none)) := by
  simp only [segOk, Bool.and_eq_true, Bool.or_eq_true, Bool.not_eq_true'] at h
  refine ⟨by intro e; simp [e] at h, h.1.2, ?_⟩
  cases hk : rxNum ds with
  | some k => exact Or.inl ⟨k, rfl⟩
  | none =>
    right
    refine ⟨rfl, ?_⟩
    have hnd : ds.all isDigitB = false := by
      rcases h.2 with h2 | h2
      · rw [hk] at h2; cases h2
      · exact h2
    unfold atoiDigits
    have h1 : ds.all (fun b => decide (48 ≤ b) && decide (b ≤ 57)) = false := hnd
    simp [h1]

theorem segOk_lit (l : Bytes) (h : segOk (.lit l) = true) : cDollar ∉ l ∧ cPct ∉ l := by
  simp only [segOk, Bool.and_eq_true, Bool.not_eq_true', List.contains_eq_mem, decide_eq_false_iff_not] at h
  exact h

/-! ### A. `findRefs` on a segmented template -/

theorem findRefs_plain : ∀ (l : Bytes) (fuel : Nat) (rest : Bytes), cDollar ∉ l → l.length ≤ fuel →
    findRefs fuel (l ++ rest) = findRefs (fuel - l.length) rest := by
  intro l
  induction l with
  | nil => intro fuel rest _ _; simp
  | cons b l ih =>
    intro fuel rest hd hf
    simp only [List.mem_cons, not_or] at hd
    cases fuel with
    | zero => simp at hf
    | succ fuel =>
      have hb : (b == cDollar) = false := by
        cases hbb : (b == cDollar) with
        | false => rfl
        | true => exfalso; apply hd.1; simp at hbb; exact hbb.symm
      simp only [List.cons_append, findRefs, hb, Bool.false_eq_true, if_false, List.length_cons]
      rw [ih fuel rest hd.2 (by simpa using hf)]
      congr 1; omega

/-- what may follow a bare reference: the end, or a byte outside `[a-zA-Z0-9_}]` (`$` is fine) -/
def tailOk (b : Bool) (R : Bytes) : Prop :=
  b = false → match R with
    | [] => True
    | c :: _ => isWordByte c = false ∧ c ≠ cRBrace

theorem takeWhile_ref_tail (R : Bytes) (h : tailOk false R) : R.takeWhile isRefByte = [] := by
  have := h rfl
  cases R with
  | nil => rfl
  | cons c r => simp only at this; simp [isRefByte_eq, this.1]

theorem takeWhile_word_tail (R : Bytes) (h : tailOk false R) : R.takeWhile isWordByte = [] := by
  have := h rfl
  cases R with
  | nil => rfl
  | cons c r => simp only at this; simp [this.1]

theorem refMatchAt_ref (b : Bool) (ds R : Bytes) (hne : ds ≠ []) (hd : ds.all isWordByte = true)
    (ht : tailOk b R) : refMatchAt (refTail b ds ++ R) = some (refTail b ds, ds, R) := by
  have hall : ∀ a ∈ ds, isRefByte a = true := fun a ha => word_isRefByte a (List.all_eq_true.mp hd a ha)
  cases b with
  | true =>
    have hrb : isRefByte cRBrace = false := by decide
    have htw : (ds ++ cRBrace :: R).takeWhile isRefByte = ds := by
      rw [List.takeWhile_append_of_pos hall]; simp [hrb]
    have hemp : ds.isEmpty = false := by cases ds <;> simp_all
    simp only [refTail, if_true, List.cons_append, List.append_assoc, List.nil_append, refMatchAt,
      beq_self_eq_true, htw, hemp, Bool.false_eq_true, if_false, List.drop_left]
  | false =>
    cases ds with
    | nil => exact absurd rfl hne
    | cons d ds' =>
      have hdd : isWordByte d = true := by simp only [List.all_cons, Bool.and_eq_true] at hd; exact hd.1
      have hlb : (d == cLBrace) = false := by simpa using word_ne_lbrace d hdd
      have htw : (d :: (ds' ++ R)).takeWhile isRefByte = d :: ds' := by
        have := List.takeWhile_append_of_pos (l₂ := R) hall
        rw [takeWhile_ref_tail R ht] at this
        simpa using this
      have hdrop : List.drop (d :: ds').length (d :: (ds' ++ R)) = R := by simp
      show refMatchAt (d :: ds' ++ R) = some (d :: ds', d :: ds', R)
      rw [List.cons_append]
      unfold refMatchAt
      simp only [hlb, Bool.false_eq_true, if_false]
      rw [htw, hdrop]
      have := ht rfl
      cases R with
      | nil => simp
      | cons c r =>
        simp only at this
        have hc : (c == cRBrace) = false := by simpa using this.2
        simp [hc]

/-- `followOk` as a statement about the remainder of the template -/
theorem followOk_cons_ref (b : Bool) (ds : Bytes) (segs : List Seg) (h : followOk (.ref b ds :: segs) = true) :
    tailOk b (flatSegs segs) ∧ followOk segs = true := by
  cases b with
  | true => exact ⟨fun e => (by cases e), (by simpa [followOk] using h)⟩
  | false =>
    simp only [followOk, Bool.and_eq_true] at h
    refine ⟨fun _ => ?_, h.2⟩
    have h1 := h.1
    cases hR : flatSegs segs with
    | nil => trivial
    | cons c r =>
      rw [hR] at h1
      simp only [Bool.and_eq_true, Bool.not_eq_true', bne_iff_ne, ne_eq] at h1
      exact h1.1

/-- the first byte, if any, is ASCII -/
def headAscii (R : Bytes) : Prop :=
  match R with
  | [] => True
  | c :: _ => c < 0x80

/-- the part of `followOk` the regex side needs: what follows a bare reference is absent or ASCII -/
theorem followOk_cons_ref_ascii (ds : Bytes) (segs : List Seg) (h : followOk (.ref false ds :: segs) = true) :
    headAscii (flatSegs segs) := by
  unfold headAscii
  simp only [followOk, Bool.and_eq_true] at h
  have h1 := h.1
  cases hR : flatSegs segs with
  | nil => trivial
  | cons c r =>
    rw [hR] at h1
    simp only [Bool.and_eq_true, decide_eq_true_eq] at h1
    exact h1.2

theorem findRefs_flat : ∀ (segs : List Seg) (fuel : Nat), (∀ s ∈ segs, segOk s = true) → followOk segs = true →
    (flatSegs segs).length ≤ fuel → findRefs fuel (flatSegs segs) = refsOf segs := by
  intro segs
  induction segs with
  | nil => intro fuel _ _ _; cases fuel <;> rfl
  | cons s segs ih =>
    intro fuel hok hfo hf
    have hok' : ∀ s ∈ segs, segOk s = true := fun s hs => hok s (List.mem_cons_of_mem _ hs)
    cases s with
    | lit l =>
      have hl := segOk_lit l (hok _ List.mem_cons_self)
      simp only [flatSegs, Seg.text, List.length_append] at hf ⊢
      rw [findRefs_plain l fuel _ hl.1 (by omega), refsOf]
      exact ih _ hok' (by simpa [followOk] using hfo) (by omega)
    | ref b ds =>
      obtain ⟨hne, hd, _⟩ := segOk_ref b ds (hok _ List.mem_cons_self)
      obtain ⟨ht, hfo'⟩ := followOk_cons_ref b ds segs hfo
      simp only [flatSegs, Seg.text, refText_cons, List.cons_append, List.length_cons, List.length_append] at hf ⊢
      cases fuel with
      | zero => omega
      | succ fuel =>
        simp only [findRefs, beq_self_eq_true, if_true, refMatchAt_ref b ds _ hne hd ht, refsOf, refText_cons]
        rw [ih fuel hok' hfo' (by omega)]

/-! ### B. the successive `ReplaceAll`s -/

/-- argument index of a reference (`none`: out of range, replaced by nothing) -/
def idxOf (n : Nat) (ds : Bytes) : Option Nat :=
  match atoiDigits ds with
  | some idx => if idx > n || idx < 1 then none else some (idx - 1)
  | none => none

def substOf (n : Nat) (ds : Bytes) : Bytes :=
  match idxOf n ds with
  | some _ => [cPct, 115]
  | none => []

theorem dollar_not_mem_substOf (n : Nat) (ds : Bytes) : cDollar ∉ substOf n ds := by
  unfold substOf; split <;> decide

/-- the format string while the references whose text is in `D` have been rewritten -/
def render (n : Nat) (D : List Bytes) : List Seg → Bytes
  | [] => []
  | .lit l :: segs => l ++ render n D segs
  | .ref b ds :: segs => (if refText b ds ∈ D then substOf n ds else refText b ds) ++ render n D segs

/-- the loop body of `NewTemplateFormatter` -/
def stepFn (n : Nat) (f : Formatter) (m : Bytes × Bytes) : Formatter :=
  match atoiDigits m.2 with
  | some idx =>
    if idx > n || idx < 1 then { f with fmtStr := replaceAll m.1 [] f.fmtStr.length f.fmtStr }
    else ⟨f.indexes ++ [idx - 1], replaceAll m.1 [cPct, 115] f.fmtStr.length f.fmtStr⟩
  | none => { f with fmtStr := replaceAll m.1 [] f.fmtStr.length f.fmtStr }

theorem compileTemplate_eq_fold (tmpl : Bytes) (n : Nat) :
    compileTemplate tmpl n = (findRefs tmpl.length tmpl).foldl (stepFn n) ⟨[], tmpl⟩ := by
  unfold compileTemplate
  simp only
  split
  · rename_i h
    have : findRefs tmpl.length tmpl = [] := by simpa using h
    rw [this]; rfl
  · rfl

theorem stepFn_eq (n : Nat) (f : Formatter) (m : Bytes × Bytes) :
    stepFn n f m = ⟨f.indexes ++ (idxOf n m.2).toList, replaceAll m.1 (substOf n m.2) f.fmtStr.length f.fmtStr⟩ := by
  unfold stepFn substOf idxOf
  cases atoiDigits m.2 with
  | none => simp
  | some idx =>
    by_cases h : (idx > n || idx < 1) = true
    · simp only [h, if_true]; simp
    · simp only [h]; simp

theorem replaceAll_nil (old new : Bytes) (fuel : Nat) : replaceAll old new fuel [] = [] := by
  cases fuel <;> rfl

theorem replaceAll_plain (old new : Bytes) (hd : old.head? = some cDollar) :
    ∀ (l : Bytes) (fuel : Nat) (rest : Bytes), cDollar ∉ l → l.length ≤ fuel →
      replaceAll old new fuel (l ++ rest) = l ++ replaceAll old new (fuel - l.length) rest := by
  intro l
  induction l with
  | nil => intro fuel rest _ _; simp
  | cons b l ih =>
    intro fuel rest hm hf
    simp only [List.mem_cons, not_or] at hm
    cases fuel with
    | zero => simp at hf
    | succ fuel =>
      have hp : old.isPrefixOf (b :: (l ++ rest)) = false := by
        cases old with
        | nil => simp at hd
        | cons o os =>
          simp only [List.head?_cons, Option.some.injEq] at hd
          subst hd
          have : (cDollar == b) = false := by
            cases hbb : (cDollar == b) with
            | false => rfl
            | true => exfalso; apply hm.1; simpa using hbb
          simp [List.isPrefixOf, this]
      simp only [List.cons_append, replaceAll, hp, Bool.false_and, Bool.false_eq_true, if_false,
        List.length_cons, List.cons.injEq, true_and]
      rw [ih fuel rest hm.2 (by simpa using hf)]
      congr 2; omega

/-- one `ReplaceAll(old, new)`: occurrences of `old` are exactly the not yet rewritten references
    with that text -/
theorem replaceAll_render (n : Nat) (b0 : Bool) (ds0 : Bytes) (D : List Bytes)
    (hne0 : ds0 ≠ []) (hd0 : ds0.all isWordByte = true) :
    ∀ (segs : List Seg) (fuel : Nat), (∀ s ∈ segs, segOk s = true) →
      (∀ t ∈ refTexts segs, (refText b0 ds0 <+: t → refText b0 ds0 = t) ∧ (t <+: refText b0 ds0 → t = refText b0 ds0)) →
      (render n D segs).length ≤ fuel →
      replaceAll (refText b0 ds0) (substOf n ds0) fuel (render n D segs) = render n (refText b0 ds0 :: D) segs := by
  have hhead : (refText b0 ds0).head? = some cDollar := by rw [refText_cons]; rfl
  intro segs
  induction segs with
  | nil => intro fuel _ _ _; exact replaceAll_nil _ _ _
  | cons s segs ih =>
    intro fuel hok hpf hf
    have hok' : ∀ s ∈ segs, segOk s = true := fun s hs => hok s (List.mem_cons_of_mem _ hs)
    cases s with
    | lit l =>
      have hl := segOk_lit l (hok _ List.mem_cons_self)
      simp only [render, List.length_append] at hf ⊢
      rw [replaceAll_plain _ _ hhead l fuel _ hl.1 (by omega)]
      rw [ih _ hok' (by simpa [refTexts] using hpf) (by omega)]
    | ref b ds =>
      obtain ⟨hne, hd, _⟩ := segOk_ref b ds (hok _ List.mem_cons_self)
      have hpf' : ∀ t ∈ refTexts segs, (refText b0 ds0 <+: t → refText b0 ds0 = t) ∧ (t <+: refText b0 ds0 → t = refText b0 ds0) :=
        fun t ht => hpf t (by simp [refTexts, ht])
      have hpf0 := hpf (refText b ds) (by simp [refTexts])
      simp only [render] at hf ⊢
      by_cases hD : refText b ds ∈ D
      · -- already rewritten
        have hD' : refText b ds ∈ refText b0 ds0 :: D := List.mem_cons_of_mem _ hD
        simp only [hD, hD', if_true, List.length_append] at hf ⊢
        rw [replaceAll_plain _ _ hhead _ fuel _ (dollar_not_mem_substOf n ds) (by omega)]
        rw [ih _ hok' hpf' (by omega)]
      · by_cases heq : refText b ds = refText b0 ds0
        · -- an occurrence of `old`
          have hds : ds = ds0 := refText_inj b b0 ds ds0 hd hd0 hne hne0 heq
          have hD' : refText b ds ∈ refText b0 ds0 :: D := by rw [heq]; exact List.mem_cons_self
          simp only [hD, hD', if_true, if_false, List.length_append] at hf ⊢
          rw [heq] at hf ⊢
          rw [hds]
          have hlen : 0 < (refText b0 ds0).length := by rw [refText_cons]; simp
          cases fuel with
          | zero => omega
          | succ fuel =>
            cases hold : refText b0 ds0 with
            | nil => rw [hold] at hlen; simp at hlen
            | cons o os =>
              rw [hold] at hf
              simp only [List.cons_append, replaceAll]
              have hp : (o :: os).isPrefixOf (o :: (os ++ render n D segs)) = true := by
                rw [List.isPrefixOf_iff_prefix]; exact ⟨render n D segs, by simp⟩
              simp only [hp, List.isEmpty_cons, Bool.not_false, Bool.and_self, if_true]
              have hdrop : List.drop (o :: os).length (o :: (os ++ render n D segs)) = render n D segs := by
                simp
              rw [hdrop, ← hold, ih fuel hok' hpf' (by simp at hf; omega)]
        · -- another, not yet rewritten reference: copied
          have hD' : refText b ds ∉ refText b0 ds0 :: D := by
            simp only [List.mem_cons, not_or]; exact ⟨heq, hD⟩
          simp only [hD, hD', if_false, List.length_append] at hf ⊢
          rw [refText_cons b ds] at hf ⊢
          simp only [List.cons_append, List.length_cons] at hf ⊢
          cases fuel with
          | zero => omega
          | succ fuel =>
            have hp : (refText b0 ds0).isPrefixOf (cDollar :: (refTail b ds ++ render n D segs)) = false := by
              cases hpp : (refText b0 ds0).isPrefixOf (cDollar :: (refTail b ds ++ render n D segs)) with
              | false => rfl
              | true =>
                exfalso
                rw [List.isPrefixOf_iff_prefix] at hpp
                have h2 : refText b ds <+: cDollar :: (refTail b ds ++ render n D segs) :=
                  ⟨render n D segs, by rw [refText_cons]; simp⟩
                rcases List.prefix_or_prefix_of_prefix hpp h2 with h | h
                · exact heq (hpf0.1 h).symm
                · exact heq (hpf0.2 h)
            simp only [replaceAll, hp, Bool.false_and, Bool.false_eq_true, if_false, List.cons.injEq, true_and]
            rw [replaceAll_plain _ _ hhead _ fuel _ (dollar_not_mem_refTail b ds hd) (by omega)]
            rw [ih _ hok' hpf' (by omega)]

theorem render_congr (n : Nat) (D D' : List Bytes) (segs : List Seg)
    (h : ∀ t ∈ refTexts segs, t ∈ D ↔ t ∈ D') : render n D segs = render n D' segs := by
  induction segs with
  | nil => rfl
  | cons s segs ih =>
    cases s with
    | lit l => simp only [render]; rw [ih (by simpa [refTexts] using h)]
    | ref b ds =>
      simp only [render]
      have h1 := h (refText b ds) (by simp [refTexts])
      rw [ih (fun t ht => h t (by simp [refTexts, ht]))]
      by_cases hD : refText b ds ∈ D
      · simp [hD, h1.mp hD]
      · have : refText b ds ∉ D' := fun h' => hD (h1.mpr h')
        simp [hD, this]

/-- the whole loop -/
theorem fold_render (n : Nat) (segs : List Seg) (hok : ∀ s ∈ segs, segOk s = true)
    (hpf : ∀ a ∈ refTexts segs, ∀ b ∈ refTexts segs, a <+: b → a = b) :
    ∀ (ms : List (Bytes × Bytes)) (f : Formatter) (D : List Bytes),
      (∀ m ∈ ms, ∃ b ds, Seg.ref b ds ∈ segs ∧ m = (refText b ds, ds)) →
      f.fmtStr = render n D segs →
      ms.foldl (stepFn n) f =
        ⟨f.indexes ++ ms.filterMap (fun m => idxOf n m.2), render n (ms.map (·.1) ++ D) segs⟩ := by
  intro ms
  induction ms with
  | nil => intro f D _ hf; cases f; simp at hf ⊢; exact hf
  | cons m ms ih =>
    intro f D hms hf
    obtain ⟨b0, ds0, hmem, rfl⟩ := hms m List.mem_cons_self
    obtain ⟨hne0, hd0, _⟩ := segOk_ref b0 ds0 (hok _ hmem)
    have hin := mem_refTexts_of_mem segs b0 ds0 hmem
    have hstep : (stepFn n f (refText b0 ds0, ds0)).fmtStr = render n (refText b0 ds0 :: D) segs := by
      rw [stepFn_eq]
      simp only
      rw [hf]
      exact replaceAll_render n b0 ds0 D hne0 hd0 segs _ hok
        (fun t ht => ⟨fun h => hpf _ hin _ ht h, fun h => hpf _ ht _ hin h⟩) (Nat.le_refl _)
    rw [List.foldl_cons, ih _ (refText b0 ds0 :: D) (fun m hm => hms m (List.mem_cons_of_mem _ hm)) hstep]
    have hidx : (stepFn n f (refText b0 ds0, ds0)).indexes = f.indexes ++ (idxOf n ds0).toList := by
      rw [stepFn_eq]
    rw [hidx]
    congr 1
    · cases h : idxOf n ds0 <;> simp [h]
    · apply render_congr
      intro t _
      simp only [List.mem_append, List.mem_cons, List.map_cons, List.mem_map]
      constructor
      · rintro (h | h | h)
        · exact Or.inl (Or.inr h)
        · exact Or.inl (Or.inl h)
        · exact Or.inr h
      · rintro ((h | h) | h)
        · exact Or.inr (Or.inl h)
        · exact Or.inl h
        · exact Or.inr (Or.inr h)

/-! ### C. `Sprintf` on the final format string -/

/-- all references rewritten -/
def renderAll (n : Nat) : List Seg → Bytes
  | [] => []
  | .lit l :: segs => l ++ renderAll n segs
  | .ref _ ds :: segs => substOf n ds ++ renderAll n segs

theorem render_all (n : Nat) (D : List Bytes) (segs : List Seg) (h : ∀ t ∈ refTexts segs, t ∈ D) :
    render n D segs = renderAll n segs := by
  induction segs with
  | nil => rfl
  | cons s segs ih =>
    cases s with
    | lit l => simp only [render, renderAll]; rw [ih (by simpa [refTexts] using h)]
    | ref b ds =>
      simp only [render, renderAll]
      rw [ih (fun t ht => h t (by simp [refTexts, ht]))]
      simp [h (refText b ds) (by simp [refTexts])]

def argsOf (n : Nat) (caps : List Bytes) : List Seg → List Bytes
  | [] => []
  | .lit _ :: segs => argsOf n caps segs
  | .ref _ ds :: segs => (match idxOf n ds with | some i => [caps.getD i []] | none => []) ++ argsOf n caps segs

/-- what the formatter outputs on a safe template -/
def expected (n : Nat) (caps : List Bytes) : List Seg → Bytes
  | [] => []
  | .lit l :: segs => l ++ expected n caps segs
  | .ref _ ds :: segs => (match idxOf n ds with | some i => caps.getD i [] | none => []) ++ expected n caps segs

theorem args_eq (n : Nat) (caps : List Bytes) (segs : List Seg) :
    ((refsOf segs).filterMap (fun m => idxOf n m.2)).map (fun i => caps.getD i []) = argsOf n caps segs := by
  induction segs with
  | nil => rfl
  | cons s segs ih =>
    cases s with
    | lit l => simpa [refsOf, argsOf] using ih
    | ref b ds =>
      simp only [refsOf, argsOf, List.filterMap_cons]
      cases h : idxOf n ds with
      | none => simpa using ih
      | some i => simp only [List.map_cons, ih]; rfl

theorem sprintfS_cons_plain (b : UInt8) (rest : Bytes) (args : List Bytes) (hb : (b == cPct) = false) :
    sprintfS (b :: rest) args = (sprintfS rest args).map (b :: ·) := by
  rw [sprintfS.eq_def]; simp [hb]

theorem sprintfS_plain : ∀ (l rest : Bytes) (args : List Bytes), cPct ∉ l →
    sprintfS (l ++ rest) args = (sprintfS rest args).map (l ++ ·) := by
  intro l
  induction l with
  | nil => intro rest args _; simp
  | cons b l ih =>
    intro rest args hm
    simp only [List.mem_cons, not_or] at hm
    have hb : (b == cPct) = false := by
      cases hbb : (b == cPct) with
      | false => rfl
      | true => exfalso; apply hm.1; simp at hbb; exact hbb.symm
    rw [List.cons_append, sprintfS_cons_plain _ _ _ hb]
    rw [ih rest args hm.2]
    cases sprintfS rest args <;> simp

theorem sprintfS_pct_s (R a : Bytes) (as : List Bytes) :
    sprintfS (cPct :: 115 :: R) (a :: as) = (sprintfS R as).map (a ++ ·) := by
  rw [sprintfS.eq_def]; simp

theorem sprintf_renderAll (n : Nat) (caps : List Bytes) (segs : List Seg) (hok : ∀ s ∈ segs, segOk s = true) :
    sprintfS (renderAll n segs) (argsOf n caps segs) = some (expected n caps segs) := by
  induction segs with
  | nil => simp [renderAll, argsOf, expected, sprintfS]
  | cons s segs ih =>
    have ih' := ih (fun s hs => hok s (List.mem_cons_of_mem _ hs))
    cases s with
    | lit l =>
      have hl := segOk_lit l (hok _ List.mem_cons_self)
      simp only [renderAll, argsOf, expected]
      rw [sprintfS_plain l _ _ hl.2, ih']; rfl
    | ref b ds =>
      simp only [renderAll, argsOf, expected, substOf]
      cases h : idxOf n ds with
      | none => simpa using ih'
      | some i =>
        simp only [List.cons_append, List.nil_append]
        rw [sprintfS_pct_s, ih']; rfl

theorem renderAll_no_args (n : Nat) (caps : List Bytes) (segs : List Seg) (h : argsOf n caps segs = []) :
    renderAll n segs = expected n caps segs := by
  induction segs with
  | nil => rfl
  | cons s segs ih =>
    cases s with
    | lit l => simp only [renderAll, expected]; rw [ih (by simpa [argsOf] using h)]
    | ref b ds =>
      simp only [argsOf] at h
      cases hi : idxOf n ds with
      | none =>
        rw [hi] at h
        simp only [renderAll, expected, substOf, hi]
        rw [ih (by simpa using h)]
      | some i => rw [hi] at h; simp at h

/-! ### D. `expandSpec` on a segmented template -/

def specOut (caps : List Bytes) : List Seg → Bytes
  | [] => []
  | .lit l :: segs => l ++ specOut caps segs
  | .ref _ ds :: segs =>
    (match rxNum ds with
     | some k => if k ≥ 1 then caps.getD (k - 1) [] else []
     | none => []) ++ specOut caps segs

theorem expandSpec_nil (caps : List Bytes) (fuel : Nat) : expandSpec caps fuel [] = [] := by
  cases fuel <;> rfl

theorem expandSpec_plain (caps : List Bytes) : ∀ (l : Bytes) (fuel : Nat) (rest : Bytes), cDollar ∉ l → l.length ≤ fuel →
    expandSpec caps fuel (l ++ rest) = l ++ expandSpec caps (fuel - l.length) rest := by
  intro l
  induction l with
  | nil => intro fuel rest _ _; simp
  | cons b l ih =>
    intro fuel rest hm hf
    simp only [List.mem_cons, not_or] at hm
    cases fuel with
    | zero => simp at hf
    | succ fuel =>
      have hb : (b == cDollar) = false := by
        cases hbb : (b == cDollar) with
        | false => rfl
        | true => exfalso; apply hm.1; simp at hbb; exact hbb.symm
      simp only [List.cons_append, expandSpec, hb, Bool.false_eq_true, if_false, List.length_cons,
        List.cons.injEq, true_and]
      rw [ih fuel rest hm.2 (by simpa using hf)]
      congr 2; omega

theorem rxExtract_ref (b : Bool) (ds R : Bytes) (hne : ds ≠ []) (hd : ds.all isWordByte = true)
    (ht : tailOk b R) : rxExtract (refTail b ds ++ R) = some (ds, R) := by
  have hall : ∀ a ∈ ds, isWordByte a = true := fun a ha => List.all_eq_true.mp hd a ha
  have hemp : ds.isEmpty = false := by cases ds <;> simp_all
  cases b with
  | true =>
    have hrb : isWordByte cRBrace = false := by decide
    have htw : (ds ++ cRBrace :: R).takeWhile isWordByte = ds := by
      rw [List.takeWhile_append_of_pos hall]; simp [hrb]
    simp only [refTail, if_true, List.cons_append, List.append_assoc, List.nil_append, rxExtract,
      beq_self_eq_true, htw, hemp, Bool.false_eq_true, if_false, List.drop_left]
  | false =>
    cases ds with
    | nil => exact absurd rfl hne
    | cons d ds' =>
      have hdd : isWordByte d = true := by simp only [List.all_cons, Bool.and_eq_true] at hd; exact hd.1
      have hlb : (d == cLBrace) = false := by simpa using word_ne_lbrace d hdd
      have htw : (d :: (ds' ++ R)).takeWhile isWordByte = d :: ds' := by
        have := List.takeWhile_append_of_pos (l₂ := R) hall
        rw [takeWhile_word_tail R ht] at this
        simpa using this
      have hdrop : List.drop (d :: ds').length (d :: (ds' ++ R)) = R := by simp
      show rxExtract (d :: ds' ++ R) = some (d :: ds', R)
      rw [List.cons_append]
      unfold rxExtract
      simp only [hlb, Bool.false_eq_true, if_false]
      rw [htw, hdrop]
      simp

theorem expandSpec_flat (caps : List Bytes) : ∀ (segs : List Seg) (fuel : Nat), (∀ s ∈ segs, segOk s = true) →
    followOk segs = true → (flatSegs segs).length ≤ fuel →
    expandSpec caps fuel (flatSegs segs) = specOut caps segs := by
  intro segs
  induction segs with
  | nil => intro fuel _ _ _; exact expandSpec_nil caps fuel
  | cons s segs ih =>
    intro fuel hok hfo hf
    have hok' : ∀ s ∈ segs, segOk s = true := fun s hs => hok s (List.mem_cons_of_mem _ hs)
    cases s with
    | lit l =>
      have hl := segOk_lit l (hok _ List.mem_cons_self)
      simp only [flatSegs, Seg.text, List.length_append, specOut] at hf ⊢
      rw [expandSpec_plain caps l fuel _ hl.1 (by omega)]
      rw [ih _ hok' (by simpa [followOk] using hfo) (by omega)]
    | ref b ds =>
      obtain ⟨hne, hd, _⟩ := segOk_ref b ds (hok _ List.mem_cons_self)
      obtain ⟨ht, hfo'⟩ := followOk_cons_ref b ds segs hfo
      have hx := rxExtract_ref b ds (flatSegs segs) hne hd ht
      -- the byte after `$` is `{` or a word byte, not `$`
      have htail : ∃ c tl, refTail b ds = c :: tl ∧ (c == cDollar) = false := by
        cases b with
        | true => exact ⟨cLBrace, ds ++ [cRBrace], rfl, by decide⟩
        | false =>
          cases ds with
          | nil => exact absurd rfl hne
          | cons d ds' =>
            have hdd : isWordByte d = true := by simp only [List.all_cons, Bool.and_eq_true] at hd; exact hd.1
            exact ⟨d, ds', rfl, by simpa using word_ne_dollar d hdd⟩
      obtain ⟨c, tl, hc1, hc2⟩ := htail
      simp only [flatSegs, Seg.text, refText_cons, List.cons_append, List.length_cons, List.length_append,
        specOut] at hf ⊢
      cases fuel with
      | zero => omega
      | succ fuel =>
        rw [hc1] at hx hf ⊢
        simp only [List.cons_append] at hx hf ⊢
        simp only [expandSpec, beq_self_eq_true, if_true, hc2, Bool.false_eq_true, if_false, hx]
        rw [ih fuel hok' hfo' (by simp at hf; omega)]
        cases rxNum ds <;> rfl

/-! ### D'. the regex-side guard on a segmented template -/

theorem refsAsciiFollowed_plain : ∀ (l : Bytes) (fuel : Nat) (rest : Bytes), cDollar ∉ l → l.length ≤ fuel →
    refsAsciiFollowed fuel (l ++ rest) = refsAsciiFollowed (fuel - l.length) rest := by
  intro l
  induction l with
  | nil => intro fuel rest _ _; simp
  | cons b l ih =>
    intro fuel rest hm hf
    simp only [List.mem_cons, not_or] at hm
    cases fuel with
    | zero => simp at hf
    | succ fuel =>
      have hb : (b == cDollar) = false := by
        cases hbb : (b == cDollar) with
        | false => rfl
        | true => exfalso; apply hm.1; simp at hbb; exact hbb.symm
      simp only [List.cons_append, refsAsciiFollowed, hb, Bool.false_eq_true, if_false, List.length_cons]
      rw [ih fuel rest hm.2 (by simpa using hf)]
      congr 1; omega

/-- after a well-formed reference of a safe template the next byte is ASCII: `}` for a braced one,
    what `followOk` allows for a bare one -/
theorem asciiAfterName_ref (b : Bool) (ds R : Bytes) (hne : ds ≠ []) (hd : ds.all isWordByte = true)
    (ht : tailOk b R) (ha : b = false → headAscii R) :
    asciiAfterName (refTail b ds ++ R) = true := by
  have hall : ∀ a ∈ ds, isWordByte a = true := fun a ha => List.all_eq_true.mp hd a ha
  cases b with
  | true =>
    have hrb : isWordByte cRBrace = false := by decide
    have hdw : (ds ++ cRBrace :: R).dropWhile isWordByte = cRBrace :: R := by
      rw [List.dropWhile_append_of_pos hall]; simp [hrb]
    simp only [refTail, if_true, List.cons_append, List.append_assoc, List.nil_append, asciiAfterName,
      beq_self_eq_true, hdw]
    decide
  | false =>
    cases ds with
    | nil => exact absurd rfl hne
    | cons d ds' =>
      have hdd : isWordByte d = true := by simp only [List.all_cons, Bool.and_eq_true] at hd; exact hd.1
      have hlb : (d == cLBrace) = false := by simpa using word_ne_lbrace d hdd
      have hdw : (d :: (ds' ++ R)).dropWhile isWordByte = R.dropWhile isWordByte := by
        have := List.dropWhile_append_of_pos (l₂ := R) hall
        simpa using this
      show asciiAfterName (d :: ds' ++ R) = true
      rw [List.cons_append]
      unfold asciiAfterName
      simp only [hlb, Bool.false_eq_true, if_false]
      rw [hdw]
      have h1 := ht rfl
      have h2 := ha rfl
      cases R with
      | nil => rfl
      | cons c r =>
        simp only [headAscii] at h1 h2
        simp [h1.1, h2]

/-- **a safe template satisfies the regex-side guard**: `followOk` (strengthened: ASCII after a bare
    name) gives `refsAsciiFollowed` -/
theorem refsAsciiFollowed_flat : ∀ (segs : List Seg) (fuel : Nat), (∀ s ∈ segs, segOk s = true) →
    followOk segs = true → (flatSegs segs).length ≤ fuel →
    refsAsciiFollowed fuel (flatSegs segs) = true := by
  intro segs
  induction segs with
  | nil => intro fuel _ _ _; cases fuel <;> rfl
  | cons s segs ih =>
    intro fuel hok hfo hf
    have hok' : ∀ s ∈ segs, segOk s = true := fun s hs => hok s (List.mem_cons_of_mem _ hs)
    cases s with
    | lit l =>
      have hl := segOk_lit l (hok _ List.mem_cons_self)
      simp only [flatSegs, Seg.text, List.length_append] at hf ⊢
      rw [refsAsciiFollowed_plain l fuel _ hl.1 (by omega)]
      exact ih _ hok' (by simpa [followOk] using hfo) (by omega)
    | ref b ds =>
      obtain ⟨hne, hd, _⟩ := segOk_ref b ds (hok _ List.mem_cons_self)
      obtain ⟨ht, hfo'⟩ := followOk_cons_ref b ds segs hfo
      have hx := rxExtract_ref b ds (flatSegs segs) hne hd ht
      have hfa : b = false → headAscii (flatSegs segs) := by
        intro hb; subst hb
        exact followOk_cons_ref_ascii ds segs hfo
      have hasc : asciiAfterName (refTail b ds ++ flatSegs segs) = true :=
        asciiAfterName_ref b ds _ hne hd ht hfa
      have htail : ∃ c tl, refTail b ds = c :: tl ∧ (c == cDollar) = false := by
        cases b with
        | true => exact ⟨cLBrace, ds ++ [cRBrace], rfl, by decide⟩
        | false =>
          cases ds with
          | nil => exact absurd rfl hne
          | cons d ds' =>
            have hdd : isWordByte d = true := by simp only [List.all_cons, Bool.and_eq_true] at hd; exact hd.1
            exact ⟨d, ds', rfl, by simpa using word_ne_dollar d hdd⟩
      obtain ⟨c, tl, hc1, hc2⟩ := htail
      simp only [flatSegs, Seg.text, refText_cons, List.cons_append, List.length_cons, List.length_append] at hf ⊢
      cases fuel with
      | zero => omega
      | succ fuel =>
        rw [hc1] at hx hasc hf ⊢
        simp only [List.cons_append] at hx hasc hf ⊢
        simp only [refsAsciiFollowed, beq_self_eq_true, if_true, hc2, Bool.false_eq_true, if_false, hx, hasc,
          Bool.true_and]
        exact ih fuel hok' hfo' (by simp at hf; omega)

theorem expected_eq_specOut (n : Nat) (caps : List Bytes) (hc : caps.length ≤ n) (segs : List Seg)
    (hok : ∀ s ∈ segs, segOk s = true) : expected n caps segs = specOut caps segs := by
  induction segs with
  | nil => rfl
  | cons s segs ih =>
    have ih' := ih (fun s hs => hok s (List.mem_cons_of_mem _ hs))
    cases s with
    | lit l => simp only [expected, specOut, ih']
    | ref b ds =>
      obtain ⟨hne, _, hcase⟩ := segOk_ref b ds (hok _ List.mem_cons_self)
      rcases hcase with ⟨k, hk⟩ | ⟨hk, ha⟩
      case inr => simp only [expected, specOut, ih', idxOf, ha, hk]
      have ha := rxNum_atoi ds hne k hk
      simp only [expected, specOut, ih', idxOf, ha, hk]
      congr 1
      by_cases h1 : k < 1
      · have : ¬ k ≥ 1 := by omega
        simp [h1, this]
      · have h1' : k ≥ 1 := by omega
        by_cases h2 : k > n
        · have : caps[k - 1]? = none := List.getElem?_eq_none (by omega)
          simp [h2, h1', this]
        · simp [h1, h2, h1']

/-! ### putting it together -/

theorem prefixFree_spec (ts : List Bytes) (h : prefixFree ts = true) :
    ∀ a ∈ ts, ∀ b ∈ ts, a <+: b → a = b := by
  intro a ha b hb hp
  unfold prefixFree at h
  have := List.all_eq_true.mp (List.all_eq_true.mp h a ha) b hb
  simp only [Bool.or_eq_true, Bool.not_eq_true', beq_iff_eq] at this
  rcases this with h1 | h1
  · have := List.isPrefixOf_iff_prefix.mpr hp
    rw [this] at h1; cases h1
  · exact h1

theorem glob_format_segs (segs : List Seg) (caps : List Bytes) (n : Nat) (hs : SafeSegs segs = true)
    (hc : caps.length ≤ n) :
    (compileTemplate (flatSegs segs) n).format caps =
      some (expandSpec caps (flatSegs segs).length (flatSegs segs)) := by
  unfold SafeSegs at hs
  simp only [Bool.and_eq_true] at hs
  obtain ⟨⟨hok0, hfo⟩, hpf0⟩ := hs
  have hok : ∀ s ∈ segs, segOk s = true := List.all_eq_true.mp hok0
  have hpf := prefixFree_spec _ hpf0
  rw [expandSpec_flat caps segs _ hok hfo (Nat.le_refl _), ← expected_eq_specOut n caps hc segs hok]
  rw [compileTemplate_eq_fold, findRefs_flat segs _ hok hfo (Nat.le_refl _)]
  have hrender0 : flatSegs segs = render n [] segs := by
    clear hok0 hfo hpf0 hok hpf
    induction segs with
    | nil => rfl
    | cons s segs ih => cases s <;> simp [flatSegs, render, Seg.text, ← ih]
  rw [fold_render n segs hok hpf (refsOf segs) ⟨[], flatSegs segs⟩ [] (fun m hm => mem_refsOf segs m hm) hrender0]
  rw [render_all n _ segs (by intro t ht; rw [refTexts_eq] at ht; simpa using ht)]
  unfold Formatter.format
  simp only [List.nil_append]
  split
  · rename_i hemp
    have h0 : (refsOf segs).filterMap (fun m => idxOf n m.2) = [] := by simpa using hemp
    have : argsOf n caps segs = [] := by rw [← args_eq, h0]; rfl
    rw [renderAll_no_args n caps segs this]
  · rw [args_eq]
    exact sprintf_renderAll n caps segs hok

end SE
