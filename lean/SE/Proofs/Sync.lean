import SE.Model.Sync
/-
The *meaning* of the lock discipline of SE/Model/Sync.lean (used by C20, SE/Props/C20.lean).

 1. a small-step interleaving semantics of goroutines that acquire / release reader-writer locks
    (Go's sync.Mutex = a lock only ever taken exclusively, sync.RWMutex = Lock / RLock) and perform
    annotated accesses (`Acc` rows of the discipline table);
 2. `LockInv`: mutual exclusion of the lock table, an invariant of every reachable state;
 3. `Annot` / `WellAnnotated`: the thread's program really holds the locks its access rows claim;
    programs built from lock regions (`Seg`) are well annotated;
 4. `discipline_no_race`: if `violations rows = []` (every conflicting pair of rows is protected), no
    reachable state has two distinct goroutines simultaneously about to perform conflicting accesses;
 5. non-vacuity: a concrete writer/reader system in which the reader is blocked while the writer is at
    its access, and a concrete undisciplined system in which a race state *is* reachable.
-/
namespace SE.Sync
open SE

/-! ### 1. semantics -/

/-- what a goroutine does next -/
inductive Act where
  | acq (l : String) (excl : Bool)     -- `l.Lock()` (excl = true) / `l.RLock()` (excl = false)
  | rel (l : String)                   -- `l.Unlock()` / `l.RUnlock()`
  | access (a : Acc)                   -- a read or write of shared location `a.loc`
  deriving DecidableEq, Repr

/-- a goroutine: identity (`role`, instance number), the actions it still has to perform, and the
    locks it currently holds (name, held exclusively?) -/
structure Thread where
  role : Role
  inst : Nat
  prog : List Act
  held : List (String × Bool)
  deriving DecidableEq, Repr

abbrev State := List Thread

def Thread.id (t : Thread) : Role × Nat := (t.role, t.inst)
/-- the next action (the program counter) -/
def Thread.next (t : Thread) : Option Act := t.prog.head?
/-- holds `l` in some mode -/
def Thread.holds (t : Thread) (l : String) : Bool := t.held.any (·.1 == l)
/-- holds `l` exclusively -/
def Thread.holdsExcl (t : Thread) (l : String) : Bool := t.held.contains (l, true)

/-- `acq l true` needs that NO thread holds `l` in any mode (not even the acquiring one: Go mutexes are
    not reentrant); `acq l false` needs that no thread holds `l` exclusively; everything else is
    always enabled -/
def enabled (st : State) : Act → Bool
  | .acq l true => st.all fun t => !t.holds l
  | .acq l false => st.all fun t => !t.holdsExcl l
  | .rel _ => true
  | .access _ => true

/-- the thread after performing `a`, with `rest` left to do -/
def Thread.exec (t : Thread) (a : Act) (rest : List Act) : Thread :=
  match a with
  | .acq l x => { t with prog := rest, held := (l, x) :: t.held }
  | .rel l => { t with prog := rest, held := t.held.eraseP (·.1 == l) }
  | .access _ => { t with prog := rest }

/-- thread `i` performs its next action, if it has one and it is enabled -/
def stepAt (st : State) (i : Nat) : Option State :=
  match st[i]? with
  | none => none
  | some t =>
    match t.prog with
    | [] => none
    | a :: rest => if enabled st a then some (st.set i (t.exec a rest)) else none

/-- goroutine identities are pairwise distinct, and a non-`multi` role has the single instance 0 -/
def WF (st : State) : Prop :=
  (∀ (i j : Nat) (ti tj : Thread), st[i]? = some ti → st[j]? = some tj → i ≠ j → ti.id ≠ tj.id) ∧
  (∀ t ∈ st, t.role.multi = false → t.inst = 0)

/-- initial states: well-formed identities, nobody holds a lock -/
def Initial (st : State) : Prop := WF st ∧ ∀ t ∈ st, t.held = []

/-- reachability from `s0` by any interleaving -/
inductive Reach (s0 : State) : State → Prop
  | refl : Reach s0 s0
  | step {st st' : State} {i : Nat} : Reach s0 st → stepAt st i = some st' → Reach s0 st'

def Reachable (st : State) : Prop := ∃ s0, Initial s0 ∧ Reach s0 st

/-! ### basic lemmas -/

theorem holds_iff {t : Thread} {l : String} : t.holds l = true ↔ ∃ x, (l, x) ∈ t.held := by
  simp only [Thread.holds, List.any_eq_true, beq_iff_eq]
  constructor
  · rintro ⟨⟨l', x⟩, hm, rfl⟩; exact ⟨x, hm⟩
  · rintro ⟨x, hm⟩; exact ⟨(l, x), hm, rfl⟩

theorem holdsExcl_iff {t : Thread} {l : String} : t.holdsExcl l = true ↔ (l, true) ∈ t.held := by
  simp [Thread.holdsExcl]

theorem stepAt_inv {st st' : State} {i : Nat} (h : stepAt st i = some st') :
    ∃ t a rest, st[i]? = some t ∧ t.prog = a :: rest ∧ enabled st a = true ∧
      st' = st.set i (t.exec a rest) := by
  unfold stepAt at h
  split at h
  · cases h
  · rename_i t ht
    split at h
    · cases h
    · rename_i a rest hp
      split at h
      · rename_i hen
        refine ⟨t, a, rest, ht, hp, hen, ?_⟩
        cases h; rfl
      · cases h

theorem exec_role (t : Thread) (a : Act) (rest : List Act) : (t.exec a rest).role = t.role := by
  cases a <;> rfl
theorem exec_inst (t : Thread) (a : Act) (rest : List Act) : (t.exec a rest).inst = t.inst := by
  cases a <;> rfl
theorem exec_prog (t : Thread) (a : Act) (rest : List Act) : (t.exec a rest).prog = rest := by
  cases a <;> rfl

/-- a property of single threads survives replacing one thread by one that has it -/
theorem forall_mem_set {P : Thread → Prop} {st : State} {k : Nat} {t' : Thread}
    (h : ∀ u ∈ st, P u) (h' : P t') : ∀ u ∈ st.set k t', P u := by
  intro u hu
  rcases List.mem_or_eq_of_mem_set hu with hu | rfl
  · exact h u hu
  · exact h'

/-! ### 2. mutual exclusion of the lock table -/

/-- if thread `i` holds `l` exclusively then no other thread holds `l` in any mode -/
def LockInv (st : State) : Prop :=
  ∀ (i j : Nat) (ti tj : Thread) (l : String), st[i]? = some ti → st[j]? = some tj → i ≠ j →
    (l, true) ∈ ti.held → ∀ x, (l, x) ∉ tj.held

theorem lockInv_of_no_locks {st : State} (h : ∀ t ∈ st, t.held = []) : LockInv st := by
  intro i j ti tj l hi _ _ hex
  rw [h ti (List.mem_of_getElem? hi)] at hex
  cases hex

theorem lockInv_initial {st : State} (h : Initial st) : LockInv st := lockInv_of_no_locks h.2

/-- replacing thread `k` preserves `LockInv` when every lock it newly holds exclusively was held by
    nobody, and every lock it newly holds at all was held exclusively by nobody -/
theorem lockInv_set {st : State} {k : Nat} {t t' : Thread} (hinv : LockInv st)
    (hk : st[k]? = some t)
    (hE : ∀ l, (l, true) ∈ t'.held → (l, true) ∈ t.held ∨ ∀ u ∈ st, ∀ x, (l, x) ∉ u.held)
    (hS : ∀ l x, (l, x) ∈ t'.held → (l, x) ∈ t.held ∨ ∀ u ∈ st, (l, true) ∉ u.held) :
    LockInv (st.set k t') := by
  intro i j ti tj l hi hj hij hex x hx
  rw [List.getElem?_set] at hi hj
  by_cases hki : k = i
  · subst hki
    have hkj : ¬ k = j := hij
    rw [if_neg hkj] at hj
    rw [if_pos rfl] at hi
    split at hi
    · cases hi
      rcases hE l hex with h | h
      · exact hinv k j t tj l hk hj hij h x hx
      · exact h tj (List.mem_of_getElem? hj) x hx
    · cases hi
  · rw [if_neg hki] at hi
    by_cases hkj : k = j
    · subst hkj
      rw [if_pos rfl] at hj
      split at hj
      · cases hj
        rcases hS l x hx with h | h
        · exact hinv i k ti t l hi hk hij hex x h
        · exact h ti (List.mem_of_getElem? hi) hex
      · cases hj
    · rw [if_neg hkj] at hj
      exact hinv i j ti tj l hi hj hij hex x hx

theorem lockInv_step {st st' : State} {i : Nat} (hinv : LockInv st) (h : stepAt st i = some st') :
    LockInv st' := by
  obtain ⟨t, a, rest, ht, _, hen, rfl⟩ := stepAt_inv h
  cases a with
  | acq l x =>
    cases x with
    | true =>
      have hfree : ∀ u ∈ st, ∀ x, (l, x) ∉ u.held := by
        intro u hu x hx
        have := List.all_eq_true.mp hen u hu
        have hh : u.holds l = true := holds_iff.mpr ⟨x, hx⟩
        simp [hh] at this
      apply lockInv_set hinv ht
      · intro l' hm
        rcases List.mem_cons.mp hm with heq | hm
        · cases heq; exact Or.inr hfree
        · exact Or.inl hm
      · intro l' x' hm
        rcases List.mem_cons.mp hm with heq | hm
        · cases heq; exact Or.inr fun u hu => hfree u hu true
        · exact Or.inl hm
    | false =>
      have hfree : ∀ u ∈ st, (l, true) ∉ u.held := by
        intro u hu hx
        have := List.all_eq_true.mp hen u hu
        have hh : u.holdsExcl l = true := holdsExcl_iff.mpr hx
        simp [hh] at this
      apply lockInv_set hinv ht
      · intro l' hm
        rcases List.mem_cons.mp hm with heq | hm
        · cases heq
        · exact Or.inl hm
      · intro l' x' hm
        rcases List.mem_cons.mp hm with heq | hm
        · cases heq; exact Or.inr hfree
        · exact Or.inl hm
  | rel l =>
    apply lockInv_set hinv ht
    · intro l' hm; exact Or.inl (List.mem_of_mem_eraseP hm)
    · intro l' x' hm; exact Or.inl (List.mem_of_mem_eraseP hm)
  | access a =>
    apply lockInv_set hinv ht
    · intro l' hm; exact Or.inl hm
    · intro l' x' hm; exact Or.inl hm

theorem lockInv_reach {s0 st : State} (h0 : LockInv s0) (h : Reach s0 st) : LockInv st := by
  induction h with
  | refl => exact h0
  | step _ hs ih => exact lockInv_step ih hs

/-- mutual exclusion holds in every reachable state -/
theorem lockInv_reachable {st : State} (h : Reachable st) : LockInv st := by
  obtain ⟨s0, hi, hr⟩ := h
  exact lockInv_reach (lockInv_initial hi) hr

/-! ### goroutine identities are stable -/

theorem wf_step {st st' : State} {i : Nat} (hwf : WF st) (h : stepAt st i = some st') : WF st' := by
  obtain ⟨t, a, rest, ht, _, _, rfl⟩ := stepAt_inv h
  have hid : (t.exec a rest).id = t.id := by
    simp [Thread.id, exec_role, exec_inst]
  constructor
  · intro p q tp tq hp hq hpq
    rw [List.getElem?_set] at hp hq
    by_cases hip : i = p
    · subst hip
      have hiq : ¬ i = q := hpq
      rw [if_neg hiq] at hq
      rw [if_pos rfl] at hp
      split at hp
      · cases hp; rw [hid]; exact hwf.1 i q t tq ht hq hpq
      · cases hp
    · rw [if_neg hip] at hp
      by_cases hiq : i = q
      · subst hiq
        rw [if_pos rfl] at hq
        split at hq
        · cases hq; rw [hid]; exact hwf.1 p i tp t hp ht hpq
        · cases hq
      · rw [if_neg hiq] at hq
        exact hwf.1 p q tp tq hp hq hpq
  · apply forall_mem_set hwf.2
    rw [exec_role, exec_inst]
    exact hwf.2 t (List.mem_of_getElem? ht)

theorem wf_reach {s0 st : State} (h0 : WF s0) (h : Reach s0 st) : WF st := by
  induction h with
  | refl => exact h0
  | step _ hs ih => exact wf_step ih hs

theorem wf_reachable {st : State} (h : Reachable st) : WF st := by
  obtain ⟨s0, hi, hr⟩ := h
  exact wf_reach hi.1 hr

/-- two distinct threads of a well-formed state can be concurrent in the sense of the discipline:
    different roles, or two instances of the same `multi` role -/
theorem wf_concurrent {st : State} (hwf : WF st) {i j : Nat} {ti tj : Thread}
    (hi : st[i]? = some ti) (hj : st[j]? = some tj) (hij : i ≠ j) :
    concurrent ti.role tj.role = true := by
  have hne := hwf.1 i j ti tj hi hj hij
  unfold concurrent
  by_cases hr : ti.role = tj.role
  · cases hm : ti.role.multi with
    | true => simp
    | false =>
      exfalso
      apply hne
      have h1 := hwf.2 ti (List.mem_of_getElem? hi) hm
      have h2 := hwf.2 tj (List.mem_of_getElem? hj) (hr ▸ hm)
      simp [Thread.id, hr, h1, h2]
  · simp [hr]

/-! ### 3. well-annotated programs -/

/-- the state predicate the race-freedom theorem needs: a thread that is about to perform access `a`
    holds (at least) the locks row `a` claims, in the claimed modes, and runs in the claimed role -/
def AccessHeld (st : State) : Prop :=
  ∀ t ∈ st, ∀ a, t.next = some (.access a) → a.locks ⊆ t.held ∧ a.role = t.role

/-- the threads only perform accesses that are rows of the table -/
def ProgIn (rows : List Acc) (st : State) : Prop :=
  ∀ t ∈ st, ∀ a, Act.access a ∈ t.prog → a ∈ rows

/-- `Annot r h p`: running program `p` in role `r`, starting with the locks `h` held, every access is
    performed in role `r` with the locks of its row held (symbolic execution of `held`) -/
def Annot (r : Role) : List (String × Bool) → List Act → Prop
  | _, [] => True
  | h, .acq l x :: p => Annot r ((l, x) :: h) p
  | h, .rel l :: p => Annot r (h.eraseP (·.1 == l)) p
  | h, .access a :: p => (a.locks ⊆ h ∧ a.role = r) ∧ Annot r h p

/-- every thread's remaining program is well annotated w.r.t. the locks it holds now -/
def WellAnnotated (st : State) : Prop := ∀ t ∈ st, Annot t.role t.held t.prog

theorem annot_exec {t : Thread} {a : Act} {rest : List Act} (hp : t.prog = a :: rest)
    (h : Annot t.role t.held t.prog) : Annot (t.exec a rest).role (t.exec a rest).held (t.exec a rest).prog := by
  rw [hp] at h
  cases a with
  | acq l x => simpa [Thread.exec, Annot] using h
  | rel l => simpa [Thread.exec, Annot] using h
  | access a => simp only [Annot] at h; simpa [Thread.exec] using h.2

theorem wellAnnotated_step {st st' : State} {i : Nat} (hw : WellAnnotated st)
    (h : stepAt st i = some st') : WellAnnotated st' := by
  obtain ⟨t, a, rest, ht, hp, _, rfl⟩ := stepAt_inv h
  exact forall_mem_set hw (annot_exec hp (hw t (List.mem_of_getElem? ht)))

theorem wellAnnotated_reach {s0 st : State} (h0 : WellAnnotated s0) (h : Reach s0 st) :
    WellAnnotated st := by
  induction h with
  | refl => exact h0
  | step _ hs ih => exact wellAnnotated_step ih hs

theorem accessHeld_of_wellAnnotated {st : State} (hw : WellAnnotated st) : AccessHeld st := by
  intro t ht a hn
  have h := hw t ht
  cases hp : t.prog with
  | nil => simp [Thread.next, hp] at hn
  | cons b rest =>
    simp [Thread.next, hp] at hn
    subst hn
    rw [hp] at h
    exact h.1

theorem progIn_step {rows : List Acc} {st st' : State} {i : Nat} (hp : ProgIn rows st)
    (h : stepAt st i = some st') : ProgIn rows st' := by
  obtain ⟨t, a, rest, ht, hprog, _, rfl⟩ := stepAt_inv h
  apply forall_mem_set (P := fun t => ∀ a, Act.access a ∈ t.prog → a ∈ rows) hp
  intro b hb
  rw [exec_prog] at hb
  apply hp t (List.mem_of_getElem? ht) b
  rw [hprog]; exact List.mem_cons_of_mem _ hb

theorem progIn_reach {rows : List Acc} {s0 st : State} (h0 : ProgIn rows s0) (h : Reach s0 st) :
    ProgIn rows st := by
  induction h with
  | refl => exact h0
  | step _ hs ih => exact progIn_step ih hs

/-! #### programs built from lock regions -/

/-- a program segment as the Go code writes them: accesses under one lock
    (`mu.Lock(); defer mu.Unlock(); …` or `mu.RLock(); …; mu.RUnlock()`), or accesses under no lock -/
inductive Seg where
  | locked (l : String) (excl : Bool) (accs : List Acc)
  | bare (accs : List Acc)
  deriving Repr

/-- acquire, do the accesses, release -/
def region (l : String) (excl : Bool) (accs : List Acc) : List Act :=
  .acq l excl :: (accs.map .access ++ [.rel l])

def Seg.acts : Seg → List Act
  | .locked l x accs => region l x accs
  | .bare accs => accs.map .access

def Seg.accs : Seg → List Acc
  | .locked _ _ accs => accs
  | .bare accs => accs

/-- the rows of the segment claim the role of the thread, and no lock but the one of the region -/
def Seg.ok (r : Role) : Seg → Prop
  | .locked l x accs => ∀ a ∈ accs, a.role = r ∧ a.locks ⊆ [(l, x)]
  | .bare accs => ∀ a ∈ accs, a.role = r ∧ a.locks = []

def segsProg (segs : List Seg) : List Act := segs.flatMap Seg.acts

theorem annot_accesses {r : Role} {h : List (String × Bool)} {accs : List Acc} {p : List Act}
    (ha : ∀ a ∈ accs, a.locks ⊆ h ∧ a.role = r) (hp : Annot r h p) :
    Annot r h (accs.map .access ++ p) := by
  induction accs with
  | nil => simpa using hp
  | cons a accs ih =>
    simp only [List.map_cons, List.cons_append, Annot]
    exact ⟨ha a (List.mem_cons_self ..), ih fun b hb => ha b (List.mem_cons_of_mem _ hb)⟩

/-- a region whose rows claim a subset of (its own lock + the locks already held) is well annotated,
    whatever the nesting -/
theorem annot_region {r : Role} {h : List (String × Bool)} {l : String} {x : Bool} {accs : List Acc}
    {p : List Act} (ha : ∀ a ∈ accs, a.locks ⊆ (l, x) :: h ∧ a.role = r) (hp : Annot r h p) :
    Annot r h (region l x accs ++ p) := by
  simp only [region, List.cons_append, List.append_assoc, Annot]
  apply annot_accesses ha
  simp only [List.nil_append, Annot]
  rw [List.eraseP_cons_of_pos (by simp)]
  exact hp

theorem annot_seg {r : Role} {h : List (String × Bool)} {s : Seg} {p : List Act}
    (hs : s.ok r) (hp : Annot r h p) : Annot r h (s.acts ++ p) := by
  cases s with
  | locked l x accs =>
    apply annot_region _ hp
    intro a ha
    obtain ⟨h1, h2⟩ := hs a ha
    exact ⟨fun y hy => by
      have := h2 hy
      rw [List.mem_singleton] at this
      rw [this]; exact List.mem_cons_self .., h1⟩
  | bare accs =>
    apply annot_accesses _ hp
    intro a ha
    obtain ⟨h1, h2⟩ := hs a ha
    exact ⟨by rw [h2]; exact List.nil_subset _, h1⟩

/-- a sequence of lock regions / bare accesses is well annotated from any lock state -/
theorem annot_segs {r : Role} {h : List (String × Bool)} {segs : List Seg}
    (hs : ∀ s ∈ segs, s.ok r) : Annot r h (segsProg segs) := by
  induction segs with
  | nil => simp [segsProg, Annot]
  | cons s segs ih =>
    simp only [segsProg, List.flatMap_cons]
    exact annot_seg (hs s (List.mem_cons_self ..)) (ih fun s' hs' => hs s' (List.mem_cons_of_mem _ hs'))

/-- the accesses of a program of segments are the accesses of its segments -/
theorem access_mem_segsProg {segs : List Seg} {a : Acc} (h : Act.access a ∈ segsProg segs) :
    ∃ s ∈ segs, a ∈ s.accs := by
  simp only [segsProg, List.mem_flatMap] at h
  obtain ⟨s, hs, ha⟩ := h
  refine ⟨s, hs, ?_⟩
  cases s with
  | locked l x accs =>
    simp [Seg.acts, region] at ha
    exact ha
  | bare accs =>
    simp only [Seg.acts, List.mem_map] at ha
    obtain ⟨b, hb, heq⟩ := ha
    cases heq; exact hb

/-- a system of goroutines whose programs are sequences of segments -/
def SegSystem (rows : List Acc) (st : State) : Prop :=
  ∀ t ∈ st, ∃ segs : List Seg, t.prog = segsProg segs ∧ (∀ s ∈ segs, s.ok t.role) ∧
    ∀ s ∈ segs, ∀ a ∈ s.accs, a ∈ rows

theorem segSystem_wellAnnotated {rows : List Acc} {st : State} (h : SegSystem rows st) :
    WellAnnotated st := by
  intro t ht
  obtain ⟨segs, hp, hok, _⟩ := h t ht
  rw [hp]; exact annot_segs hok

theorem segSystem_progIn {rows : List Acc} {st : State} (h : SegSystem rows st) :
    ProgIn rows st := by
  intro t ht a ha
  obtain ⟨segs, hp, _, hin⟩ := h t ht
  rw [hp] at ha
  obtain ⟨s, hs, has⟩ := access_mem_segsProg ha
  exact hin s hs a has

/-! ### 4. the discipline excludes races -/

/-- two distinct threads are simultaneously about to access the same location, one of them writing
    (threads identified by their position in the state) -/
def RaceStateIx (st : State) : Prop :=
  ∃ (i j : Nat) (t1 t2 : Thread) (a1 a2 : Acc), i ≠ j ∧ st[i]? = some t1 ∧ st[j]? = some t2 ∧
    t1.next = some (.access a1) ∧ t2.next = some (.access a2) ∧
    a1.loc = a2.loc ∧ (a1.write = true ∨ a2.write = true)

/-- the same, in the vocabulary of thread records -/
def RaceState (st : State) : Prop :=
  ∃ (t1 t2 : Thread) (a1 a2 : Acc), t1 ∈ st ∧ t2 ∈ st ∧ t1 ≠ t2 ∧
    t1.next = some (.access a1) ∧ t2.next = some (.access a2) ∧
    a1.loc = a2.loc ∧ (a1.write = true ∨ a2.write = true)

theorem raceStateIx_of_raceState {st : State} (h : RaceState st) : RaceStateIx st := by
  obtain ⟨t1, t2, a1, a2, h1, h2, hne, r⟩ := h
  obtain ⟨i, hi⟩ := List.mem_iff_getElem?.mp h1
  obtain ⟨j, hj⟩ := List.mem_iff_getElem?.mp h2
  refine ⟨i, j, t1, t2, a1, a2, ?_, hi, hj, r⟩
  intro hij
  subst hij
  rw [hi] at hj
  cases hj
  exact hne rfl

/-- in a well-formed state (distinct identities) the two vocabularies coincide -/
theorem raceState_of_raceStateIx {st : State} (hwf : WF st) (h : RaceStateIx st) : RaceState st := by
  obtain ⟨i, j, t1, t2, a1, a2, hij, hi, hj, r⟩ := h
  refine ⟨t1, t2, a1, a2, List.mem_of_getElem? hi, List.mem_of_getElem? hj, ?_, r⟩
  intro heq
  exact hwf.1 i j t1 t2 hi hj hij (by rw [heq])

/-- what `violations rows = []` says -/
theorem protected_of_no_violations {rows : List Acc} (hv : violations rows = [])
    {a b : Acc} (ha : a ∈ rows) (hb : b ∈ rows) (hc : conflicting a b = true) :
    protectedPair a b = true := by
  unfold violations at hv
  have h1 := List.flatMap_eq_nil_iff.mp hv a ha
  rw [List.map_eq_nil_iff, List.filter_eq_nil_iff] at h1
  have h2 := h1 b hb
  cases hpp : protectedPair a b with
  | true => rfl
  | false => simp [hc, hpp] at h2

/-- what `protectedPair` says -/
theorem protectedPair_spec {a b : Acc} (h : protectedPair a b = true) :
    ∃ l xa xb, (l, xa) ∈ a.locks ∧ (l, xb) ∈ b.locks ∧
      (a.write = true → xa = true) ∧ (b.write = true → xb = true) := by
  simp only [protectedPair, List.any_eq_true, Bool.and_eq_true, beq_iff_eq, Bool.or_eq_true,
    Bool.not_eq_true'] at h
  obtain ⟨⟨la, xa⟩, hla, ⟨lb, xb⟩, hlb, ⟨heq, hwa⟩, hwb⟩ := h
  simp only at heq hwa hwb
  subst heq
  refine ⟨la, xa, xb, hla, hlb, ?_, ?_⟩
  · intro hw; rcases hwa with h | h
    · rw [hw] at h; cases h
    · exact h
  · intro hw; rcases hwb with h | h
    · rw [hw] at h; cases h
    · exact h

/-- the core of the argument, for any state with mutual exclusion and distinct identities -/
theorem no_race_of_invariants {rows : List Acc} (hv : violations rows = []) {st : State}
    (hwf : WF st) (hinv : LockInv st)
    (hrows : ∀ t ∈ st, ∀ a, t.next = some (.access a) → a ∈ rows)
    (hheld : AccessHeld st) : ¬ RaceStateIx st := by
  rintro ⟨i, j, t1, t2, a1, a2, hij, hi, hj, hn1, hn2, hloc, hw⟩
  have hm1 := List.mem_of_getElem? hi
  have hm2 := List.mem_of_getElem? hj
  obtain ⟨hl1, hr1⟩ := hheld t1 hm1 a1 hn1
  obtain ⟨hl2, hr2⟩ := hheld t2 hm2 a2 hn2
  have hconc : concurrent a1.role a2.role = true := by
    rw [hr1, hr2]; exact wf_concurrent hwf hi hj hij
  have hconf : conflicting a1 a2 = true := by
    unfold conflicting
    rw [hconc]
    rcases hw with hw | hw <;> simp [hloc, hw]
  have hprot := protected_of_no_violations hv (hrows t1 hm1 a1 hn1) (hrows t2 hm2 a2 hn2) hconf
  obtain ⟨l, xa, xb, hla, hlb, hwa, hwb⟩ := protectedPair_spec hprot
  have hh1 := hl1 hla
  have hh2 := hl2 hlb
  rcases hw with hw | hw
  · have := hwa hw; subst this
    exact hinv i j t1 t2 l hi hj hij hh1 xb hh2
  · have := hwb hw; subst this
    exact hinv j i t2 t1 l hj hi (Ne.symm hij) hh2 xa hh1

theorem next_mem_prog {t : Thread} {a : Act} (h : t.next = some a) : a ∈ t.prog := by
  unfold Thread.next at h
  cases hp : t.prog with
  | nil => simp [hp] at h
  | cons b rest => simp [hp] at h; subst h; exact List.mem_cons_self ..

/-- **The discipline excludes data races.** If every conflicting pair of rows is protected
    (`violations rows = []`), then in every reachable state whose threads perform only accesses of `rows`
    while holding the locks (and running in the role) their row claims, no two distinct goroutines are
    simultaneously about to access the same location with at least one write. -/
theorem discipline_no_race {rows : List Acc} (hv : violations rows = []) {st : State}
    (hreach : Reachable st) (hrows : ProgIn rows st) (hheld : AccessHeld st) : ¬ RaceState st := by
  intro hrace
  exact no_race_of_invariants hv (wf_reachable hreach) (lockInv_reachable hreach)
    (fun t ht a hn => hrows t ht a (next_mem_prog hn)) hheld (raceStateIx_of_raceState hrace)

/-- the same, threads identified by position -/
theorem discipline_no_raceIx {rows : List Acc} (hv : violations rows = []) {st : State}
    (hreach : Reachable st) (hrows : ProgIn rows st) (hheld : AccessHeld st) : ¬ RaceStateIx st :=
  no_race_of_invariants hv (wf_reachable hreach) (lockInv_reachable hreach)
    (fun t ht a hn => hrows t ht a (next_mem_prog hn)) hheld

/-- with `AccessHeld` discharged: from a well-annotated initial state, no schedule reaches a race -/
theorem wellAnnotated_no_race {rows : List Acc} (hv : violations rows = []) {s0 st : State}
    (hinit : Initial s0) (hrows : ProgIn rows s0) (hann : WellAnnotated s0) (hreach : Reach s0 st) :
    ¬ RaceState st :=
  discipline_no_race hv ⟨s0, hinit, hreach⟩ (progIn_reach hrows hreach)
    (accessHeld_of_wellAnnotated (wellAnnotated_reach hann hreach))

/-- … in particular for goroutines whose programs are sequences of single-lock regions and bare
    accesses of rows of a table without violations -/
theorem segSystem_no_race {rows : List Acc} (hv : violations rows = []) {s0 st : State}
    (hinit : Initial s0) (hsys : SegSystem rows s0) (hreach : Reach s0 st) : ¬ RaceState st :=
  wellAnnotated_no_race hv hinit (segSystem_progIn hsys) (segSystem_wellAnnotated hsys) hreach

/-- a table without racy location has no violation -/
theorem violations_nil_of_racyLocations_nil {tbl : List SE.Gen.Access} (h : racyLocations tbl = []) :
    violations (accRows tbl) = [] := by
  unfold racyLocations at h
  cases hv : violations (accRows tbl) with
  | nil => rfl
  | cons p ps => rw [hv, List.map_cons, List.eraseDups_cons] at h; cases h

/-! ### 5. non-vacuity -/

/-- a checkable sufficient condition for `WF` -/
theorem wf_of_nodup {st : State} (h1 : (st.map Thread.id).Nodup)
    (h2 : ∀ t ∈ st, t.role.multi = false → t.inst = 0) : WF st := by
  refine ⟨?_, h2⟩
  unfold List.Nodup at h1
  rw [List.pairwise_map, List.pairwise_iff_getElem] at h1
  intro i j ti tj hi hj hij
  obtain ⟨hi', rfl⟩ := List.getElem?_eq_some_iff.mp hi
  obtain ⟨hj', rfl⟩ := List.getElem?_eq_some_iff.mp hj
  rcases Nat.lt_or_gt_of_ne hij with h | h
  · exact h1 i j hi' hj' h
  · exact Ne.symm (h1 j i hj' hi' h)

namespace Example

def reloader : Role := ⟨"reloader", false⟩
def lookup : Role := ⟨"lookup", true⟩
/-- the reloader replaces `X` under `mu.Lock()` -/
def accW : Acc := ⟨"Reload", reloader, "X", true, [("mu", true)]⟩
/-- lookups read `X` under `mu.RLock()` -/
def accR : Acc := ⟨"Get", lookup, "X", false, [("mu", false)]⟩

/-- one writer region, two reader regions (two instances of the `multi` role) -/
def sys0 : State :=
  [⟨reloader, 0, region "mu" true [accW], []⟩,
   ⟨lookup, 0, region "mu" false [accR], []⟩,
   ⟨lookup, 1, region "mu" false [accR], []⟩]

/-- the writer has taken the lock and is at its access -/
def sysW : State :=
  [⟨reloader, 0, [.access accW, .rel "mu"], [("mu", true)]⟩,
   ⟨lookup, 0, region "mu" false [accR], []⟩,
   ⟨lookup, 1, region "mu" false [accR], []⟩]

/-- both readers have taken the lock (shared) and are at their accesses -/
def sysRR : State :=
  [⟨reloader, 0, region "mu" true [accW], []⟩,
   ⟨lookup, 0, [.access accR, .rel "mu"], [("mu", false)]⟩,
   ⟨lookup, 1, [.access accR, .rel "mu"], [("mu", false)]⟩]

/-- the first reader has taken the lock -/
def sysR : State :=
  [⟨reloader, 0, region "mu" true [accW], []⟩,
   ⟨lookup, 0, [.access accR, .rel "mu"], [("mu", false)]⟩,
   ⟨lookup, 1, region "mu" false [accR], []⟩]

theorem sys0_initial : Initial sys0 :=
  ⟨wf_of_nodup (by decide) (by decide), by decide⟩

theorem sys0_rows_disciplined : violations [accW, accR] = [] := by decide

/-- … and the two rows do conflict, so the discipline has something to order -/
theorem sys0_rows_conflict : conflicting accW accR = true := by decide

theorem sys0_segSystem : SegSystem [accW, accR] sys0 := by
  intro t ht
  simp only [sys0, List.mem_cons, List.not_mem_nil, or_false] at ht
  rcases ht with rfl | rfl | rfl
  · exact ⟨[.locked "mu" true [accW]], by decide, by simp [Seg.ok, accW], by simp [Seg.accs]⟩
  · exact ⟨[.locked "mu" false [accR]], by decide, by simp [Seg.ok, accR], by simp [Seg.accs]⟩
  · exact ⟨[.locked "mu" false [accR]], by decide, by simp [Seg.ok, accR], by simp [Seg.accs]⟩

/-- the writer is at its access, and both readers are blocked at their `acq` -/
theorem writer_in_readers_blocked :
    Reachable sysW ∧ (sysW[0]?.bind Thread.next) = some (.access accW) ∧
    (sysW[1]?.bind Thread.next) = some (.acq "mu" false) ∧
    stepAt sysW 1 = none ∧ stepAt sysW 2 = none ∧ (stepAt sysW 0).isSome = true :=
  ⟨⟨sys0, sys0_initial, .step .refl (i := 0) (by decide)⟩, by decide, by decide, by decide, by decide,
   by decide⟩

/-- both readers are at their (read) accesses at once — `RLock` is shared — and the writer is blocked -/
theorem readers_in_writer_blocked :
    Reachable sysRR ∧ (sysRR[1]?.bind Thread.next) = some (.access accR) ∧
    (sysRR[2]?.bind Thread.next) = some (.access accR) ∧ stepAt sysRR 0 = none :=
  ⟨⟨sys0, sys0_initial, .step (i := 2) (.step .refl (i := 1) (st' := sysR) (by decide)) (by decide)⟩,
   by decide, by decide, by decide⟩

/-- the generic theorem applies: no schedule of `sys0` reaches a race -/
theorem sys0_race_free {st : State} (h : Reach sys0 st) : ¬ RaceState st :=
  segSystem_no_race sys0_rows_disciplined sys0_initial sys0_segSystem h

/-! an undisciplined variant: the lookup reads `X` with no lock (the `Defaults` defect) -/

def accR' : Acc := ⟨"Get", lookup, "X", false, []⟩

def bad0 : State :=
  [⟨reloader, 0, region "mu" true [accW], []⟩, ⟨lookup, 0, [.access accR'], []⟩]

def bad1 : State :=
  [⟨reloader, 0, [.access accW, .rel "mu"], [("mu", true)]⟩, ⟨lookup, 0, [.access accR'], []⟩]

theorem bad0_initial : Initial bad0 := ⟨wf_of_nodup (by decide) (by decide), by decide⟩

/-- the pair is conflicting and unprotected: the discipline rejects the table … -/
theorem bad_rows_violate : violations [accW, accR'] ≠ [] := by decide

/-- … the programs are nevertheless well annotated (they hold what their rows claim) … -/
theorem bad0_segSystem : SegSystem [accW, accR'] bad0 := by
  intro t ht
  simp only [bad0, List.mem_cons, List.not_mem_nil, or_false] at ht
  rcases ht with rfl | rfl
  · exact ⟨[.locked "mu" true [accW]], by decide, by simp [Seg.ok, accW], by simp [Seg.accs]⟩
  · exact ⟨[.bare [accR']], by decide, by simp [Seg.ok, accR'], by simp [Seg.accs]⟩

/-- … and the semantics does exhibit the race: a `RaceState` is reachable -/
theorem bad_race_reachable : ∃ st, Reachable st ∧ AccessHeld st ∧ RaceState st := by
  refine ⟨bad1, ⟨bad0, bad0_initial, .step .refl (i := 0) (by decide)⟩, ?_, ?_⟩
  · exact accessHeld_of_wellAnnotated
      (wellAnnotated_step (segSystem_wellAnnotated bad0_segSystem) (i := 0) (st' := bad1) (by decide))
  · exact ⟨⟨reloader, 0, [.access accW, .rel "mu"], [("mu", true)]⟩, ⟨lookup, 0, [.access accR'], []⟩,
      accW, accR', by decide, by decide, by decide, by decide, by decide, by decide, by decide⟩

/-! the LRU defect: `Get` under `RLock` while the underlying `Get` reorders the list (a write) -/

def accG : Acc := ⟨"Get", lookup, "lru", true, [("mu", false)]⟩

def lru0 : State :=
  [⟨lookup, 0, region "mu" false [accG], []⟩, ⟨lookup, 1, region "mu" false [accG], []⟩]

def lru2 : State :=
  [⟨lookup, 0, [.access accG, .rel "mu"], [("mu", false)]⟩,
   ⟨lookup, 1, [.access accG, .rel "mu"], [("mu", false)]⟩]

def lru1 : State :=
  [⟨lookup, 0, [.access accG, .rel "mu"], [("mu", false)]⟩, ⟨lookup, 1, region "mu" false [accG], []⟩]

theorem lru_rows_violate : violations [accG] ≠ [] := by decide

/-- two lookups both hold the read lock and are both about to write -/
theorem lru_race_reachable : Reachable lru2 ∧ RaceState lru2 := by
  refine ⟨⟨lru0, ⟨wf_of_nodup (by decide) (by decide), by decide⟩,
    .step (i := 1) (.step .refl (i := 0) (st' := lru1) (by decide)) (by decide)⟩, ?_⟩
  exact ⟨⟨lookup, 0, [.access accG, .rel "mu"], [("mu", false)]⟩,
    ⟨lookup, 1, [.access accG, .rel "mu"], [("mu", false)]⟩,
    accG, accG, by decide, by decide, by decide, by decide, by decide, by decide, by decide⟩

end Example

end SE.Sync
