import SE.Spec.Listener
import SE.Proofs.Bytes
/-
Helper definitions and lemmas for C18 (listener framing): the UDP packet queue as a machine driven
by an arbitrary operation sequence, the bufio chunk model against the stream specification, and the
stream specification against `strings.Split`.
-/
namespace SE

/-! ## UDP packet queue -/

/-- what the two goroutines of the UDP listener do to the packet queue -/
inductive UdpOp
  | enq (buf : Bytes) (n : Nat)   -- `EnqueueUdpPacket(buf, n)` (reader goroutine)
  | proc                          -- one iteration of `ProcessUdpPacketQueue` (blocked on an empty queue)
  deriving Repr, DecidableEq

def UdpOp.isEnq : UdpOp → Bool
  | .enq _ _ => true
  | .proc => false

def stepUdp (s : UdpQ) : UdpOp → UdpQ
  | .enq buf n => s.enqueue buf n
  | .proc => s.process.getD s

/-- run an arbitrary interleaving of enqueues and processing steps -/
def runUdp (s : UdpQ) (ops : List UdpOp) : UdpQ := ops.foldl stepUdp s

/-- number of `EnqueueUdpPacket` calls in an operation sequence -/
def numEnq (ops : List UdpOp) : Nat := (ops.filter UdpOp.isEnq).length

/-- number of processing steps of a run that actually took a packet off the queue (computed on the
    model itself) -/
def successfulProcs (s : UdpQ) : List UdpOp → Nat
  | [] => 0
  | .proc :: ops => (if s.process.isSome then 1 else 0) + successfulProcs (stepUdp s .proc) ops
  | .enq buf n :: ops => successfulProcs (stepUdp s (.enq buf n)) ops

/-- The explicit account of a run, computed from the operation sequence and the capacity alone:
    `accepted` = the copies `buf.take n` of the datagrams that found room, in arrival order;
    `processed` = how many of them have been handled; `dropped`, `enqs` = counters. -/
structure UdpAcct where
  accepted : List Bytes := []
  processed : Nat := 0
  dropped : Nat := 0
  enqs : Nat := 0

def UdpAcct.step (c : Nat) (a : UdpAcct) : UdpOp → UdpAcct
  | .enq buf n =>
    if a.accepted.length - a.processed < c then
      { a with accepted := a.accepted ++ [buf.take n], enqs := a.enqs + 1 }
    else { a with dropped := a.dropped + 1, enqs := a.enqs + 1 }
  | .proc => if a.processed < a.accepted.length then { a with processed := a.processed + 1 } else a

def udpAcctFrom (c : Nat) (a : UdpAcct) (ops : List UdpOp) : UdpAcct := ops.foldl (UdpAcct.step c) a

def udpAcct (c : Nat) (ops : List UdpOp) : UdpAcct := udpAcctFrom c {} ops

/-- the line groups handed on so far: one group per processed packet -/
def UdpAcct.groups (a : UdpAcct) : List (List Bytes) := (a.accepted.take a.processed).map datagramLines

/-- the model state is the account -/
structure UdpRel (c : Nat) (s : UdpQ) (a : UdpAcct) : Prop where
  cap : s.cap = c
  le : a.processed ≤ a.accepted.length
  queue : s.queue = a.accepted.drop a.processed
  packets : s.packets = a.enqs
  drops : s.drops = a.dropped
  handled : s.handled = a.groups.flatten
  total : a.enqs = a.accepted.length + a.dropped
  room : s.queue.length ≤ c

theorem drop_eq_cons {α : Type} {k : Nat} {l rest : List α} {p : α} (h : l.drop k = p :: rest) :
    k < l.length ∧ l.drop (k + 1) = rest ∧ l.take (k + 1) = l.take k ++ [p] := by
  have hk : k < l.length := by
    rcases Nat.lt_or_ge k l.length with h1 | h1
    · exact h1
    · rw [List.drop_of_length_le h1] at h; cases h
  refine ⟨hk, ?_, ?_⟩
  · have : l.drop (k + 1) = (l.drop k).drop 1 := by rw [List.drop_drop]
    rw [this, h]; rfl
  · rw [List.take_add, h]; rfl

theorem UdpRel.init (c : Nat) : UdpRel c { cap := c } {} :=
  ⟨rfl, Nat.le_refl _, rfl, rfl, rfl, rfl, rfl, Nat.zero_le _⟩

theorem UdpRel.step {c : Nat} {s : UdpQ} {a : UdpAcct} (h : UdpRel c s a) (op : UdpOp) :
    UdpRel c (stepUdp s op) (a.step c op) := by
  obtain ⟨hcap, hle, hq, hp, hd, hh, ht, hr⟩ := h
  have hlen : s.queue.length = a.accepted.length - a.processed := by rw [hq, List.length_drop]
  cases op with
  | enq buf n =>
    by_cases hc : a.accepted.length - a.processed < c
    · have e1 : stepUdp s (.enq buf n) =
          { s with packets := s.packets + 1, queue := s.queue ++ [buf.take n] } := by
        simp [stepUdp, UdpQ.enqueue, hcap, hlen, hc]
      have e2 : a.step c (.enq buf n) =
          { a with accepted := a.accepted ++ [buf.take n], enqs := a.enqs + 1 } := by
        simp [UdpAcct.step, hc]
      rw [e1, e2]
      refine ⟨hcap, ?_, ?_, ?_, hd, ?_, ?_, ?_⟩
      · dsimp only; simp only [List.length_append, List.length_singleton]; omega
      · dsimp only; rw [hq, List.drop_append_of_le_length hle]
      · dsimp only; rw [hp]
      · dsimp only [UdpAcct.groups]; rw [List.take_append_of_le_length hle]; exact hh
      · dsimp only; simp only [List.length_append, List.length_singleton]; omega
      · dsimp only; simp only [List.length_append, List.length_singleton, hlen]; omega
    · have e1 : stepUdp s (.enq buf n) =
          { s with packets := s.packets + 1, drops := s.drops + 1 } := by
        simp [stepUdp, UdpQ.enqueue, hcap, hlen, hc]
      have e2 : a.step c (.enq buf n) =
          { a with dropped := a.dropped + 1, enqs := a.enqs + 1 } := by
        simp [UdpAcct.step, hc]
      rw [e1, e2]
      refine ⟨hcap, hle, hq, ?_, ?_, hh, ?_, hr⟩
      · dsimp only; rw [hp]
      · dsimp only; rw [hd]
      · dsimp only; omega
  | proc =>
    cases hqq : s.queue with
    | nil =>
      have hn : ¬ a.processed < a.accepted.length := by rw [hqq] at hlen; simp at hlen; omega
      have e1 : stepUdp s .proc = s := by simp [stepUdp, UdpQ.process, hqq]
      have e2 : a.step c .proc = a := by simp [UdpAcct.step, hn]
      rw [e1, e2]
      exact ⟨hcap, hle, hq, hp, hd, hh, ht, hr⟩
    | cons p rest =>
      rw [hqq] at hq
      obtain ⟨h1, h2, h3⟩ := drop_eq_cons hq.symm
      have e1 : stepUdp s .proc = { s with queue := rest, handled := s.handled ++ datagramLines p } := by
        simp [stepUdp, UdpQ.process, hqq]
      have e2 : a.step c .proc = { a with processed := a.processed + 1 } := by
        simp [UdpAcct.step, h1]
      rw [e1, e2]
      refine ⟨hcap, h1, h2.symm, hp, hd, ?_, ht, ?_⟩
      · dsimp only [UdpAcct.groups]
        rw [h3, hh]
        simp only [UdpAcct.groups, List.map_append, List.flatten_append, List.map_cons,
          List.map_nil, List.flatten_cons, List.flatten_nil, List.append_nil]
      · rw [hqq] at hr; simp only [List.length_cons] at hr; dsimp only; omega

theorem UdpRel.run {c : Nat} (ops : List UdpOp) : ∀ {s : UdpQ} {a : UdpAcct}, UdpRel c s a →
    UdpRel c (runUdp s ops) (udpAcctFrom c a ops) := by
  induction ops with
  | nil => intro s a h; exact h
  | cons op ops ih => intro s a h; exact ih (h.step op)

/-- every state reachable from the empty queue is described by the account of the run -/
theorem udp_reachable (c : Nat) (ops : List UdpOp) : UdpRel c (runUdp { cap := c } ops) (udpAcct c ops) :=
  UdpRel.run ops (UdpRel.init c)

theorem udpAcctFrom_append (c : Nat) (a : UdpAcct) (xs ys : List UdpOp) :
    udpAcctFrom c a (xs ++ ys) = udpAcctFrom c (udpAcctFrom c a xs) ys := by
  simp only [udpAcctFrom, List.foldl_append]

theorem runUdp_append (s : UdpQ) (xs ys : List UdpOp) :
    runUdp s (xs ++ ys) = runUdp (runUdp s xs) ys := by
  simp only [runUdp, List.foldl_append]

/-- the account's `enqs` counter is the number of `enq` operations -/
theorem udpAcctFrom_enqs (c : Nat) (ops : List UdpOp) : ∀ a : UdpAcct,
    (udpAcctFrom c a ops).enqs = a.enqs + numEnq ops := by
  induction ops with
  | nil => intro a; rfl
  | cons op ops ih =>
    intro a
    have : udpAcctFrom c a (op :: ops) = udpAcctFrom c (a.step c op) ops := rfl
    rw [this, ih]
    cases op with
    | enq buf n =>
      have h1 : (a.step c (.enq buf n)).enqs = a.enqs + 1 := by
        simp only [UdpAcct.step]; split <;> rfl
      have h2 : numEnq (.enq buf n :: ops) = numEnq ops + 1 := by
        unfold numEnq; rw [List.filter_cons_of_pos (by rfl)]; rfl
      omega
    | proc =>
      have h1 : (a.step c .proc).enqs = a.enqs := by
        simp only [UdpAcct.step]; split <;> rfl
      have h2 : numEnq (.proc :: ops) = numEnq ops := by
        unfold numEnq; rw [List.filter_cons_of_neg (by simp [UdpOp.isEnq])]
      omega

/-- the account's `processed` counter counts the processing steps that found a packet -/
theorem successfulProcs_eq {c : Nat} (ops : List UdpOp) : ∀ {s : UdpQ} {a : UdpAcct}, UdpRel c s a →
    (udpAcctFrom c a ops).processed = a.processed + successfulProcs s ops := by
  induction ops with
  | nil => intro s a _; rfl
  | cons op ops ih =>
    intro s a h
    have e : udpAcctFrom c a (op :: ops) = udpAcctFrom c (a.step c op) ops := rfl
    rw [e, ih (h.step op)]
    cases op with
    | enq buf n =>
      have h1 : (a.step c (.enq buf n)).processed = a.processed := by
        simp only [UdpAcct.step]; split <;> rfl
      simp only [successfulProcs, h1]
    | proc =>
      have hlen : s.queue.length = a.accepted.length - a.processed := by rw [h.queue, List.length_drop]
      cases hqq : s.queue with
      | nil =>
        have hn : ¬ a.processed < a.accepted.length := by
          have := h.le; rw [hqq] at hlen; simp at hlen; omega
        have e2 : a.step c .proc = a := by simp [UdpAcct.step, hn]
        have e3 : s.process = none := by simp [UdpQ.process, hqq]
        simp [successfulProcs, e2, e3]
      | cons p rest =>
        have hn : a.processed < a.accepted.length := by rw [hqq] at hlen; simp at hlen; omega
        have e2 : a.step c .proc = { a with processed := a.processed + 1 } := by
          simp [UdpAcct.step, hn]
        have e3 : s.process.isSome = true := by simp [UdpQ.process, hqq]
        simp only [successfulProcs, e2, e3, if_true]
        omega

/-- two operation sequences have the same shape: the same kinds of operations in the same order,
    while the datagrams carried by the `enq`s may differ -/
inductive SameShape : List UdpOp → List UdpOp → Prop
  | nil : SameShape [] []
  | enq (b b' : Bytes) (n n' : Nat) {xs ys : List UdpOp} : SameShape xs ys →
      SameShape (.enq b n :: xs) (.enq b' n' :: ys)
  | proc {xs ys : List UdpOp} : SameShape xs ys → SameShape (.proc :: xs) (.proc :: ys)

/-- later enqueues only append to the accepted list: what was accepted before stays as it is, and
    the counters depend on the shape only -/
theorem udpAcctFrom_shape (c : Nat) (base : List Bytes) {xs ys : List UdpOp} (h : SameShape xs ys) :
    ∀ (a a' : UdpAcct) (t t' : List Bytes), a.accepted = base ++ t → a'.accepted = base ++ t' →
      t.length = t'.length → a.processed = a'.processed → a.dropped = a'.dropped →
      ∃ u u', (udpAcctFrom c a xs).accepted = base ++ u ∧ (udpAcctFrom c a' ys).accepted = base ++ u' ∧
        u.length = u'.length ∧ (udpAcctFrom c a xs).processed = (udpAcctFrom c a' ys).processed ∧
        (udpAcctFrom c a xs).dropped = (udpAcctFrom c a' ys).dropped := by
  induction h with
  | nil => intro a a' t t' h1 h2 h3 h4 h5; exact ⟨t, t', h1, h2, h3, h4, h5⟩
  | @enq b b' n n' xs ys _ ih =>
    intro a a' t t' h1 h2 h3 h4 h5
    have hl : a.accepted.length = a'.accepted.length := by
      rw [h1, h2, List.length_append, List.length_append, h3]
    have s1 : udpAcctFrom c a (.enq b n :: xs) = udpAcctFrom c (a.step c (.enq b n)) xs := rfl
    have s2 : udpAcctFrom c a' (.enq b' n' :: ys) = udpAcctFrom c (a'.step c (.enq b' n')) ys := rfl
    rw [s1, s2]
    by_cases hc : a.accepted.length - a.processed < c
    · have hc' : a'.accepted.length - a'.processed < c := by omega
      have e1 : a.step c (.enq b n) =
          { a with accepted := a.accepted ++ [b.take n], enqs := a.enqs + 1 } := by
        simp [UdpAcct.step, hc]
      have e2 : a'.step c (.enq b' n') =
          { a' with accepted := a'.accepted ++ [b'.take n'], enqs := a'.enqs + 1 } := by
        simp [UdpAcct.step, hc']
      rw [e1, e2]
      exact ih _ _ (t ++ [b.take n]) (t' ++ [b'.take n']) (by simp [h1]) (by simp [h2])
        (by simp [h3]) h4 h5
    · have hc' : ¬ a'.accepted.length - a'.processed < c := by omega
      have e1 : a.step c (.enq b n) = { a with dropped := a.dropped + 1, enqs := a.enqs + 1 } := by
        simp [UdpAcct.step, hc]
      have e2 : a'.step c (.enq b' n') = { a' with dropped := a'.dropped + 1, enqs := a'.enqs + 1 } := by
        simp [UdpAcct.step, hc']
      rw [e1, e2]
      exact ih _ _ t t' h1 h2 h3 h4 (by simp [h5])
  | @proc xs ys _ ih =>
    intro a a' t t' h1 h2 h3 h4 h5
    have hl : a.accepted.length = a'.accepted.length := by
      rw [h1, h2, List.length_append, List.length_append, h3]
    have s1 : udpAcctFrom c a (.proc :: xs) = udpAcctFrom c (a.step c .proc) xs := rfl
    have s2 : udpAcctFrom c a' (.proc :: ys) = udpAcctFrom c (a'.step c .proc) ys := rfl
    rw [s1, s2]
    by_cases hc : a.processed < a.accepted.length
    · have hc' : a'.processed < a'.accepted.length := by omega
      have e1 : a.step c .proc = { a with processed := a.processed + 1 } := by simp [UdpAcct.step, hc]
      have e2 : a'.step c .proc = { a' with processed := a'.processed + 1 } := by
        simp [UdpAcct.step, hc']
      rw [e1, e2]
      exact ih _ _ t t' h1 h2 h3 (by simp [h4]) h5
    · have hc' : ¬ a'.processed < a'.accepted.length := by omega
      have e1 : a.step c .proc = a := by simp [UdpAcct.step, hc]
      have e2 : a'.step c .proc = a' := by simp [UdpAcct.step, hc']
      rw [e1, e2]
      exact ih _ _ t t' h1 h2 h3 h4 h5

/-! ### the accepted packets are copies of enqueued datagrams -/

/-- the copy `buf[:n]` an `enq` would put on the queue -/
def UdpOp.payload : UdpOp → Option Bytes
  | .enq buf n => some (buf.take n)
  | .proc => none

theorem udpAcctFrom_accepted_sublist (c : Nat) (ops : List UdpOp) : ∀ a : UdpAcct,
    ∃ t, (udpAcctFrom c a ops).accepted = a.accepted ++ t ∧ t.Sublist (ops.filterMap UdpOp.payload) := by
  induction ops with
  | nil => intro a; exact ⟨[], by simp [udpAcctFrom], List.Sublist.refl _⟩
  | cons op ops ih =>
    intro a
    have e : udpAcctFrom c a (op :: ops) = udpAcctFrom c (a.step c op) ops := rfl
    obtain ⟨t, ht, hsub⟩ := ih (a.step c op)
    rw [e, ht]
    cases op with
    | enq buf n =>
      have hf : (UdpOp.enq buf n :: ops).filterMap UdpOp.payload =
          buf.take n :: ops.filterMap UdpOp.payload := by
        simp [UdpOp.payload]
      rw [hf]
      by_cases hc : a.accepted.length - a.processed < c
      · have e1 : (a.step c (.enq buf n)).accepted = a.accepted ++ [buf.take n] := by
          simp [UdpAcct.step, hc]
        exact ⟨buf.take n :: t, by rw [e1]; simp, List.Sublist.cons_cons _ hsub⟩
      · have e1 : (a.step c (.enq buf n)).accepted = a.accepted := by simp [UdpAcct.step, hc]
        exact ⟨t, by rw [e1], List.Sublist.cons _ hsub⟩
    | proc =>
      have hf : (UdpOp.proc :: ops).filterMap UdpOp.payload = ops.filterMap UdpOp.payload := by
        simp [List.filterMap_cons, UdpOp.payload]
      have e1 : (a.step c .proc).accepted = a.accepted := by
        simp only [UdpAcct.step]; split <;> rfl
      rw [hf, e1]
      exact ⟨t, rfl, hsub⟩

/-! ## indexOf on prefixes and concatenations -/

theorem indexOf_none {c : UInt8} {s : Bytes} (h : indexOf c s = none) : c ∉ s := by
  induction s with
  | nil => simp
  | cons x xs ih =>
    unfold indexOf at h
    by_cases hx : x = c
    · simp [hx] at h
    · simp only [beq_iff_eq, hx, if_false, Option.map_eq_none_iff] at h
      simp only [List.mem_cons, not_or]
      exact ⟨fun e => hx e.symm, ih h⟩

theorem indexOf_some {c : UInt8} {s : Bytes} {i : Nat} (h : indexOf c s = some i) :
    s = s.take i ++ c :: s.drop (i + 1) ∧ c ∉ s.take i ∧ i < s.length := by
  induction s generalizing i with
  | nil => simp [indexOf] at h
  | cons x xs ih =>
    unfold indexOf at h
    by_cases hx : x = c
    · simp [hx] at h
      subst h; subst hx
      simp
    · simp only [beq_iff_eq, hx, if_false, Option.map_eq_some_iff] at h
      obtain ⟨j, hj, rfl⟩ := h
      obtain ⟨h1, h2, h3⟩ := ih hj
      refine ⟨?_, ?_, ?_⟩
      · simp only [List.take_succ_cons, List.drop_succ_cons, List.cons_append]
        rw [← h1]
      · simp only [List.take_succ_cons, List.mem_cons, not_or]
        exact ⟨fun e => hx e.symm, h2⟩
      · simp only [List.length_cons]; omega

theorem indexOf_append_left {c : UInt8} {a : Bytes} {i : Nat} (b : Bytes) (h : indexOf c a = some i) :
    indexOf c (a ++ b) = some i := by
  obtain ⟨h1, h2, h3⟩ := indexOf_some h
  have : a ++ b = a.take i ++ c :: (a.drop (i + 1) ++ b) := by
    conv => lhs; rw [h1]
    simp
  rw [this, indexOf_append _ h2, List.length_take, Nat.min_eq_left (Nat.le_of_lt h3)]

theorem indexOf_take_of_none {c : UInt8} {s : Bytes} (n : Nat) (h : indexOf c s = none) :
    indexOf c (s.take n) = none :=
  indexOf_of_not_mem fun hm => indexOf_none h (List.mem_of_mem_take hm)

theorem indexOf_take_of_some {c : UInt8} {s : Bytes} {i : Nat} (n : Nat) (h : indexOf c s = some i) :
    indexOf c (s.take n) = if i < n then some i else none := by
  obtain ⟨h1, h2, h3⟩ := indexOf_some h
  have hl : (s.take i).length = i := by rw [List.length_take]; omega
  by_cases hin : i < n
  · simp only [hin, if_true]
    have : s.take n = s.take i ++ c :: (s.drop (i + 1)).take (n - i - 1) := by
      conv => lhs; rw [h1]
      rw [List.take_append, hl, List.take_take, Nat.min_eq_right (Nat.le_of_lt hin)]
      obtain ⟨m, hm⟩ : ∃ m, n - i = m + 1 := ⟨n - i - 1, by omega⟩
      rw [hm, Nat.add_sub_cancel, List.take_succ_cons]
    rw [this, indexOf_append _ h2, hl]
  · simp only [hin, if_false]
    apply indexOf_of_not_mem
    intro hm
    have : s.take n = (s.take i).take n := by rw [List.take_take]; congr 1; omega
    rw [this] at hm
    exact h2 (List.mem_of_mem_take hm)

/-! ## TCP: the bufio chunk model against the stream specification -/

/-- the bytes the connection has not yet handed on: buffered ones and those still to be read -/
def RdSt.rem (s : RdSt) : Bytes := s.buf ++ s.chunks.flatten

/-- outcome of reading one line, at the level of the remaining stream -/
inductive RdRes
  | line (l rest : Bytes)
  | tooLong
  | eof
  deriving DecidableEq

/-- one step of `tcpLinesSpec` -/
def specRead (rem : Bytes) : RdRes :=
  match indexOf lf (rem.take bufSize) with
  | some i => .line (stripCR (rem.take i)) (rem.drop (i + 1))
  | none => if bufSize ≤ rem.length then .tooLong else if rem.isEmpty then .eof else .line rem []

/-- one `ReadLine` of the model, seen at the level of the remaining stream -/
def absRead : RdOut × RdSt → RdRes
  | (.line l, s) => .line l s.rem
  | (.prefix, _) => .tooLong
  | (.eof, _) => .eof

/-- number of `readLine` iterations that certainly suffice: one if the buffer is full, else one per
    chunk still to come plus the final one that sees EOF -/
def RdSt.need (s : RdSt) : Nat := if bufSize ≤ s.buf.length then 1 else s.chunks.length + 1

theorem RdSt.need_le (s : RdSt) : s.need ≤ s.chunks.length + 2 := by
  unfold RdSt.need; split <;> omega

theorem readLine_found {s : RdSt} {i : Nat} (fuel : Nat) (h : indexOf lf s.buf = some i) :
    s.readLine (fuel + 1) = (.line (stripCR (s.buf.take i)), { s with buf := s.buf.drop (i + 1) }) := by
  simp only [RdSt.readLine, h]

theorem readLine_full {s : RdSt} (fuel : Nat) (h : indexOf lf s.buf = none)
    (hf : bufSize ≤ s.buf.length) : s.readLine (fuel + 1) = (.prefix, s) := by
  simp only [RdSt.readLine, h, ge_iff_le, hf, if_true]

theorem readLine_fill {s s' : RdSt} (fuel : Nat) (h : indexOf lf s.buf = none)
    (hf : s.buf.length < bufSize) (hs : s.fill = some s') : s.readLine (fuel + 1) = s'.readLine fuel := by
  have : ¬ bufSize ≤ s.buf.length := by omega
  simp only [RdSt.readLine, h, ge_iff_le, this, if_false, hs]

theorem readLine_eof {s : RdSt} (fuel : Nat) (h : indexOf lf s.buf = none)
    (hf : s.buf.length < bufSize) (hs : s.fill = none) :
    s.readLine (fuel + 1) = if s.buf.isEmpty then (.eof, s) else (.line s.buf, { s with buf := [] }) := by
  have : ¬ bufSize ≤ s.buf.length := by omega
  simp only [RdSt.readLine, h, ge_iff_le, this, if_false, hs]

/-- a fill moves bytes from the connection into the buffer: the remaining stream is unchanged, the
    buffer stays within its size, and either a whole chunk was consumed or the buffer is now full -/
theorem fill_spec {s s' : RdSt} (hb : s.buf.length < bufSize) (h : s.fill = some s') :
    s'.rem = s.rem ∧ s'.buf.length ≤ bufSize ∧ s'.need + 1 ≤ s.need := by
  obtain ⟨buf, chunks⟩ := s
  cases chunks with
  | nil => simp [RdSt.fill] at h
  | cons c rest =>
    simp only [RdSt.fill, Option.some.injEq] at h
    subst h
    simp only at hb
    have hnf : ¬ bufSize ≤ buf.length := by omega
    by_cases hk : min c.length (bufSize - buf.length) < c.length
    · have hk' : min c.length (bufSize - buf.length) = bufSize - buf.length := by omega
      refine ⟨?_, ?_, ?_⟩
      · simp only [RdSt.rem, hk, if_true, List.flatten_cons, List.append_assoc]
        rw [← List.append_assoc (c.take _), List.take_append_drop]
      · simp only [List.length_append, List.length_take]; omega
      · have : bufSize ≤ (buf ++ c.take (min c.length (bufSize - buf.length))).length := by
          simp only [List.length_append, List.length_take]; omega
        simp only [RdSt.need, this, if_true, hnf, if_false, List.length_cons]; omega
    · have hk' : c.length ≤ min c.length (bufSize - buf.length) := by omega
      refine ⟨?_, ?_, ?_⟩
      · simp only [RdSt.rem, hk, if_false, List.flatten_cons, List.append_assoc,
          List.take_of_length_le hk']
      · simp only [List.length_append, List.length_take]; omega
      · simp only [RdSt.need, hk, if_false, hnf, List.length_cons]
        split <;> omega

theorem specRead_found {buf : Bytes} {i : Nat} (rest : Bytes) (hb : buf.length ≤ bufSize)
    (hi : indexOf lf buf = some i) :
    specRead (buf ++ rest) = .line (stripCR (buf.take i)) (buf.drop (i + 1) ++ rest) := by
  obtain ⟨_, _, hlt⟩ := indexOf_some hi
  have htake : (buf ++ rest).take bufSize = buf ++ rest.take (bufSize - buf.length) := by
    rw [List.take_append, List.take_of_length_le hb]
  unfold specRead
  rw [htake, indexOf_append_left _ hi]
  simp only
  rw [List.take_append_of_le_length (by omega), List.drop_append_of_le_length (by omega)]

theorem specRead_full {buf : Bytes} (rest : Bytes) (hb : buf.length = bufSize)
    (hi : indexOf lf buf = none) : specRead (buf ++ rest) = .tooLong := by
  have htake : (buf ++ rest).take bufSize = buf := by
    rw [List.take_append, List.take_of_length_le (by omega), hb, Nat.sub_self, List.take_zero,
      List.append_nil]
  have hl : bufSize ≤ (buf ++ rest).length := by rw [List.length_append]; omega
  unfold specRead
  rw [htake, hi]
  simp only [hl, if_true]

theorem specRead_short {buf : Bytes} (hb : buf.length < bufSize) (hi : indexOf lf buf = none) :
    specRead buf = if buf.isEmpty then .eof else .line buf [] := by
  have hf : ¬ bufSize ≤ buf.length := by omega
  unfold specRead
  rw [List.take_of_length_le (by omega), hi]
  simp only [hf, if_false]

/-- One `ReadLine` of the chunk model does to the remaining stream exactly what one step of the
    stream specification does — for every buffer content within the size, every chunking, and every
    fuel of at least `need` (in particular the `chunks.length + 2` that `tcpConn` passes). -/
theorem readLine_spec : ∀ (fuel : Nat) (s : RdSt), s.buf.length ≤ bufSize → s.need ≤ fuel →
    absRead (s.readLine fuel) = specRead s.rem ∧ (s.readLine fuel).2.buf.length ≤ bufSize := by
  intro fuel
  induction fuel with
  | zero => intro s _ hn; exfalso; unfold RdSt.need at hn; split at hn <;> omega
  | succ fuel ih =>
    intro s hb hn
    cases hi : indexOf lf s.buf with
    | some i =>
      rw [readLine_found fuel hi]
      refine ⟨?_, ?_⟩
      · rw [RdSt.rem, specRead_found _ hb hi]; rfl
      · simp only [List.length_drop]; omega
    | none =>
      by_cases hf : bufSize ≤ s.buf.length
      · rw [readLine_full fuel hi hf]
        refine ⟨?_, hb⟩
        rw [RdSt.rem, specRead_full _ (by omega) hi]; rfl
      · have hf' : s.buf.length < bufSize := by omega
        cases hs : s.fill with
        | some s' =>
          obtain ⟨h1, h2, h3⟩ := fill_spec hf' hs
          rw [readLine_fill fuel hi hf' hs, ← h1]
          exact ih s' h2 (by omega)
        | none =>
          have hc : s.chunks = [] := by
            cases hcs : s.chunks with
            | nil => rfl
            | cons c rest => simp [RdSt.fill, hcs] at hs
          have hrem : s.rem = s.buf := by simp [RdSt.rem, hc]
          rw [readLine_eof fuel hi hf' hs, hrem, specRead_short hf' hi]
          by_cases he : s.buf.isEmpty = true
          · simp only [he, if_true, absRead]
            exact ⟨trivial, hb⟩
          · simp only [he, absRead, RdSt.rem, hc]
            simp

theorem tcpLinesSpec_nil (fuel : Nat) (o : TcpOut) : tcpLinesSpec fuel [] o = o := by
  cases fuel with
  | zero => rfl
  | succ f => simp [tcpLinesSpec, indexOf, bufSize]

/-- a line consumes at least one byte of the stream -/
theorem specRead_line_length {rem l rest : Bytes} (h : specRead rem = .line l rest) :
    rest.length < rem.length := by
  unfold specRead at h
  cases hi : indexOf lf (rem.take bufSize) with
  | some i =>
    obtain ⟨_, _, hlt⟩ := indexOf_some hi
    rw [hi] at h
    simp only [RdRes.line.injEq] at h
    rw [← h.2, List.length_drop]
    rw [List.length_take] at hlt
    omega
  | none =>
    rw [hi] at h
    simp only at h
    split at h
    · cases h
    · split at h
      · cases h
      · rename_i hne
        simp only [RdRes.line.injEq] at h
        rw [← h.2]
        cases rem with
        | nil => simp at hne
        | cons x xs => simp

/-- the stream specification, one step at a time -/
theorem tcpLinesSpec_succ (f : Nat) (stream : Bytes) (o : TcpOut) :
    tcpLinesSpec (f + 1) stream o =
      match specRead stream with
      | .line l rest => tcpLinesSpec f rest { o with lines := o.lines ++ [l] }
      | .tooLong => { o with tooLong := true }
      | .eof => o := by
  unfold specRead
  rw [tcpLinesSpec]
  cases hi : indexOf lf (stream.take bufSize) with
  | some i => rfl
  | none =>
    simp only [ge_iff_le]
    by_cases h1 : bufSize ≤ stream.length
    · simp only [h1, if_true]
    · simp only [h1, if_false]
      by_cases h2 : stream.isEmpty = true
      · simp only [h2, if_true]
      · have h2' : stream.isEmpty = false := by simpa using h2
        simp only [h2', Bool.false_eq_true, if_false]
        rw [tcpLinesSpec_nil]

/-- `HandleConn` over the chunk model computes the stream specification on the remaining stream,
    for every pair of fuels that covers the remaining length. -/
theorem tcpConn_eq_spec : ∀ (n : Nat) (s : RdSt) (o : TcpOut) (f1 f2 : Nat), s.buf.length ≤ bufSize →
    s.rem.length ≤ n → n + 1 ≤ f1 → n + 1 ≤ f2 → tcpConn f1 s o = tcpLinesSpec f2 s.rem o := by
  intro n
  induction n using Nat.strongRecOn with
  | _ n ih =>
    intro s o f1 f2 hb hn h1 h2
    obtain ⟨g1, rfl⟩ : ∃ g, f1 = g + 1 := ⟨f1 - 1, by omega⟩
    obtain ⟨g2, rfl⟩ : ∃ g, f2 = g + 1 := ⟨f2 - 1, by omega⟩
    obtain ⟨hr, hb'⟩ := readLine_spec (s.chunks.length + 2) s hb s.need_le
    rw [tcpLinesSpec_succ]
    have e : tcpConn (g1 + 1) s o =
        match s.readLine (s.chunks.length + 2) with
        | (.line l, s') => tcpConn g1 s' { o with lines := o.lines ++ [l] }
        | (.prefix, _) => { o with tooLong := true }
        | (.eof, _) => o := rfl
    rw [e]
    generalize s.readLine (s.chunks.length + 2) = r at hr hb'
    obtain ⟨out, s'⟩ := r
    cases out with
    | line l =>
      simp only [absRead] at hr
      rw [← hr]
      simp only
      have hlt := specRead_line_length hr.symm
      exact ih s'.rem.length (by omega) s' _ g1 g2 hb' (Nat.le_refl _) (by omega) (by omega)
    | «prefix» => simp only [absRead] at hr; rw [← hr]
    | eof => simp only [absRead] at hr; rw [← hr]

theorem sum_length_eq_length_flatten (chunks : List Bytes) :
    (chunks.map (·.length)).sum = chunks.flatten.length := by
  rw [List.length_flatten]

/-- the chunk model, started with an empty buffer, computes the stream specification on the
    concatenation of the chunks -/
theorem tcpLinesOfChunks_eq (chunks : List Bytes) :
    tcpLinesOfChunks chunks = tcpLinesOfStream chunks.flatten := by
  unfold tcpLinesOfChunks tcpLinesOfStream
  have h := tcpConn_eq_spec chunks.flatten.length { buf := [], chunks := chunks } {}
    ((chunks.map (·.length)).sum + chunks.length + 2) (chunks.flatten.length + 1)
    (Nat.zero_le _) (by simp [RdSt.rem]) (by rw [sum_length_eq_length_flatten]; omega) (Nat.le_refl _)
  simpa [RdSt.rem] using h

/-! ## The stream specification in terms of `strings.Split` -/

/-- What a TCP connection hands on, given the pieces of the stream between newlines (`splitOn lf`),
    and whether it ends with "line too long": every piece that is followed by a newline (all but the
    last) is a line with one trailing `\r` stripped; the last piece is the unterminated tail, handed
    on as it is unless it is empty; the first piece of 4096 bytes or more stops everything. -/
def tcpFrame : List Bytes → List Bytes × Bool
  | [] => ([], false)
  | [p] => if bufSize ≤ p.length then ([], true) else if p.isEmpty then ([], false) else ([p], false)
  | p :: q :: ps =>
    if bufSize ≤ p.length then ([], true)
    else (stripCR p :: (tcpFrame (q :: ps)).1, (tcpFrame (q :: ps)).2)

theorem tcpFrame_cons {p : Bytes} {rest : List Bytes} (h : rest ≠ []) :
    tcpFrame (p :: rest) =
      if bufSize ≤ p.length then ([], true) else (stripCR p :: (tcpFrame rest).1, (tcpFrame rest).2) := by
  cases rest with
  | nil => exact absurd rfl h
  | cons q ps => rfl

theorem specRead_of_not_mem {stream : Bytes} (h : indexOf lf stream = none) :
    specRead stream =
      if bufSize ≤ stream.length then .tooLong else if stream.isEmpty then .eof else .line stream [] := by
  unfold specRead
  rw [indexOf_take_of_none _ h]

theorem specRead_of_mem {stream : Bytes} {i : Nat} (h : indexOf lf stream = some i) :
    specRead stream =
      if i < bufSize then .line (stripCR (stream.take i)) (stream.drop (i + 1)) else .tooLong := by
  obtain ⟨_, _, hlt⟩ := indexOf_some h
  unfold specRead
  rw [indexOf_take_of_some _ h]
  by_cases hi : i < bufSize
  · simp only [hi, if_true]
  · have : bufSize ≤ stream.length := by omega
    simp only [hi, if_false, this, if_true]

/-- the stream specification is `tcpFrame` of the pieces, for every fuel covering the stream -/
theorem tcpLinesSpec_eq_frame : ∀ (n : Nat) (stream : Bytes) (o : TcpOut) (fuel : Nat),
    stream.length ≤ n → n + 1 ≤ fuel →
    tcpLinesSpec fuel stream o =
      { lines := o.lines ++ (tcpFrame (splitOn lf stream)).1,
        tooLong := o.tooLong || (tcpFrame (splitOn lf stream)).2 } := by
  intro n
  induction n using Nat.strongRecOn with
  | _ n ih =>
    intro stream o fuel hn hf
    obtain ⟨f, rfl⟩ : ∃ g, fuel = g + 1 := ⟨fuel - 1, by omega⟩
    rw [tcpLinesSpec_succ]
    cases hi : indexOf lf stream with
    | none =>
      rw [specRead_of_not_mem hi, splitOn_of_not_mem (indexOf_none hi)]
      by_cases h1 : bufSize ≤ stream.length
      · simp [tcpFrame, h1]
      · by_cases h2 : stream.isEmpty = true
        · simp [tcpFrame, h1, h2]
        · have h2' : stream.isEmpty = false := by simpa using h2
          simp only [tcpFrame, h1, if_false, h2', Bool.false_eq_true]
          rw [tcpLinesSpec_nil]
          simp
    | some i =>
      obtain ⟨hdec, hnot, hlt⟩ := indexOf_some hi
      have hl : (stream.take i).length = i := by rw [List.length_take]; omega
      obtain ⟨q, qs, hq⟩ := splitOn_exists lf (stream.drop (i + 1))
      have hsplit : splitOn lf stream = stream.take i :: q :: qs := by
        conv => lhs; rw [hdec]
        rw [splitOn_append _ hnot, hq]
      rw [specRead_of_mem hi, hsplit]
      by_cases h1 : i < bufSize
      · have h1' : ¬ bufSize ≤ (stream.take i).length := by omega
        simp only [h1, if_true, tcpFrame, h1', if_false]
        have hlen : (stream.drop (i + 1)).length < stream.length := by
          rw [List.length_drop]; omega
        rw [ih (stream.drop (i + 1)).length (by omega) (stream.drop (i + 1)) _ f (Nat.le_refl _)
          (by omega), hq]
        simp
      · have h1' : bufSize ≤ (stream.take i).length := by omega
        simp only [h1, if_false, tcpFrame, h1', if_true]
        simp

theorem tcpLinesOfStream_eq_frame (stream : Bytes) :
    (tcpLinesOfStream stream).lines = (tcpFrame (splitOn lf stream)).1 ∧
    (tcpLinesOfStream stream).tooLong = (tcpFrame (splitOn lf stream)).2 := by
  unfold tcpLinesOfStream
  rw [tcpLinesSpec_eq_frame stream.length stream {} _ (Nat.le_refl _) (Nat.le_refl _)]
  simp

/-- the lines of a stream all of whose pieces are short -/
def tcpShortLines : List Bytes → List Bytes
  | [] => []
  | [p] => if p.isEmpty then [] else [p]
  | p :: q :: ps => stripCR p :: tcpShortLines (q :: ps)

theorem tcpFrame_short : ∀ (ps : List Bytes), (∀ p ∈ ps, p.length < bufSize) →
    tcpFrame ps = (tcpShortLines ps, false)
  | [], _ => rfl
  | [p], h => by
    have : ¬ bufSize ≤ p.length := by have := h p (by simp); omega
    simp only [tcpFrame, this, if_false, tcpShortLines]
    split <;> rfl
  | p :: q :: ps, h => by
    have : ¬ bufSize ≤ p.length := by have := h p (by simp); omega
    have ih := tcpFrame_short (q :: ps) (fun x hx => h x (List.mem_cons_of_mem _ hx))
    simp only [tcpFrame, this, if_false, ih, tcpShortLines]

/-- the first long piece stops the connection; the pieces before it are all newline-terminated -/
theorem tcpFrame_long : ∀ (pre : List Bytes) (l : Bytes) (post : List Bytes),
    (∀ p ∈ pre, p.length < bufSize) → bufSize ≤ l.length →
    tcpFrame (pre ++ l :: post) = (pre.map stripCR, true)
  | [], l, post, _, hl => by
    cases post with
    | nil => simp [tcpFrame, hl]
    | cons q qs => simp [tcpFrame, hl]
  | p :: pre, l, post, h, hl => by
    have : ¬ bufSize ≤ p.length := by have := h p (by simp); omega
    have ih := tcpFrame_long pre l post (fun x hx => h x (List.mem_cons_of_mem _ hx)) hl
    rw [List.cons_append, tcpFrame_cons (by simp), ih]
    simp [this]

theorem tcpShortLines_cons {p : Bytes} {rest : List Bytes} (h : rest ≠ []) :
    tcpShortLines (p :: rest) = stripCR p :: tcpShortLines rest := by
  cases rest with
  | nil => exact absurd rfl h
  | cons q ps => rfl

/-- a stream that ends with a newline: every piece is a terminated line -/
theorem tcpShortLines_terminated : ∀ (pre : List Bytes),
    tcpShortLines (pre ++ [[]]) = pre.map stripCR
  | [] => rfl
  | p :: pre => by
    rw [List.cons_append, tcpShortLines_cons (by simp), tcpShortLines_terminated pre]
    rfl

theorem stripCR_of_not_mem {l : Bytes} (h : cr ∉ l) : stripCR l = l := by
  unfold stripCR
  split
  · rename_i hc
    simp only [beq_iff_eq] at hc
    exact absurd (List.mem_of_getLast? hc) h
  · rfl

/-- without carriage returns: the pieces, minus an empty last one -/
theorem tcpShortLines_no_cr : ∀ (ps : List Bytes), (∀ p ∈ ps, cr ∉ p) →
    tcpShortLines ps = if ps.getLast? = some [] then ps.dropLast else ps
  | [], _ => rfl
  | [p], _ => by
    cases p with
    | nil => simp [tcpShortLines]
    | cons x xs => simp [tcpShortLines]
  | p :: q :: ps, h => by
    have ih := tcpShortLines_no_cr (q :: ps) (fun x hx => h x (List.mem_cons_of_mem _ hx))
    rw [tcpShortLines, ih, stripCR_of_not_mem (h p (by simp))]
    have e1 : (p :: q :: ps).getLast? = (q :: ps).getLast? := by simp [List.getLast?_cons_cons]
    rw [e1]
    split
    · simp [List.dropLast]
    · rfl

theorem filter_tcpShortLines_no_cr : ∀ (ps : List Bytes), (∀ p ∈ ps, cr ∉ p) →
    (tcpShortLines ps).filter (fun l => !l.isEmpty) = ps.filter (fun l => !l.isEmpty)
  | [], _ => rfl
  | [p], _ => by
    cases p with
    | nil => simp [tcpShortLines]
    | cons x xs => simp [tcpShortLines]
  | p :: q :: ps, h => by
    have ih := filter_tcpShortLines_no_cr (q :: ps) (fun x hx => h x (List.mem_cons_of_mem _ hx))
    rw [tcpShortLines, stripCR_of_not_mem (h p (by simp)), List.filter_cons, List.filter_cons (x := p), ih]

/-- the readable form of `tcpShortLines`: all pieces but the last with one `\r` stripped, then the
    last piece as it is unless it is empty -/
theorem tcpShortLines_eq : ∀ (ps : List Bytes),
    tcpShortLines ps = ps.dropLast.map stripCR ++
      (match ps.getLast? with | some t => if t.isEmpty then [] else [t] | none => [])
  | [] => rfl
  | [p] => by simp [tcpShortLines]
  | p :: q :: ps => by
    rw [tcpShortLines, tcpShortLines_eq (q :: ps)]
    simp [List.getLast?_cons_cons, List.dropLast]

/-! ### `strings.Split` loses nothing -/

theorem joinWith_splitOn (c : UInt8) : ∀ (s : Bytes), joinWith c (splitOn c s) = s
  | [] => rfl
  | b :: bs => by
    have ih := joinWith_splitOn c bs
    obtain ⟨q, qs, hq⟩ := splitOn_exists c bs
    rw [hq] at ih
    by_cases hb : b = c
    · subst hb
      rw [splitOn_cons_eq, hq, joinWith_cons_cons, ih]
      rfl
    · rw [splitOn_cons_ne hb hq]
      cases qs with
      | nil => simp only [joinWith] at ih ⊢; rw [ih]
      | cons r rs =>
        rw [joinWith_cons_cons] at ih ⊢
        rw [List.cons_append, ih]

theorem mem_of_mem_splitOn {c x : UInt8} : ∀ {s p : Bytes}, p ∈ splitOn c s → x ∈ p → x ∈ s
  | [], p, h, hx => by simp [splitOn] at h; subst h; simp at hx
  | b :: bs, p, h, hx => by
    by_cases hb : b = c
    · subst hb
      rw [splitOn_cons_eq] at h
      rcases List.mem_cons.mp h with h | h
      · subst h; simp at hx
      · exact List.mem_cons_of_mem _ (mem_of_mem_splitOn h hx)
    · obtain ⟨q, qs, hq⟩ := splitOn_exists c bs
      rw [splitOn_cons_ne hb hq] at h
      rcases List.mem_cons.mp h with h | h
      · subst h
        rcases List.mem_cons.mp hx with hx | hx
        · subst hx; simp
        · exact List.mem_cons_of_mem _ (mem_of_mem_splitOn (p := q) (by rw [hq]; simp) hx)
      · exact List.mem_cons_of_mem _ (mem_of_mem_splitOn (p := p) (by rw [hq]; simp [h]) hx)

/-- if there is no newline among the first 4096 bytes of a stream of at least that length, its
    first piece has at least 4096 bytes -/
theorem splitOn_head_long {b l : Bytes} {post : List Bytes} (hi : indexOf lf (b.take bufSize) = none)
    (hb : bufSize ≤ b.length) (hs : splitOn lf b = l :: post) : bufSize ≤ l.length := by
  cases hj : indexOf lf b with
  | none =>
    rw [splitOn_of_not_mem (indexOf_none hj)] at hs
    simp only [List.cons.injEq] at hs
    rw [← hs.1]; exact hb
  | some j =>
    obtain ⟨hdec, hnot, hlt⟩ := indexOf_some hj
    rw [indexOf_take_of_some _ hj] at hi
    have hj' : ¬ j < bufSize := by intro h; simp [h] at hi
    rw [hdec, splitOn_append _ hnot] at hs
    simp only [List.cons.injEq] at hs
    rw [← hs.1, List.length_take]
    omega

end SE
