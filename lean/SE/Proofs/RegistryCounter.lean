import SE.Proofs.RegistryPipe
import SE.Spec.FloatLaws
/-
Counter invariants for C06: every counter series holds an ordinary non-negative float part
(`CounterOk`), preserved by every operation; one increment never decreases the exposed value as
long as the integer accumulator does not wrap. Arithmetic enters only through `FloatLaws V`.
-/
set_option linter.unusedSectionVars false
namespace SE
open NumOps
variable {V : Type} [NumOps V]

/-- every series of every counter metric has a float accumulator that is neither NaN nor negative -/
def CounterOk (r : Reg V) : Prop :=
  ∀ m, m ∈ r.metrics → m.ty = .counter → ∀ s, s ∈ m.series → NonNeg s.f

/-- the same in the lookup reading -/
def CounterOkL (r : Reg V) : Prop :=
  ∀ name L s, r.type? name = some .counter → r.series? name L = some s → NonNeg s.f

theorem counterOk_iff {r : Reg V} (hw : RegWF r) : CounterOk r ↔ CounterOkL r := by
  constructor
  · intro h name L s hty hs
    obtain ⟨⟨m, hm, hn, hsm⟩, _⟩ := hasSeries_of_series? hs
    have hf := hw.find_of_mem hm
    rw [hn] at hf
    unfold Reg.type? at hty
    rw [hf] at hty
    exact h m hm (by simpa using hty) s hsm
  · intro h m hm hty s hs
    have hf := hw.find_of_mem hm
    apply h m.name s.labels s
    · unfold Reg.type?; rw [hf]; simp [hty]
    · exact (hw.hasSeries_iff m.name s).mp ⟨m, hm, rfl, hs⟩

theorem CounterOk_empty (pre : List (Bytes × MType × Bytes)) : CounterOk ({ metrics := [], pre := pre } : Reg V) :=
  fun _ h => by cases h

theorem CounterOk_sweep {r : Reg V} (h : CounterOk r) (now : Int) : CounterOk (r.sweep now) := by
  intro m' hm' hty s hs
  rw [sweep_metrics, List.mem_map] at hm'
  obtain ⟨m, hm, e⟩ := hm'
  subst e
  exact h m hm hty s (List.mem_filter.mp hs).1

/-- the value a scrape exposes for a counter: `math.Float64frombits(valBits) + float64(valInt)` -/
def exposed (s : Series V) : V := add s.f (ofNat s.n)

/-- the integer accumulator does not wrap on this increment (only relevant on the integer path) -/
def NoIntWrap (s : Series V) (v : V) : Prop := ∀ k, toUInt64Exact v = some k → s.n + k < two64

theorem counterAdd_nonneg (laws : FloatLaws V) (s : Series V) (v : V) (hs : NonNeg s.f) (hv : NonNeg v) :
    NonNeg (counterAdd s v).f := by
  unfold counterAdd
  split
  · exact hs
  · exact laws.add_ok _ _ hs hv

theorem counterAdd_mono (laws : FloatLaws V) (s : Series V) (v : V) (hs : NonNeg s.f) (hv : NonNeg v)
    (hw : NoIntWrap s v) : le (exposed s) (exposed (counterAdd s v)) = true := by
  unfold counterAdd exposed
  split
  · rename_i k hk
    have : (s.n + k) % two64 = s.n + k := Nat.mod_eq_of_lt (hw k hk)
    simp only [this]
    exact laws.add_mono _ _ _ _ hs hs (laws.ofNat_ok _) (laws.ofNat_ok _) (laws.le_refl _ hs.1)
      (laws.ofNat_mono _ _ (Nat.le_add_right _ _))
  · simp only
    exact laws.add_mono _ _ _ _ hs (laws.add_ok _ _ hs hv) (laws.ofNat_ok _) (laws.ofNat_ok _)
      (laws.le_add _ _ hs hv) (laws.le_refl _ (laws.ofNat_ok _).1)

/-- a counter event that reaches the registry carries an ordinary non-negative value -/
theorem evTarget_counter_value {p : Pipe V} {rx : Rx} {ev : Ev V} {tags : Labels} {c : Counts} {pl : Plan V}
    (ht : evTarget p rx ev tags = some (c, pl)) (hk : ev.kind = .counter) :
    NonNeg (evValue p rx ev) ∧ pl.1 = .counter ∧ pl.2.2 = fun _ s => counterAdd s (evValue p rx ev) := by
  obtain ⟨_, hb, nm, _, hpl⟩ := evTarget_spec ht
  have hty := (evPlan_type p rx ev nm (evLabels p rx ev tags).sorted).1 hk
  rw [← hpl] at hty
  refine ⟨?_, hty.1, hty.2⟩
  unfold evBadCounter at hb
  rw [hk] at hb
  simp only [beq_self_eq_true, Bool.true_and, Bool.or_eq_false_iff] at hb
  exact ⟨hb.2, hb.1⟩

/-- only a counter event makes a counter request -/
theorem evTarget_counter_kind {p : Pipe V} {rx : Rx} {ev : Ev V} {tags : Labels} {c : Counts} {pl : Plan V}
    (ht : evTarget p rx ev tags = some (c, pl)) (hty : pl.1 = .counter) : ev.kind = .counter := by
  obtain ⟨_, _, nm, _, hpl⟩ := evTarget_spec ht
  have h := evPlan_type p rx ev nm (evLabels p rx ev tags).sorted
  rw [← hpl] at h
  cases hk : ev.kind with
  | counter => rfl
  | gauge => have := h.2.1 hk; rw [hty] at this; cases this
  | observer => rcases h.2.2 hk with h' | h' <;> rw [hty] at h' <;> cases h'

theorem CounterOkL_applied (laws : FloatLaws V) {p : Pipe V} {rx : Rx} {ev : Ev V} {tags : Labels} {c : Counts}
    {pl : Plan V} {reg : Reg V} (hok : CounterOkL p.reg) (ht : evTarget p rx ev tags = some (c, pl))
    (hg : p.reg.getOrCreate pl.1 pl.2.1 p.now = .ok (.ok reg)) : CounterOkL (appliedPipe p c pl reg).reg := by
  intro name L s hty hs
  have hkeeps := evTarget_keeps ht
  by_cases hadr : name = pl.2.1.name ∧ L = pl.2.1.labels
  · obtain ⟨hn, hL⟩ := hadr
    subst hn; subst hL
    rw [applied_type? hg, if_pos rfl] at hty
    have hpl1 : pl.1 = .counter := by simpa using hty
    have hk := evTarget_counter_kind ht hpl1
    obtain ⟨hv, _, hupd⟩ := evTarget_counter_value ht hk
    obtain ⟨s1, hs1, hs', _⟩ := applied_addressed (c := c) hkeeps hg
    rw [hs'] at hs
    injection hs with hs
    -- the refreshed / fresh series has a good float part
    have hs1ok : NonNeg s1.f := by
      obtain ⟨s2, hs2, _, _, _, hcase⟩ := getOrCreate_addressed hg
      rw [hs1] at hs2; injection hs2 with hs2; subst hs2
      rcases hcase with ⟨s0, hs0, hty0, e⟩ | ⟨_, e, _⟩
      · rw [e]; rw [hpl1] at hty0; exact hok _ _ s0 hty0 hs0
      · rw [e]; exact laws.zero_ok
    rw [← hs]
    unfold applyUpd
    split
    · rw [hupd]; exact counterAdd_nonneg laws s1 _ hs1ok hv
    · exact hs1ok
  · rw [applied_series_frame hkeeps hg name L hadr] at hs
    have hty0 : p.reg.type? name = some .counter := by
      cases ht0 : p.reg.type? name with
      | none =>
        unfold Reg.type? at ht0
        unfold Reg.series? at hs
        cases hf : p.reg.find name with
        | none => rw [hf] at hs; cases hs
        | some m => rw [hf] at ht0; cases ht0
      | some t =>
        have := applied_type_keep (c := c) hg name t ht0
        rw [hty] at this; rw [this]
    exact hok name L s hty0 hs

/-- `handleEvent` (any event kind, any outcome) preserves `CounterOk` on a well-formed registry -/
theorem CounterOk_handleEvent (laws : FloatLaws V) {p p' : Pipe V} {rx : Rx} {ev : Ev V} {tags : Labels}
    (hw : RegWF p.reg) (hok : CounterOk p.reg) (h : handleEvent p rx ev tags = some (.ok p')) :
    CounterOk p'.reg := by
  by_cases ha : p'.counts.applied = p.counts.applied + 1
  · have hw' := RegWF_handleEvent hw h
    obtain ⟨c, pl, reg, ht, hg, e⟩ := handleEvent_applied h ha
    subst e
    exact (counterOk_iff hw').mpr (CounterOkL_applied laws ((counterOk_iff hw).mp hok) ht hg)
  · rw [handleEvent_not_applied h ha]; exact hok

theorem CounterOk_handleEvents (laws : FloatLaws V) {rx : Rx} {tags : Labels} (evs : List (Ev V)) :
    ∀ {p p' : Pipe V}, RegWF p.reg → CounterOk p.reg → handleEvents p rx tags evs = some (.ok p') →
      RegWF p'.reg ∧ CounterOk p'.reg := by
  induction evs with
  | nil =>
    intro p p' hw hok h
    simp only [handleEvents] at h; injection h with h; injection h with h; subst h; exact ⟨hw, hok⟩
  | cons e es ih =>
    intro p p' hw hok h
    simp only [handleEvents] at h
    split at h
    · cases h
    · cases h
    · rename_i p1 h1
      exact ih (RegWF_handleEvent hw h1) (CounterOk_handleEvent laws hw hok h1) h

theorem exposed_ok (laws : FloatLaws V) (s : Series V) (h : NonNeg s.f) : NonNeg (exposed s) :=
  laws.add_ok _ _ h (laws.ofNat_ok _)

/-- every step keeps the type of every registered name -/
theorem handleEvent_type_keep {p p' : Pipe V} {rx : Rx} {ev : Ev V} {tags : Labels}
    (h : handleEvent p rx ev tags = some (.ok p')) (name : Bytes) (t : MType) (ht : p.reg.type? name = some t) :
    p'.reg.type? name = some t := by
  by_cases ha : p'.counts.applied = p.counts.applied + 1
  · obtain ⟨c, pl, reg, _, hg, e⟩ := handleEvent_applied h ha
    subst e; exact applied_type_keep hg name t ht
  · rw [handleEvent_not_applied h ha]; exact ht

/-- one step of any kind and outcome: an existing counter series still exists and its exposed value has
    not decreased, provided that, if the step is an increment of this very series, it does not wrap -/
theorem counter_step_mono (laws : FloatLaws V) {p p' : Pipe V} {rx : Rx} {ev : Ev V} {tags : Labels}
    (hw : RegWF p.reg) (hok : CounterOk p.reg) (h : handleEvent p rx ev tags = some (.ok p'))
    (name : Bytes) (L : Labels) (s0 : Series V)
    (hty : p.reg.type? name = some .counter) (hs0 : p.reg.series? name L = some s0)
    (hnw : ∀ c pl, evTarget p rx ev tags = some (c, pl) → name = pl.2.1.name → L = pl.2.1.labels →
      NoIntWrap s0 (evValue p rx ev)) :
    ∃ s1, p'.reg.series? name L = some s1 ∧ le (exposed s0) (exposed s1) = true := by
  have hs0ok : NonNeg s0.f := (counterOk_iff hw).mp hok name L s0 hty hs0
  have hrefl : le (exposed s0) (exposed s0) = true := laws.le_refl _ (exposed_ok laws s0 hs0ok).1
  by_cases ha : p'.counts.applied = p.counts.applied + 1
  · obtain ⟨c, pl, reg, ht, hg, e⟩ := handleEvent_applied h ha
    subst e
    by_cases hadr : name = pl.2.1.name ∧ L = pl.2.1.labels
    · obtain ⟨hn, hL⟩ := hadr
      subst hn; subst hL
      -- a hit: the requested type is the registered one, so this is a counter event
      have hpl1 : pl.1 = .counter := by
        obtain ⟨s2, _, _, _, _, hcase⟩ := getOrCreate_addressed hg
        rcases hcase with ⟨s0', _, hty0, _⟩ | ⟨hn, _, _⟩
        · rw [hty] at hty0; injection hty0 with e; exact e.symm
        · rw [hs0] at hn; cases hn
      have hk := evTarget_counter_kind ht hpl1
      obtain ⟨hv, _, hupd⟩ := evTarget_counter_value ht hk
      obtain ⟨v, _, hs1⟩ := applied_hit (c := c) hw (evTarget_keeps ht) hg s0 hs0
      rw [hupd] at hs1
      exact ⟨_, hs1, counterAdd_mono laws { s0 with last := p.now, ttl := pl.2.1.ttl } _ hs0ok hv
        (hnw c pl ht rfl rfl)⟩
    · refine ⟨s0, ?_, hrefl⟩
      rw [applied_series_frame (evTarget_keeps ht) hg name L hadr]; exact hs0
  · refine ⟨s0, ?_, hrefl⟩
    rw [handleEvent_not_applied h ha]; exact hs0

/-- no increment of the series (name, L) wraps its integer accumulator along the events of a line -/
def NoWrapLine (rx : Rx) (tags : Labels) (name : Bytes) (L : Labels) : Pipe V → List (Ev V) → Prop
  | _, [] => True
  | p, e :: es =>
    (∀ c pl s0, evTarget p rx e tags = some (c, pl) → name = pl.2.1.name → L = pl.2.1.labels →
      p.reg.series? name L = some s0 → NoIntWrap s0 (evValue p rx e)) ∧
    ∀ p1, handleEvent p rx e tags = some (.ok p1) → NoWrapLine rx tags name L p1 es

/-- along all the events of a line an existing counter series never decreases, as long as it does not wrap -/
theorem counter_line_mono (laws : FloatLaws V) (rx : Rx) (tags : Labels) (name : Bytes) (L : Labels)
    (evs : List (Ev V)) :
    ∀ (p p' : Pipe V) (s0 : Series V), RegWF p.reg → CounterOk p.reg → p.reg.type? name = some .counter →
      p.reg.series? name L = some s0 → handleEvents p rx tags evs = some (.ok p') →
      NoWrapLine rx tags name L p evs →
      ∃ s1, p'.reg.series? name L = some s1 ∧ le (exposed s0) (exposed s1) = true := by
  induction evs with
  | nil =>
    intro p p' s0 hw hok hty hs0 h _
    simp only [handleEvents] at h; injection h with h; injection h with h; subst h
    exact ⟨s0, hs0, laws.le_refl _ (exposed_ok laws s0 ((counterOk_iff hw).mp hok name L s0 hty hs0)).1⟩
  | cons e es ih =>
    intro p p' s0 hw hok hty hs0 h hnw
    simp only [handleEvents] at h
    cases h1 : handleEvent p rx e tags with
    | none => rw [h1] at h; cases h
    | some x =>
      cases x with
      | error pn => rw [h1] at h; simp only at h; injection h with h; cases h
      | ok p1 =>
        rw [h1] at h
        simp only at h
        obtain ⟨hnw1, hnw2⟩ := hnw
        obtain ⟨s1, hs1, hle1⟩ := counter_step_mono laws hw hok h1 name L s0 hty hs0
          (fun c pl ht hn hL => hnw1 c pl s0 ht hn hL hs0)
        obtain ⟨s2, hs2, hle2⟩ := ih p1 p' s1 (RegWF_handleEvent hw h1) (CounterOk_handleEvent laws hw hok h1)
          (handleEvent_type_keep h1 name _ hty) hs1 h (hnw2 p1 h1)
        exact ⟨s2, hs2, laws.le_trans _ _ _ hle1 hle2⟩

end SE
