import SE.Proofs.Cache
/-
Helper lemmas for C14 (configuration reload is all-or-nothing).
-/
namespace SE
variable {V : Type}

/-- After the assignments under the write lock the mapper object answers every lookup like a
    freshly built one. The `fsm` and `doRegex` fields may be stale (regex-only reload), but then
    `doFSM = false` and `MState.lookup` consults neither. -/
theorem swap_lookup_eq_fresh (st : MState V) (n : Config V) (rx : Rx) (name : Bytes) (ty : Nat) :
    (st.swap n).lookup rx name ty = (MState.fresh n).lookup rx name ty := by
  unfold MState.lookup MState.swap MState.fresh
  by_cases h : n.doFSM = true
  · simp [h]
  · simp [h]

theorem okReloads_append (a b : List (Op V)) : okReloads (a ++ b) = okReloads a ++ okReloads b := by
  induction a with
  | nil => rfl
  | cons op a ih =>
    cases op with
    | get name ty ch => simpa [okReloads] using ih
    | reload l =>
      cases l with
      | error e => simpa [okReloads] using ih
      | ok n => simp [okReloads, ih]

theorem after_cons (st : MState V) (op : Op V) (ops : List (Op V)) :
    st.after (op :: ops) = (st.step op).after ops := rfl

theorem after_append (st : MState V) (a b : List (Op V)) : st.after (a ++ b) = (st.after a).after b := by
  simp [MState.after, List.foldl_append]

theorem expectedAfter_cons (rx : Rx) (st : MState V) (op : Op V) (pre : List (Op V)) (name : Bytes) (ty : Nat) :
    expectedAfter rx st (op :: pre) name ty = expectedAfter rx (st.step op) pre name ty := by
  unfold expectedAfter lastOk
  cases op with
  | get nm t ch => simp [okReloads, MState.step]
  | reload l =>
    cases l with
    | error e => simp [okReloads, MState.step]
    | ok n =>
      simp only [okReloads, MState.step]
      cases h : (okReloads pre).getLast? with
      | none =>
        have : okReloads pre = [] := by simpa using h
        simp [this, swap_lookup_eq_fresh]
      | some x =>
        have : (n :: okReloads pre).getLast? = some x := by
          cases hl : okReloads pre with
          | nil => simp [hl] at h
          | cons y ys => rw [hl] at h; simpa [List.getLast?_cons_cons] using h
        simp [this]

/-- the mapper object after any history answers like a fresh mapper for the last successfully
    loaded configuration (like the initial mapper if there was none) -/
theorem after_lookup (rx : Rx) (pre : List (Op V)) :
    ∀ (st : MState V) (name : Bytes) (ty : Nat),
      (st.after pre).lookup rx name ty = expectedAfter rx st pre name ty := by
  induction pre with
  | nil => intro st name ty; simp [MState.after, expectedAfter, lastOk, okReloads]
  | cons op pre ih =>
    intro st name ty
    rw [after_cons, ih, expectedAfter_cons]

theorem runPlain_append (rx : Rx) (a b : List (Op V)) :
    ∀ (st : MState V), runPlain rx st (a ++ b) = runPlain rx st a ++ runPlain rx (st.after a) b := by
  induction a with
  | nil => intro st; rfl
  | cons op a ih =>
    intro st
    cases op with
    | get name ty ch => simp [runPlain, ih, after_cons, MState.step]
    | reload l => simp [runPlain, ih, after_cons]

/-- the answer of a `get` anywhere in a history -/
theorem runPlain_get_at (rx : Rx) (st : MState V) (pre post : List (Op V)) (name : Bytes) (ty ch : Nat) :
    runPlain rx st (pre ++ .get name ty ch :: post) =
      runPlain rx st pre ++ expectedAfter rx st pre name ty :: runPlain rx (st.after pre) post := by
  rw [runPlain_append, runPlain, after_lookup]

/-- two mapper objects that answer every lookup alike keep doing so through any history -/
theorem runPlain_congr (rx : Rx) (ops : List (Op V)) :
    ∀ (s1 s2 : MState V), (∀ name ty, s1.lookup rx name ty = s2.lookup rx name ty) →
      runPlain rx s1 ops = runPlain rx s2 ops := by
  induction ops with
  | nil => intro _ _ _; rfl
  | cons op ops ih =>
    intro s1 s2 h
    cases op with
    | get name ty ch => simp only [runPlain]; rw [h, ih s1 s2 h]
    | reload l =>
      cases l with
      | error e => simpa [runPlain, MState.step] using ih s1 s2 h
      | ok n =>
        simp only [runPlain, MState.step]
        exact ih _ _ (fun name ty => by rw [swap_lookup_eq_fresh, swap_lookup_eq_fresh])

/-- interleaving preserves the multiset of successful reloads -/
theorem interleaving_okReloads (threads : List (List (Op V))) (trace : List (Op V))
    (h : Interleaving threads trace) :
    (okReloads trace).Perm ((threads.map okReloads).flatten) := by
  induction h with
  | done threads hnil =>
    have : (threads.map okReloads).flatten = [] := by
      simp only [List.flatten_eq_nil_iff, List.mem_map]
      rintro l ⟨t, ht, rfl⟩
      rw [hnil t ht]; rfl
    rw [this]; exact List.Perm.refl _
  | step pre op t post trace _ ih =>
    simp only [List.map_append, List.map_cons, List.flatten_append, List.flatten_cons] at ih ⊢
    cases op with
    | get name ty ch => simpa [okReloads] using ih
    | reload l =>
      cases l with
      | error e => simpa [okReloads] using ih
      | ok n =>
        simp only [okReloads, List.cons_append]
        exact (List.Perm.cons n ih).trans List.perm_middle.symm

end SE
