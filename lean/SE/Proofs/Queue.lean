import SE.Spec.Queue
/-
Helper lemmas for C16 (SE/Props/C16.lean): inversion lemmas for the eight step labels of the
event-queue machine (SE/Model/Queue.lean), three inductive invariants over reachable states
(`QMutex`: mutual exclusion, `QBound`: batch sizes, `QCons`: conservation of events per producer)
and their preservation by every enabled step, hence by every schedule.
-/
namespace SE
variable {E : Type}

/-! ### vocabulary -/

/-- the goroutine is outside `Queue`/`Flush` (does not hold the mutex) -/
def QPc.isIdle : QPc E → Bool
  | .idle => true
  | _ => false

/-- the goroutine's next action is the channel send `eq.C <- eq.q` -/
def QPc.isSending : QPc E → Bool
  | .sending _ => true
  | _ => false

/-- the events of the current `Queue` call that are not yet appended to `q` -/
def QPc.rest : QPc E → List E
  | .idle => []
  | .holding r => r
  | .sending r => r

/-- every event appended to `q` so far, in global append order: what the consumer got, then what is
    in the channel, then the pending slice -/
def pipeline (s : QSt E) : List E := s.delivered.flatten ++ s.chan.flatten ++ s.q

/-- events are tagged with their producer: every event of program `p` has owner `p` -/
def Owned (owner : E → Nat) (programs : List (List (List E))) : Prop :=
  ∀ p prog, programs[p]? = some prog → ∀ e, e ∈ prog.flatten → owner e = p

/-- executable check of `Owned` -/
def ownedB (owner : E → Nat) (programs : List (List (List E))) : Bool :=
  programs.zipIdx.all fun (prog, p) => prog.flatten.all fun e => owner e == p

theorem Owned_of_ownedB {owner : E → Nat} {programs : List (List (List E))}
    (h : ownedB owner programs = true) : Owned owner programs := by
  intro p prog hp e he
  simp only [ownedB, List.all_eq_true, beq_iff_eq] at h
  exact h (prog, p) (List.mem_zipIdx_iff_getElem?.2 hp) e he

/-! ### list helpers -/

theorem getElem?_set_self_of_some {α : Type} {l : List α} {i : Nat} {old a : α} (hi : l[i]? = some old) :
    (l.set i a)[i]? = some a := by
  have hlt : i < l.length := by
    rcases Nat.lt_or_ge i l.length with h | h
    · exact h
    · rw [List.getElem?_eq_none h] at hi; cases hi
  simp [hlt]

theorem getElem?_set_cases {α : Type} {l : List α} {i j : Nat} {a x : α}
    (h : (l.set i a)[j]? = some x) : (j = i ∧ x = a) ∨ (j ≠ i ∧ l[j]? = some x) := by
  by_cases hji : i = j
  · subst hji
    left
    rw [List.getElem?_set] at h
    simp only [if_true] at h
    split at h
    · cases h; exact ⟨rfl, rfl⟩
    · cases h
  · right
    rw [List.getElem?_set_ne hji] at h
    exact ⟨fun e => hji e.symm, h⟩

/-! ### inversion of the step function -/

section inversion
variable {s s' : QSt E}

theorem qStep_acquire_inv {i : Nat} (h : qStep s (.acquire i) = some s') :
    ∃ batch todo, s.prods[i]? = some ⟨batch :: todo, .idle⟩ ∧ s.locked = false ∧
      s' = { setProd s i ⟨todo, .holding batch⟩ with locked := true } := by
  simp only [qStep] at h
  split at h
  · rename_i batch todo hp
    split at h
    · cases h
    · rename_i hl
      cases h
      exact ⟨batch, todo, hp, by simpa using hl, rfl⟩
  · cases h

theorem qStep_append_inv {i : Nat} (h : qStep s (.append i) = some s') :
    ∃ todo e rest, s.prods[i]? = some ⟨todo, .holding (e :: rest)⟩ ∧
      ((s.thr ≤ s.q.length + 1 ∧ s' = { setProd s i ⟨todo, .sending rest⟩ with q := s.q ++ [e] }) ∨
       (s.q.length + 1 < s.thr ∧ s' = { setProd s i ⟨todo, .holding rest⟩ with q := s.q ++ [e] })) := by
  simp only [qStep] at h
  split at h
  · rename_i todo e rest hp
    refine ⟨todo, e, rest, hp, ?_⟩
    simp only [List.length_append, List.length_cons, List.length_nil] at h
    split at h
    · rename_i hc
      cases h
      exact Or.inl ⟨by omega, rfl⟩
    · rename_i hc
      cases h
      exact Or.inr ⟨by omega, rfl⟩
  · cases h

theorem qStep_send_inv {i : Nat} (h : qStep s (.send i) = some s') :
    ∃ todo rest, s.prods[i]? = some ⟨todo, .sending rest⟩ ∧ s.chan.length < s.cap ∧
      s' = { setProd s i ⟨todo, .holding rest⟩ with chan := s.chan ++ [s.q], q := [] } := by
  simp only [qStep] at h
  split at h
  · rename_i todo rest hp
    split at h
    · rename_i hc
      cases h
      exact ⟨todo, rest, hp, by simpa [canSend] using hc, rfl⟩
    · cases h
  · cases h

theorem qStep_release_inv {i : Nat} (h : qStep s (.release i) = some s') :
    ∃ todo, s.prods[i]? = some ⟨todo, .holding []⟩ ∧
      s' = { setProd s i ⟨todo, .idle⟩ with locked := false } := by
  simp only [qStep] at h
  split at h
  · rename_i todo hp
    cases h
    exact ⟨todo, hp, rfl⟩
  · cases h

theorem qStep_tAcquire_inv (h : qStep s .tAcquire = some s') :
    s.tickPc = .idle ∧ s.locked = false ∧ 0 < s.ticks ∧
      s' = { s with locked := true, ticks := s.ticks - 1, tickPc := .sending [] } := by
  simp only [qStep] at h
  split at h
  · rename_i hp
    split at h
    · cases h
    · rename_i hc
      cases h
      simp only [Bool.or_eq_true, beq_iff_eq, not_or] at hc
      exact ⟨hp, by simpa using hc.1, by omega, rfl⟩
  · cases h

theorem qStep_tSend_inv (h : qStep s .tSend = some s') :
    (∃ r, s.tickPc = .sending r) ∧ s.chan.length < s.cap ∧
      s' = { s with chan := s.chan ++ [s.q], q := [], tickPc := .holding [] } := by
  simp only [qStep] at h
  split at h
  · rename_i r hp
    split at h
    · rename_i hc
      cases h
      exact ⟨⟨r, hp⟩, by simpa [canSend] using hc, rfl⟩
    · cases h
  · cases h

theorem qStep_tRelease_inv (h : qStep s .tRelease = some s') :
    (∃ r, s.tickPc = .holding r) ∧ s' = { s with locked := false, tickPc := .idle } := by
  simp only [qStep] at h
  split at h
  · rename_i r hp
    cases h
    exact ⟨⟨r, hp⟩, rfl⟩
  · cases h

theorem qStep_recv_inv (h : qStep s .recv = some s') :
    ∃ b rest, s.chan = b :: rest ∧ s' = { s with chan := rest, delivered := s.delivered ++ [b] } := by
  simp only [qStep] at h
  split at h
  · rename_i b rest hp
    cases h
    exact ⟨b, rest, hp, rfl⟩
  · cases h

end inversion

/-! ### invariant 1: mutual exclusion -/

/-- at most one goroutine (a producer or the ticker) is inside its critical section, and the mutex
    flag is set exactly when one is -/
structure QMutex (s : QSt E) : Prop where
  excl : ∀ (i j : Nat) (pi pj : QProd E), s.prods[i]? = some pi → s.prods[j]? = some pj →
    pi.pc.isIdle = false → pj.pc.isIdle = false → i = j
  exclT : s.tickPc.isIdle = false → ∀ (i : Nat) (pi : QProd E), s.prods[i]? = some pi → pi.pc.isIdle = true
  lockedIff : s.locked = true ↔
    (s.tickPc.isIdle = false ∨ ∃ (i : Nat) (pi : QProd E), s.prods[i]? = some pi ∧ pi.pc.isIdle = false)

theorem QMutex.unlocked_idle {s : QSt E} (hm : QMutex s) (hl : s.locked = false) :
    s.tickPc.isIdle = true ∧ ∀ (i : Nat) (pi : QProd E), s.prods[i]? = some pi → pi.pc.isIdle = true := by
  constructor
  · cases ht : s.tickPc.isIdle
    · have := hm.lockedIff.2 (Or.inl ht); rw [hl] at this; cases this
    · rfl
  · intro i pi hi
    cases hp : pi.pc.isIdle
    · have := hm.lockedIff.2 (Or.inr ⟨i, pi, hi, hp⟩); rw [hl] at this; cases this
    · rfl

/-- the holder of the mutex makes a step inside its critical section -/
theorem QMutex.set_busy {s s' : QSt E} {i : Nat} {old new : QProd E} (hm : QMutex s)
    (hi : s.prods[i]? = some old) (hold : old.pc.isIdle = false) (hnew : new.pc.isIdle = false)
    (hp : s'.prods = s.prods.set i new) (hl : s'.locked = s.locked) (ht : s'.tickPc = s.tickPc) :
    QMutex s' := by
  refine ⟨?_, ?_, ?_⟩
  · intro j1 j2 p1 p2 h1 h2 hn1 hn2
    rw [hp] at h1 h2
    rcases getElem?_set_cases h1 with ⟨e1, _⟩ | ⟨n1, g1⟩ <;>
      rcases getElem?_set_cases h2 with ⟨e2, _⟩ | ⟨n2, g2⟩
    · rw [e1, e2]
    · exact absurd (hm.excl _ _ _ _ hi g2 hold hn2).symm n2
    · exact absurd (hm.excl _ _ _ _ hi g1 hold hn1).symm n1
    · exact hm.excl _ _ _ _ g1 g2 hn1 hn2
  · intro htk
    rw [ht] at htk
    have := hm.exclT htk i old hi
    rw [hold] at this; cases this
  · rw [hl]
    constructor
    · intro _; exact Or.inr ⟨i, new, by rw [hp]; exact getElem?_set_self_of_some hi, hnew⟩
    · intro _; exact hm.lockedIff.2 (Or.inr ⟨i, old, hi, hold⟩)

/-- a producer takes the free mutex -/
theorem QMutex.set_acquire {s s' : QSt E} {i : Nat} {old new : QProd E} (hm : QMutex s)
    (hi : s.prods[i]? = some old) (hfree : s.locked = false) (hnew : new.pc.isIdle = false)
    (hp : s'.prods = s.prods.set i new) (hl : s'.locked = true) (ht : s'.tickPc = s.tickPc) :
    QMutex s' := by
  obtain ⟨hti, hpi⟩ := hm.unlocked_idle hfree
  refine ⟨?_, ?_, ?_⟩
  · intro j1 j2 p1 p2 h1 h2 hn1 hn2
    rw [hp] at h1 h2
    rcases getElem?_set_cases h1 with ⟨e1, _⟩ | ⟨n1, g1⟩ <;>
      rcases getElem?_set_cases h2 with ⟨e2, _⟩ | ⟨n2, g2⟩
    · rw [e1, e2]
    · have := hpi _ _ g2; rw [hn2] at this; cases this
    · have := hpi _ _ g1; rw [hn1] at this; cases this
    · exact hm.excl _ _ _ _ g1 g2 hn1 hn2
  · intro htk
    rw [ht, hti] at htk; cases htk
  · rw [hl]
    constructor
    · intro _; exact Or.inr ⟨i, new, by rw [hp]; exact getElem?_set_self_of_some hi, hnew⟩
    · intro _; rfl

/-- the holder of the mutex releases it -/
theorem QMutex.set_release {s s' : QSt E} {i : Nat} {old new : QProd E} (hm : QMutex s)
    (hi : s.prods[i]? = some old) (hold : old.pc.isIdle = false) (hnew : new.pc.isIdle = true)
    (hp : s'.prods = s.prods.set i new) (hl : s'.locked = false) (ht : s'.tickPc = s.tickPc) :
    QMutex s' := by
  have htidle : s.tickPc.isIdle = true := by
    cases h : s.tickPc.isIdle
    · have := hm.exclT h i old hi; rw [hold] at this; cases this
    · rfl
  have hall : ∀ (j : Nat) (pj : QProd E), s'.prods[j]? = some pj → pj.pc.isIdle = true := by
    intro j pj hj
    rw [hp] at hj
    rcases getElem?_set_cases hj with ⟨_, e⟩ | ⟨n, g⟩
    · rw [e]; exact hnew
    · cases h : pj.pc.isIdle
      · exact absurd (hm.excl _ _ _ _ hi g hold h).symm n
      · rfl
  refine ⟨?_, ?_, ?_⟩
  · intro j1 j2 p1 p2 h1 h2 hn1 hn2
    have := hall _ _ h1; rw [hn1] at this; cases this
  · intro htk
    rw [ht, htidle] at htk; cases htk
  · rw [hl, ht, htidle]
    constructor
    · intro h; cases h
    · rintro (h | ⟨j, pj, hj, hn⟩)
      · cases h
      · have := hall _ _ hj; rw [hn] at this; cases this

/-- steps that touch neither the producers' program counters, the mutex nor the ticker's idleness -/
theorem QMutex.congr {s s' : QSt E} (hm : QMutex s) (hp : s'.prods = s.prods)
    (hl : s'.locked = s.locked) (ht : s'.tickPc.isIdle = s.tickPc.isIdle) : QMutex s' := by
  refine ⟨?_, ?_, ?_⟩
  · rw [hp]; exact hm.excl
  · rw [hp, ht]; exact hm.exclT
  · rw [hp, hl, ht]; exact hm.lockedIff

theorem QMutex.step {s s' : QSt E} (hm : QMutex s) (l : QLabel) (h : qStep s l = some s') : QMutex s' := by
  cases l with
  | acquire i =>
    obtain ⟨batch, todo, hi, hfree, rfl⟩ := qStep_acquire_inv h
    exact hm.set_acquire hi hfree rfl rfl rfl rfl
  | append i =>
    obtain ⟨todo, e, rest, hi, ⟨_, rfl⟩ | ⟨_, rfl⟩⟩ := qStep_append_inv h
    · exact hm.set_busy hi rfl rfl rfl rfl rfl
    · exact hm.set_busy hi rfl rfl rfl rfl rfl
  | send i =>
    obtain ⟨todo, rest, hi, _, rfl⟩ := qStep_send_inv h
    exact hm.set_busy hi rfl rfl rfl rfl rfl
  | release i =>
    obtain ⟨todo, hi, rfl⟩ := qStep_release_inv h
    exact hm.set_release hi rfl rfl rfl rfl rfl
  | tAcquire =>
    obtain ⟨htp, hfree, _, rfl⟩ := qStep_tAcquire_inv h
    obtain ⟨_, hpi⟩ := hm.unlocked_idle hfree
    refine ⟨?_, fun _ => hpi, ?_⟩
    · intro j1 j2 p1 p2 h1 h2 hn1 hn2
      have := hpi _ _ h1; rw [hn1] at this; cases this
    · exact ⟨fun _ => Or.inl rfl, fun _ => rfl⟩
  | tSend =>
    obtain ⟨⟨r, htp⟩, _, rfl⟩ := qStep_tSend_inv h
    exact hm.congr rfl rfl (by simp [htp, QPc.isIdle])
  | tRelease =>
    obtain ⟨⟨r, htp⟩, rfl⟩ := qStep_tRelease_inv h
    have hpi := hm.exclT (by rw [htp]; rfl)
    refine ⟨?_, (fun h => by cases h), ?_⟩
    · intro j1 j2 p1 p2 h1 h2 hn1 hn2
      have := hpi _ _ h1; rw [hn1] at this; cases this
    · constructor
      · intro h; cases h
      · rintro (h | ⟨j, pj, hj, hn⟩)
        · cases h
        · have := hpi _ _ hj; rw [hn] at this; cases this
  | recv =>
    obtain ⟨b, rest, _, rfl⟩ := qStep_recv_inv h
    exact hm.congr rfl rfl rfl

theorem QMutex.init (thr cap : Nat) (programs : List (List (List E))) (ticks : Nat) :
    QMutex (qInit thr cap programs ticks) := by
  have hall : ∀ (j : Nat) (pj : QProd E), (qInit thr cap programs ticks).prods[j]? = some pj → pj.pc.isIdle = true := by
    intro j pj hj
    simp only [qInit, List.getElem?_map, Option.map_eq_some_iff] at hj
    obtain ⟨t, _, rfl⟩ := hj
    rfl
  refine ⟨?_, fun _ => hall, ?_⟩
  · intro j1 j2 p1 p2 h1 h2 hn1 hn2
    have := hall _ _ h1; rw [hn1] at this; cases this
  · constructor
    · intro h; cases h
    · rintro (h | ⟨j, pj, hj, hn⟩)
      · cases h
      · have := hall _ _ hj; rw [hn] at this; cases this

/-- an invariant of single steps holds along every schedule -/
theorem qRun_induct {P : QSt E → Prop} (hstep : ∀ s l s', P s → qStep s l = some s' → P s') :
    ∀ (ls : List QLabel) (s s' : QSt E), P s → qRun s ls = some s' → P s' := by
  intro ls
  induction ls with
  | nil => intro s s' hs h; simp only [qRun] at h; cases h; exact hs
  | cons l ls ih =>
    intro s s' hs h
    simp only [qRun] at h
    cases hq : qStep s l with
    | none => rw [hq] at h; cases h
    | some s1 =>
      rw [hq] at h
      exact ih s1 s' (hstep s l s1 hs hq) h

/-! ### invariant 2: batch sizes -/

theorem QPc.not_idle_of_sending {pc : QPc E} (h : pc.isSending = true) : pc.isIdle = false := by
  cases pc <;> simp_all [QPc.isSending, QPc.isIdle]

/-- no batch in flight or delivered exceeds `max thr 1`; the pending slice is strictly below that
    unless a producer is about to send it, in which case the flush is due -/
structure QBound (s : QSt E) : Prop where
  chanB : ∀ b, b ∈ s.chan → b.length ≤ max s.thr 1
  delB : ∀ b, b ∈ s.delivered → b.length ≤ max s.thr 1
  qB : s.q.length ≤ max s.thr 1
  qLt : (∀ (i : Nat) (pi : QProd E), s.prods[i]? = some pi → pi.pc.isSending = false) →
    s.q.length < max s.thr 1
  due : ∀ (i : Nat) (pi : QProd E), s.prods[i]? = some pi → pi.pc.isSending = true →
    s.thr ≤ s.q.length ∧ 0 < s.q.length
  chanCap : s.chan.length ≤ s.cap

/-- a producer step that changes neither `q`, the channel, nor whether the producer is sending -/
theorem QBound.set_same {s s' : QSt E} {i : Nat} {old new : QProd E} (hb : QBound s)
    (hi : s.prods[i]? = some old) (hs : new.pc.isSending = old.pc.isSending)
    (hp : s'.prods = s.prods.set i new) (hq : s'.q = s.q) (hc : s'.chan = s.chan)
    (hd : s'.delivered = s.delivered) (ht : s'.thr = s.thr) (hcp : s'.cap = s.cap) : QBound s' := by
  refine ⟨?_, ?_, ?_, ?_, ?_, by rw [hc, hcp]; exact hb.chanCap⟩
  · rw [hc, ht]; exact hb.chanB
  · rw [hd, ht]; exact hb.delB
  · rw [hq, ht]; exact hb.qB
  · intro hns
    rw [hq, ht]
    apply hb.qLt
    intro j pj hj
    by_cases hji : j = i
    · subst hji
      rw [hi] at hj; cases hj
      rw [← hs]
      exact hns j new (by rw [hp]; exact getElem?_set_self_of_some hi)
    · exact hns j pj (by rw [hp, List.getElem?_set_ne (fun e => hji e.symm)]; exact hj)
  · intro j pj hj hsend
    rw [hq, ht]
    rw [hp] at hj
    rcases getElem?_set_cases hj with ⟨e1, e2⟩ | ⟨_, g⟩
    · subst e1 e2
      exact hb.due j old hi (by rw [← hs]; exact hsend)
    · exact hb.due j pj g hsend

/-- steps that leave the producers and `q` alone and only move already-bounded batches -/
theorem QBound.congr {s s' : QSt E} (hb : QBound s) (hp : s'.prods = s.prods) (hq : s'.q = s.q)
    (hc : ∀ b, b ∈ s'.chan → b ∈ s.chan) (hd : ∀ b, b ∈ s'.delivered → b ∈ s.delivered ∨ b ∈ s.chan)
    (ht : s'.thr = s.thr) (hcl : s'.chan.length ≤ s.chan.length) (hcp : s'.cap = s.cap) : QBound s' := by
  refine ⟨?_, ?_, ?_, ?_, ?_, by rw [hcp]; exact Nat.le_trans hcl hb.chanCap⟩
  · intro b hbm; rw [ht]; exact hb.chanB b (hc b hbm)
  · intro b hbm; rw [ht]
    rcases hd b hbm with h | h
    · exact hb.delB b h
    · exact hb.chanB b h
  · rw [hq, ht]; exact hb.qB
  · rw [hp, hq, ht]; exact hb.qLt
  · rw [hp, hq, ht]; exact hb.due

theorem QBound.step {s s' : QSt E} (hm : QMutex s) (hb : QBound s) (l : QLabel)
    (h : qStep s l = some s') : QBound s' := by
  cases l with
  | acquire i =>
    obtain ⟨batch, todo, hi, _, rfl⟩ := qStep_acquire_inv h
    exact hb.set_same (new := ⟨todo, .holding batch⟩) hi rfl rfl rfl rfl rfl rfl rfl
  | append i =>
    obtain ⟨todo, e, rest, hi, hcase⟩ := qStep_append_inv h
    -- the appending producer holds the mutex, so nobody is sending
    have hothers : ∀ (j : Nat) (pj : QProd E), j ≠ i → s.prods[j]? = some pj → pj.pc.isSending = false := by
      intro j pj hji hj
      cases hs : pj.pc.isSending
      · rfl
      · exact absurd (hm.excl _ _ _ _ hj hi (QPc.not_idle_of_sending hs) rfl) hji
    have hlt : s.q.length < max s.thr 1 := by
      apply hb.qLt
      intro j pj hj
      by_cases hji : j = i
      · subst hji; rw [hi] at hj; cases hj; rfl
      · exact hothers j pj hji hj
    rcases hcase with ⟨hge, rfl⟩ | ⟨hlt', rfl⟩
    · refine ⟨hb.chanB, hb.delB, ?_, ?_, ?_, hb.chanCap⟩
      · show (s.q ++ [e]).length ≤ max s.thr 1
        simp only [List.length_append, List.length_cons, List.length_nil]; omega
      · intro hns
        have := hns i _ (getElem?_set_self_of_some hi)
        cases this
      · intro j pj _ _
        show s.thr ≤ (s.q ++ [e]).length ∧ 0 < (s.q ++ [e]).length
        simp only [List.length_append, List.length_cons, List.length_nil]; omega
    · refine ⟨hb.chanB, hb.delB, ?_, ?_, ?_, hb.chanCap⟩
      · show (s.q ++ [e]).length ≤ max s.thr 1
        simp only [List.length_append, List.length_cons, List.length_nil]; omega
      · intro _
        show (s.q ++ [e]).length < max s.thr 1
        simp only [List.length_append, List.length_cons, List.length_nil]; omega
      · intro j pj hj hsend
        rcases getElem?_set_cases hj with ⟨_, e2⟩ | ⟨n, g⟩
        · subst e2; cases hsend
        · rw [hothers j pj n g] at hsend; cases hsend
  | send i =>
    obtain ⟨todo, rest, hi, hlt, rfl⟩ := qStep_send_inv h
    refine ⟨?_, hb.delB, ?_, ?_, ?_, by
      show (s.chan ++ [s.q]).length ≤ s.cap
      simp only [List.length_append, List.length_cons, List.length_nil]; omega⟩
    · intro b hbm
      rcases List.mem_append.1 hbm with h1 | h1
      · exact hb.chanB b h1
      · rw [List.mem_singleton.1 h1]; exact hb.qB
    · show ([] : List E).length ≤ max s.thr 1
      simp
    · intro _
      show ([] : List E).length < max s.thr 1
      simp only [List.length_nil]; omega
    · intro j pj hj hsend
      rcases getElem?_set_cases hj with ⟨_, e2⟩ | ⟨n, g⟩
      · subst e2; cases hsend
      · exact absurd (hm.excl _ _ _ _ g hi (QPc.not_idle_of_sending hsend) rfl) n
  | release i =>
    obtain ⟨todo, hi, rfl⟩ := qStep_release_inv h
    exact hb.set_same (new := ⟨todo, .idle⟩) hi rfl rfl rfl rfl rfl rfl rfl
  | tAcquire =>
    obtain ⟨_, _, _, rfl⟩ := qStep_tAcquire_inv h
    exact hb.congr rfl rfl (fun _ hx => hx) (fun _ hx => Or.inl hx) rfl (Nat.le_refl _) rfl
  | tSend =>
    obtain ⟨⟨r, htp⟩, hlt, rfl⟩ := qStep_tSend_inv h
    refine ⟨?_, hb.delB, ?_, ?_, ?_, by
      show (s.chan ++ [s.q]).length ≤ s.cap
      simp only [List.length_append, List.length_cons, List.length_nil]; omega⟩
    · intro b hbm
      rcases List.mem_append.1 hbm with h1 | h1
      · exact hb.chanB b h1
      · rw [List.mem_singleton.1 h1]; exact hb.qB
    · show ([] : List E).length ≤ max s.thr 1
      simp
    · intro _
      show ([] : List E).length < max s.thr 1
      simp only [List.length_nil]; omega
    · intro j pj hj hsend
      have := hm.exclT (by rw [htp]; rfl) j pj hj
      rw [QPc.not_idle_of_sending hsend] at this; cases this
  | tRelease =>
    obtain ⟨_, rfl⟩ := qStep_tRelease_inv h
    exact hb.congr rfl rfl (fun _ hx => hx) (fun _ hx => Or.inl hx) rfl (Nat.le_refl _) rfl
  | recv =>
    obtain ⟨b, rest, hc, rfl⟩ := qStep_recv_inv h
    refine hb.congr rfl rfl ?_ ?_ rfl (by rw [hc]; simp) rfl
    · intro x hx; rw [hc]; exact List.mem_cons_of_mem _ hx
    · intro x hx
      rcases List.mem_append.1 hx with h1 | h1
      · exact Or.inl h1
      · right; rw [hc, List.mem_singleton.1 h1]; exact List.mem_cons_self

theorem QBound.init (thr cap : Nat) (programs : List (List (List E))) (ticks : Nat) :
    QBound (qInit thr cap programs ticks) := by
  refine ⟨?_, ?_, ?_, ?_, ?_, Nat.zero_le _⟩
  · intro b hb; cases hb
  · intro b hb; cases hb
  · show ([] : List E).length ≤ max thr 1
    simp
  · intro _
    show ([] : List E).length < max thr 1
    simp only [List.length_nil]; omega
  · intro j pj hj hs
    simp only [qInit, List.getElem?_map, Option.map_eq_some_iff] at hj
    obtain ⟨t, _, rfl⟩ := hj
    cases hs

/-! ### invariant 3: conservation (exactly once, in per-producer order) -/

/-- per producer, its program is: what it has appended so far (its events in the pipeline, in
    pipeline order), then the rest of its current call, then its future calls. Nothing else is in
    the pipeline. -/
structure QCons (owner : E → Nat) (programs : List (List (List E))) (s : QSt E) : Prop where
  len : s.prods.length = programs.length
  cons : ∀ (p : Nat) (prog : List (List E)) (pr : QProd E), programs[p]? = some prog →
    s.prods[p]? = some pr →
    prog.flatten = (pipeline s).filter (fun e => owner e == p) ++ (pr.pc.rest ++ pr.todo.flatten)
  own : ∀ e, e ∈ pipeline s → owner e < programs.length

theorem QCons.set_same {owner : E → Nat} {programs : List (List (List E))} {s s' : QSt E} {i : Nat}
    {old new : QProd E} (hc : QCons owner programs s) (hi : s.prods[i]? = some old)
    (hp : s'.prods = s.prods.set i new) (hpl : pipeline s' = pipeline s)
    (hrest : new.pc.rest ++ new.todo.flatten = old.pc.rest ++ old.todo.flatten) :
    QCons owner programs s' := by
  refine ⟨?_, ?_, ?_⟩
  · rw [hp, List.length_set]; exact hc.len
  · intro p prog pr hprog hpr
    rw [hpl]
    rw [hp] at hpr
    rcases getElem?_set_cases hpr with ⟨e1, e2⟩ | ⟨_, g⟩
    · subst e1 e2
      rw [hrest]
      exact hc.cons p prog old hprog hi
    · exact hc.cons p prog pr hprog g
  · rw [hpl]; exact hc.own

theorem QCons.congr {owner : E → Nat} {programs : List (List (List E))} {s s' : QSt E}
    (hc : QCons owner programs s) (hp : s'.prods = s.prods) (hpl : pipeline s' = pipeline s) :
    QCons owner programs s' := by
  refine ⟨?_, ?_, ?_⟩
  · rw [hp]; exact hc.len
  · rw [hp, hpl]; exact hc.cons
  · rw [hpl]; exact hc.own

theorem QCons.step {owner : E → Nat} {programs : List (List (List E))} {s s' : QSt E}
    (ho : Owned owner programs) (hc : QCons owner programs s) (l : QLabel)
    (h : qStep s l = some s') : QCons owner programs s' := by
  cases l with
  | acquire i =>
    obtain ⟨batch, todo, hi, _, rfl⟩ := qStep_acquire_inv h
    exact hc.set_same hi rfl rfl (by simp [QPc.rest])
  | append i =>
    obtain ⟨todo, e, rest, hi, hcase⟩ := qStep_append_inv h
    have hilt : i < programs.length := by
      rw [← hc.len]
      rcases Nat.lt_or_ge i s.prods.length with hlt | hge
      · exact hlt
      · rw [List.getElem?_eq_none hge] at hi; cases hi
    obtain ⟨progi, hprogi⟩ : ∃ progi, programs[i]? = some progi :=
      ⟨programs[i], List.getElem?_eq_getElem hilt⟩
    have hci := hc.cons i progi _ hprogi hi
    have hown : owner e = i := by
      apply ho i progi hprogi
      rw [hci]
      simp [QPc.rest]
    -- both outcomes of the threshold test: same pipeline, same remaining events
    have key : ∀ (new : QProd E) (s1 : QSt E), new.pc.rest = rest → new.todo = todo →
        s1.prods = s.prods.set i new → pipeline s1 = pipeline s ++ [e] → QCons owner programs s1 := by
      intro new s1 hr ht hp hpl
      refine ⟨?_, ?_, ?_⟩
      · rw [hp, List.length_set]; exact hc.len
      · intro p prog pr hprog hpr
        rw [hpl, List.filter_append]
        rw [hp] at hpr
        rcases getElem?_set_cases hpr with ⟨e1, e2⟩ | ⟨n, g⟩
        · subst e1 e2
          rw [hprogi] at hprog; cases hprog
          rw [hci, hr, ht]
          simp [QPc.rest, hown]
        · have hne : (owner e == p) = false := by
            rw [hown]; simp; exact fun e => n e.symm
          rw [hc.cons p prog pr hprog g]
          simp [hne]
      · intro x hx
        rw [hpl] at hx
        rcases List.mem_append.1 hx with h1 | h1
        · exact hc.own x h1
        · rw [List.mem_singleton.1 h1, hown]; exact hilt
    rcases hcase with ⟨_, rfl⟩ | ⟨_, rfl⟩
    · exact key _ _ rfl rfl rfl (by simp [pipeline, setProd])
    · exact key _ _ rfl rfl rfl (by simp [pipeline, setProd])
  | send i =>
    obtain ⟨todo, rest, hi, _, rfl⟩ := qStep_send_inv h
    exact hc.set_same hi rfl (by simp [pipeline, setProd, List.flatten_append]) (by simp [QPc.rest])
  | release i =>
    obtain ⟨todo, hi, rfl⟩ := qStep_release_inv h
    exact hc.set_same hi rfl rfl (by simp [QPc.rest])
  | tAcquire =>
    obtain ⟨_, _, _, rfl⟩ := qStep_tAcquire_inv h
    exact hc.congr rfl rfl
  | tSend =>
    obtain ⟨_, _, rfl⟩ := qStep_tSend_inv h
    exact hc.congr rfl (by simp [pipeline, List.flatten_append])
  | tRelease =>
    obtain ⟨_, rfl⟩ := qStep_tRelease_inv h
    exact hc.congr rfl rfl
  | recv =>
    obtain ⟨b, rest, hch, rfl⟩ := qStep_recv_inv h
    exact hc.congr rfl (by simp [pipeline, hch, List.flatten_append])

theorem QCons.init (owner : E → Nat) (thr cap : Nat) (programs : List (List (List E))) (ticks : Nat) :
    QCons owner programs (qInit thr cap programs ticks) := by
  refine ⟨?_, ?_, ?_⟩
  · simp [qInit]
  · intro p prog pr hprog hpr
    simp only [qInit, List.getElem?_map, Option.map_eq_some_iff] at hpr
    obtain ⟨t, ht, rfl⟩ := hpr
    rw [hprog] at ht; cases ht
    simp [pipeline, qInit, QPc.rest]
  · intro e he
    simp [pipeline, qInit] at he

/-- the three invariants together -/
structure QInv (owner : E → Nat) (programs : List (List (List E))) (s : QSt E) : Prop where
  mutex : QMutex s
  bound : QBound s
  cons : QCons owner programs s

theorem QInv.init (owner : E → Nat) (thr cap : Nat) (programs : List (List (List E))) (ticks : Nat) :
    QInv owner programs (qInit thr cap programs ticks) :=
  ⟨QMutex.init .., QBound.init .., QCons.init ..⟩

theorem QInv.step {owner : E → Nat} {programs : List (List (List E))} {s s' : QSt E}
    (ho : Owned owner programs) (hi : QInv owner programs s) (l : QLabel)
    (h : qStep s l = some s') : QInv owner programs s' :=
  ⟨hi.mutex.step l h, hi.bound.step hi.mutex l h, hi.cons.step ho l h⟩

/-- every state reachable from an initial state, under any schedule, satisfies the invariants -/
theorem QInv.reachable {owner : E → Nat} {programs : List (List (List E))} (ho : Owned owner programs)
    (thr cap ticks : Nat) (sched : List QLabel) (s : QSt E)
    (h : qRun (qInit thr cap programs ticks) sched = some s) : QInv owner programs s :=
  qRun_induct (fun _ l _ hs hq => QInv.step ho hs l hq) sched _ s (QInv.init ..) h

theorem QMutex.reachable (thr cap ticks : Nat) (programs : List (List (List E))) (sched : List QLabel)
    (s : QSt E) (h : qRun (qInit thr cap programs ticks) sched = some s) : QMutex s :=
  qRun_induct (fun _ l _ hs hq => QMutex.step hs l hq) sched _ s (QMutex.init ..) h

theorem QBound.reachable (thr cap ticks : Nat) (programs : List (List (List E))) (sched : List QLabel)
    (s : QSt E) (h : qRun (qInit thr cap programs ticks) sched = some s) : QMutex s ∧ QBound s :=
  qRun_induct (P := fun s => QMutex s ∧ QBound s)
    (fun _ l _ hs hq => ⟨hs.1.step l hq, hs.2.step hs.1 l hq⟩) sched _ s
    ⟨QMutex.init .., QBound.init ..⟩ h

/-- threshold and capacity never change -/
theorem qStep_params {s s' : QSt E} (l : QLabel) (h : qStep s l = some s') :
    s'.thr = s.thr ∧ s'.cap = s.cap := by
  cases l with
  | acquire i => obtain ⟨_, _, _, _, rfl⟩ := qStep_acquire_inv h; exact ⟨rfl, rfl⟩
  | append i =>
    obtain ⟨_, _, _, _, ⟨_, rfl⟩ | ⟨_, rfl⟩⟩ := qStep_append_inv h <;> exact ⟨rfl, rfl⟩
  | send i => obtain ⟨_, _, _, _, rfl⟩ := qStep_send_inv h; exact ⟨rfl, rfl⟩
  | release i => obtain ⟨_, _, rfl⟩ := qStep_release_inv h; exact ⟨rfl, rfl⟩
  | tAcquire => obtain ⟨_, _, _, rfl⟩ := qStep_tAcquire_inv h; exact ⟨rfl, rfl⟩
  | tSend => obtain ⟨_, _, rfl⟩ := qStep_tSend_inv h; exact ⟨rfl, rfl⟩
  | tRelease => obtain ⟨_, rfl⟩ := qStep_tRelease_inv h; exact ⟨rfl, rfl⟩
  | recv => obtain ⟨_, _, _, rfl⟩ := qStep_recv_inv h; exact ⟨rfl, rfl⟩

theorem qRun_params (ls : List QLabel) (s s' : QSt E) (h : qRun s ls = some s') :
    s'.thr = s.thr ∧ s'.cap = s.cap :=
  qRun_induct (P := fun x => x.thr = s.thr ∧ x.cap = s.cap)
    (fun a l b hs hq => by
      obtain ⟨h1, h2⟩ := qStep_params l hq
      exact ⟨h1.trans hs.1, h2.trans hs.2⟩) ls s s' ⟨rfl, rfl⟩ h

/-! ### schedules -/

theorem qRun_append (a b : List QLabel) : ∀ (s : QSt E), qRun s (a ++ b) = (qRun s a).bind (qRun · b) := by
  induction a with
  | nil => intro s; rfl
  | cons l ls ih =>
    intro s
    simp only [List.cons_append, qRun]
    cases qStep s l with
    | none => rfl
    | some s1 => exact ih s1

/-! ### the ticker's critical section -/

/-- while the ticker holds the mutex and has not yet sent, the only other enabled step is the
    consumer's `recv`, which changes neither `q` nor the pipeline -/
theorem tick_window_step {s s' : QSt E} {r : List E} (hm : QMutex s) (ht : s.tickPc = .sending r)
    (l : QLabel) (h : qStep s l = some s') :
    l = .tSend ∨ (l = .recv ∧ s'.q = s.q ∧ s'.tickPc = .sending r ∧ pipeline s' = pipeline s) := by
  have hbusy : s.tickPc.isIdle = false := by rw [ht]; rfl
  have hidle := hm.exclT hbusy
  have hlocked : s.locked = true := hm.lockedIff.2 (Or.inl hbusy)
  cases l with
  | acquire i =>
    obtain ⟨_, _, _, hfree, _⟩ := qStep_acquire_inv h
    rw [hlocked] at hfree; cases hfree
  | append i =>
    obtain ⟨_, _, _, hi, _⟩ := qStep_append_inv h
    have := hidle _ _ hi; cases this
  | send i =>
    obtain ⟨_, _, hi, _⟩ := qStep_send_inv h
    have := hidle _ _ hi; cases this
  | release i =>
    obtain ⟨_, hi, _⟩ := qStep_release_inv h
    have := hidle _ _ hi; cases this
  | tAcquire =>
    obtain ⟨hi, _⟩ := qStep_tAcquire_inv h
    rw [ht] at hi; cases hi
  | tSend => exact Or.inl rfl
  | tRelease =>
    obtain ⟨⟨_, hi⟩, _⟩ := qStep_tRelease_inv h
    rw [ht] at hi; cases hi
  | recv =>
    obtain ⟨b, rest, hch, rfl⟩ := qStep_recv_inv h
    exact Or.inr ⟨rfl, rfl, ht, by simp [pipeline, hch, List.flatten_append]⟩

theorem tick_window (ls : List QLabel) : ∀ (s s' : QSt E) (r : List E), QMutex s →
    s.tickPc = .sending r → QLabel.tSend ∉ ls → qRun s ls = some s' →
    s'.q = s.q ∧ s'.tickPc = .sending r ∧ pipeline s' = pipeline s ∧ QMutex s' ∧
      ∀ l, l ∈ ls → l = .recv := by
  induction ls with
  | nil =>
    intro s s' r hm ht _ h
    simp only [qRun] at h; cases h
    exact ⟨rfl, ht, rfl, hm, fun l hl => by cases hl⟩
  | cons l ls ih =>
    intro s s' r hm ht hn h
    simp only [qRun] at h
    cases hq : qStep s l with
    | none => rw [hq] at h; cases h
    | some s1 =>
      rw [hq] at h
      simp only [List.mem_cons, not_or] at hn
      rcases tick_window_step hm ht l hq with e | ⟨e, h1, h2, h3⟩
      · exact absurd e.symm hn.1
      · obtain ⟨g1, g2, g3, g4, g5⟩ := ih s1 s' r (hm.step l hq) h2 hn.2 h
        refine ⟨g1.trans h1, g2, g3.trans h3, g4, ?_⟩
        intro l' hl'
        rcases List.mem_cons.1 hl' with e' | e'
        · rw [e', e]
        · exact g5 l' e'

/-! ### absence of deadlock -/

/-- nothing left to do: every producer has finished its program, the ticker is done, the channel
    is drained -/
def qFinal (s : QSt E) : Prop :=
  (∀ pr, pr ∈ s.prods → pr.todo = [] ∧ pr.pc.isIdle = true) ∧ s.ticks = 0 ∧
    s.tickPc.isIdle = true ∧ s.chan = []

theorem exists_enabled {s : QSt E} (hm : QMutex s) (hcap : 1 ≤ s.cap) (hnf : ¬ qFinal s) :
    ∃ l, (qStep s l).isSome = true := by
  cases hch : s.chan with
  | cons b rest => exact ⟨.recv, by simp [qStep, hch]⟩
  | nil =>
    have hcs : canSend s = true := by simp [canSend, hch]; omega
    cases htp : s.tickPc with
    | sending r => exact ⟨.tSend, by simp [qStep, htp, hcs]⟩
    | holding r => exact ⟨.tRelease, by simp [qStep, htp]⟩
    | idle =>
      by_cases hex : ∃ (i : Nat) (pi : QProd E), s.prods[i]? = some pi ∧ pi.pc.isIdle = false
      · obtain ⟨i, ⟨todo, pc⟩, hi, hn⟩ := hex
        cases pc with
        | idle => cases hn
        | holding rest =>
          cases rest with
          | nil => exact ⟨.release i, by simp [qStep, hi]⟩
          | cons e rest =>
            refine ⟨.append i, ?_⟩
            simp only [qStep, hi]
            split <;> rfl
        | sending rest => exact ⟨.send i, by simp [qStep, hi, hcs]⟩
      · have hfree : s.locked = false := by
          cases hl : s.locked
          · rfl
          · rcases hm.lockedIff.1 hl with h1 | h1
            · rw [htp] at h1; cases h1
            · exact absurd h1 hex
        by_cases htk : s.ticks = 0
        · -- not final, so some producer still has a call to make
          have : ∃ pr, pr ∈ s.prods ∧ ¬ (pr.todo = [] ∧ pr.pc.isIdle = true) := by
            apply Classical.byContradiction
            intro hno
            apply hnf
            refine ⟨?_, htk, by rw [htp]; rfl, hch⟩
            intro pr hpr
            apply Classical.byContradiction
            intro hc
            exact hno ⟨pr, hpr, hc⟩
          obtain ⟨pr, hpr, hnot⟩ := this
          obtain ⟨i, hi⟩ := List.mem_iff_getElem?.1 hpr
          have hidle : pr.pc.isIdle = true := by
            cases hp : pr.pc.isIdle
            · exact absurd ⟨i, pr, hi, hp⟩ hex
            · rfl
          obtain ⟨todo, pc⟩ := pr
          cases pc with
          | idle =>
            cases todo with
            | nil => exact absurd ⟨rfl, rfl⟩ hnot
            | cons batch todo => exact ⟨.acquire i, by simp [qStep, hi, hfree]⟩
          | holding r => cases hidle
          | sending r => cases hidle
        · exact ⟨.tAcquire, by simp [qStep, htp, hfree, htk]⟩

/-! ### bridge to the call-level semantics `queueCall` -/

theorem queueCall_out (thr : Nat) : ∀ (batch q : List E) (out : List (List E)),
    queueCall thr q batch out =
      ((queueCall thr q batch []).1, out ++ (queueCall thr q batch []).2) := by
  intro batch
  induction batch with
  | nil => intro q out; simp [queueCall]
  | cons e rest ih =>
    intro q out
    simp only [queueCall]
    split
    · rw [ih [] (out ++ [q ++ [e]]), ih [] ([] ++ [q ++ [e]])]
      simp
    · exact ih _ _

/-- the canonical schedule of the body of `Queue(batch)` by producer `p` when `q` holds `n` events:
    append each event, send whenever the threshold is reached, finally release -/
def callSched (p thr : Nat) : Nat → List E → List QLabel
  | _, [] => [.release p]
  | n, _ :: rest =>
    if n + 1 ≥ thr then .append p :: .send p :: callSched p thr 0 rest
    else .append p :: callSched p thr (n + 1) rest

theorem call_body_bridge (p : Nat) : ∀ (batch : List E) (s : QSt E) (todo : List (List E)),
    s.prods[p]? = some ⟨todo, .holding batch⟩ →
    s.chan.length + (queueCall s.thr s.q batch []).2.length ≤ s.cap →
    qRun s (callSched p s.thr s.q.length batch) =
      some { s with q := (queueCall s.thr s.q batch []).1,
                    chan := s.chan ++ (queueCall s.thr s.q batch []).2,
                    prods := s.prods.set p ⟨todo, .idle⟩, locked := false } := by
  intro batch
  induction batch with
  | nil =>
    intro s todo hp _
    simp [callSched, qRun, qStep, hp, queueCall, setProd]
  | cons e rest ih =>
    intro s todo hp hcap
    have hlen : (s.q ++ [e]).length = s.q.length + 1 := by simp
    by_cases hge : s.q.length + 1 ≥ s.thr
    · have hqc : queueCall s.thr s.q (e :: rest) [] =
          ((queueCall s.thr [] rest []).1, [s.q ++ [e]] ++ (queueCall s.thr [] rest []).2) := by
        simp only [queueCall, hlen]
        rw [if_pos hge, queueCall_out]
        simp
      have hsched : callSched p s.thr s.q.length (e :: rest) =
          .append p :: .send p :: callSched p s.thr 0 rest := by
        simp only [callSched]; rw [if_pos hge]
      rw [hqc] at hcap ⊢
      rw [hsched]
      simp only [List.length_append, List.length_cons, List.length_nil] at hcap
      have hcs : s.chan.length < s.cap := by omega
      have h1 : qStep s (.append p) = some { setProd s p ⟨todo, .sending rest⟩ with q := s.q ++ [e] } := by
        simp [qStep, hp, hge]
      have hp1 : (s.prods.set p ⟨todo, .sending rest⟩)[p]? = some ⟨todo, .sending rest⟩ :=
        getElem?_set_self_of_some hp
      have h2 : qStep { setProd s p ⟨todo, .sending rest⟩ with q := s.q ++ [e] } (.send p) =
          some { s with q := [], chan := s.chan ++ [s.q ++ [e]], prods := s.prods.set p ⟨todo, .holding rest⟩ } := by
        simp [qStep, setProd, hp1, canSend, hcs, List.set_set]
      have h3 := ih { s with q := [], chan := s.chan ++ [s.q ++ [e]], prods := s.prods.set p ⟨todo, .holding rest⟩ } todo (getElem?_set_self_of_some hp) (by simp only [List.length_append, List.length_cons, List.length_nil]; omega)
      simp only [List.length_nil] at h3
      simp only [qRun, h1, h2, Option.bind_some, h3]
      simp [List.set_set, List.append_assoc]
    · have hqc : queueCall s.thr s.q (e :: rest) [] = queueCall s.thr (s.q ++ [e]) rest [] := by
        simp only [queueCall, hlen]
        rw [if_neg hge]
      have hsched : callSched p s.thr s.q.length (e :: rest) =
          .append p :: callSched p s.thr (s.q.length + 1) rest := by
        simp only [callSched]; rw [if_neg hge]
      rw [hqc] at hcap ⊢
      rw [hsched]
      have h1 : qStep s (.append p) =
          some { s with q := s.q ++ [e], prods := s.prods.set p ⟨todo, .holding rest⟩ } := by
        simp [qStep, hp, hge, setProd]
      have h3 := ih { s with q := s.q ++ [e], prods := s.prods.set p ⟨todo, .holding rest⟩ } todo (getElem?_set_self_of_some hp) hcap
      simp only [hlen] at h3
      simp only [qRun, h1, Option.bind_some, h3]
      simp [List.set_set]

/-! ### termination: every step consumes budget -/

def pcCost : QPc E → Nat
  | .idle => 0
  | .holding r => 1 + 3 * r.length
  | .sending r => 3 + 3 * r.length

def prodCost (pr : QProd E) : Nat := pcCost pr.pc + (pr.todo.map fun b => 2 + 3 * b.length).sum

/-- an upper bound on the number of steps that can still happen: per event still to append 3
    (append, a possible send, the receive of that batch), per call 2 (acquire, release), per tick 4,
    per batch in the channel 1 -/
def qMeasure (s : QSt E) : Nat :=
  (s.prods.map prodCost).sum + 4 * s.ticks + pcCost s.tickPc + s.chan.length

theorem sum_map_set {α : Type} (f : α → Nat) : ∀ (l : List α) (i : Nat) (old new : α),
    l[i]? = some old → ((l.set i new).map f).sum + f old = (l.map f).sum + f new := by
  intro l
  induction l with
  | nil => intro i old new h; simp at h
  | cons a l ih =>
    intro i old new h
    cases i with
    | zero =>
      simp only [List.getElem?_cons_zero, Option.some.injEq] at h
      subst h
      simp only [List.set_cons_zero, List.map_cons, List.sum_cons]
      omega
    | succ i =>
      simp only [List.getElem?_cons_succ] at h
      have := ih i old new h
      simp only [List.set_cons_succ, List.map_cons, List.sum_cons]
      omega

theorem qStep_measure {s s' : QSt E} (l : QLabel) (h : qStep s l = some s') :
    qMeasure s' + 1 ≤ qMeasure s := by
  cases l with
  | acquire i =>
    obtain ⟨batch, todo, hi, _, rfl⟩ := qStep_acquire_inv h
    have := sum_map_set prodCost s.prods i _ ⟨todo, .holding batch⟩ hi
    simp only [qMeasure, setProd, prodCost, pcCost, List.map_cons, List.sum_cons] at this ⊢
    omega
  | append i =>
    obtain ⟨todo, e, rest, hi, ⟨_, rfl⟩ | ⟨_, rfl⟩⟩ := qStep_append_inv h
    · have := sum_map_set prodCost s.prods i _ ⟨todo, .sending rest⟩ hi
      simp only [qMeasure, setProd, prodCost, pcCost, List.length_cons] at this ⊢
      omega
    · have := sum_map_set prodCost s.prods i _ ⟨todo, .holding rest⟩ hi
      simp only [qMeasure, setProd, prodCost, pcCost, List.length_cons] at this ⊢
      omega
  | send i =>
    obtain ⟨todo, rest, hi, _, rfl⟩ := qStep_send_inv h
    have := sum_map_set prodCost s.prods i _ ⟨todo, .holding rest⟩ hi
    simp only [qMeasure, setProd, prodCost, pcCost, List.length_append, List.length_cons,
      List.length_nil] at this ⊢
    omega
  | release i =>
    obtain ⟨todo, hi, rfl⟩ := qStep_release_inv h
    have := sum_map_set prodCost s.prods i _ ⟨todo, .idle⟩ hi
    simp only [qMeasure, setProd, prodCost, pcCost, List.length_nil] at this ⊢
    omega
  | tAcquire =>
    obtain ⟨htp, _, _, rfl⟩ := qStep_tAcquire_inv h
    simp only [qMeasure, htp, pcCost, List.length_nil]
    omega
  | tSend =>
    obtain ⟨⟨r, htp⟩, _, rfl⟩ := qStep_tSend_inv h
    simp only [qMeasure, htp, pcCost, List.length_append, List.length_cons, List.length_nil]
    omega
  | tRelease =>
    obtain ⟨⟨r, htp⟩, rfl⟩ := qStep_tRelease_inv h
    simp only [qMeasure, htp, pcCost]
    omega
  | recv =>
    obtain ⟨b, rest, hch, rfl⟩ := qStep_recv_inv h
    simp only [qMeasure, hch, List.length_cons]
    omega

theorem qRun_measure (ls : List QLabel) : ∀ (s s' : QSt E), qRun s ls = some s' →
    ls.length + qMeasure s' ≤ qMeasure s := by
  induction ls with
  | nil => intro s s' h; simp only [qRun] at h; cases h; simp
  | cons l ls ih =>
    intro s s' h
    simp only [qRun] at h
    cases hq : qStep s l with
    | none => rw [hq] at h; cases h
    | some s1 =>
      rw [hq] at h
      have h1 := qStep_measure l hq
      have h2 := ih s1 s' h
      simp only [List.length_cons]
      omega

/-- from any state satisfying the mutex invariant (capacity ≥ 1) some continuation reaches a final
    state: keep taking any enabled step; the budget runs out only in a final state -/
theorem exists_completion : ∀ (n : Nat) (s : QSt E), qMeasure s ≤ n → QMutex s → 1 ≤ s.cap →
    ∃ sched s', qRun s sched = some s' ∧ qFinal s' := by
  intro n
  induction n with
  | zero =>
    intro s hn hm hcap
    apply Classical.byContradiction
    intro hno
    have hnf : ¬ qFinal s := fun hf => hno ⟨[], s, rfl, hf⟩
    obtain ⟨l, hl⟩ := exists_enabled hm hcap hnf
    cases hq : qStep s l with
    | none => rw [hq] at hl; cases hl
    | some s1 => have := qStep_measure l hq; omega
  | succ n ih =>
    intro s hn hm hcap
    by_cases hf : qFinal s
    · exact ⟨[], s, rfl, hf⟩
    · obtain ⟨l, hl⟩ := exists_enabled hm hcap hf
      cases hq : qStep s l with
      | none => rw [hq] at hl; cases hl
      | some s1 =>
        have hlt := qStep_measure l hq
        have hc1 : s1.cap = s.cap := (qStep_params l hq).2
        obtain ⟨sched, s', hr, hf'⟩ := ih s1 (by omega) (hm.step l hq) (by omega)
        exact ⟨l :: sched, s', by simp only [qRun, hq, Option.bind_some]; exact hr, hf'⟩

end SE
