import SE.Proofs.RegistryWF
import SE.Model.Exporter
/-
`handleEvent` split into its stages: rule lookup, name/label resolution (`evNamed`), the
registry request (`evPlan`: metric type, `GetArgs`, update function) and the registry step
(`finishStep`). `handleEvent_eq` proves the model equal to the staged version; everything the
properties C05–C08 say about `handleEvent` is derived from it and the registry frame lemmas.
-/
set_option linter.unusedSectionVars false
namespace SE
variable {V : Type} [NumOps V]

/-- the mapper's answer for the event -/
def evFound (p : Pipe V) (rx : Rx) (ev : Ev V) : Option Mapped :=
  p.mapper.lookup rx ev.name (kindIdx ev.kind)

/-- the matched rule, if any -/
def evRule (p : Pipe V) (rx : Rx) (ev : Ev V) : Option (Rule V) :=
  (evFound p rx ev).bind fun m => p.mapper.cfg.rules[m.ruleIdx]?

/-- the ttl the event's series gets: the rule's (already defaulted by the loader) or the global default -/
def evTtl (p : Pipe V) (rx : Rx) (ev : Ev V) : Int :=
  match evRule p rx ev with
  | some r => r.ttl
  | none => p.mapper.cfg.dTtl

def evHelp (p : Pipe V) (rx : Rx) (ev : Ev V) : Bytes :=
  match evRule p rx ev with
  | some r => if r.help.isEmpty then defaultHelp else r.help
  | none => defaultHelp

/-- the rule's labels after template expansion -/
def mappedLabels (m : Mapped) : List (Bytes × Bytes) := m.labels.map fun (k, v) => (k, v.getD [])

/-- metric name, unsorted label map and counters after the mapping stage -/
def evNamed (p : Pipe V) (rx : Rx) (ev : Ev V) (tags : Labels) : Option (Except EvErr (Bytes × Labels × Counts)) :=
  match evFound p rx ev, evRule p rx ev with
  | some m, some r =>
    match m.name with
    | none => none
    | some nm =>
      if nm.isEmpty then some (.error .emptyMetricName) else
      if m.labels.any (·.2.isNone) then none else
      some (.ok (specEscape nm, mergeLabels tags (mappedLabels m) r.honorLabels, { p.counts with mapped := p.counts.mapped + 1 }))
  | _, _ =>
    if ev.name.isEmpty then some (.error .emptyMetricName)
    else some (.ok (specEscape ev.name, tags, { p.counts with unmapped := p.counts.unmapped + 1 }))

/-- the (scaled) sample value -/
def evValue (p : Pipe V) (rx : Rx) (ev : Ev V) : V :=
  match (evRule p rx ev).bind (·.scale) with
  | some s => NumOps.mul ev.value s
  | none => ev.value

def evObsTy (p : Pipe V) (rx : Rx) (ev : Ev V) : ObsTy :=
  match evRule p rx ev with
  | some r => if r.observerType == .dflt then p.mapper.cfg.dObserverType else r.observerType
  | none => p.mapper.cfg.dObserverType

/-- the registry request of an event: metric type, `GetArgs`, and the update applied to the series -/
def evPlan (p : Pipe V) (rx : Rx) (ev : Ev V) (metricName : Bytes) (sorted : Labels) :
    MType × GetArgs V × (VecM V → Series V → Series V) :=
  let cfg := p.mapper.cfg
  let rule := evRule p rx ev
  let value := evValue p rx ev
  let base : GetArgs V := { name := metricName, labels := sorted, help := evHelp p rx ev, ttl := evTtl p rx ev }
  match ev.kind with
  | .counter => (.counter, base, fun _ s => counterAdd s value)
  | .gauge => (.gauge, base, fun _ s => if ev.relative then { s with f := NumOps.add s.f value } else { s with f := value })
  | .observer =>
    if evObsTy p rx ev == .histogram then
      let bounds := match rule with
        | some r => if r.hasHistOpts && !r.buckets.isEmpty then r.buckets else cfg.dBuckets
        | none => cfg.dBuckets
      (.histogram, { base with bounds := bounds }, fun v s => observe v true s value)
    else
      let mb : Int × Nat := match rule with
        | some r => if r.hasSummaryOpts then (r.maxAge, r.ageBuckets) else (cfg.dMaxAge, cfg.dAgeBuckets)
        | none => (cfg.dMaxAge, cfg.dAgeBuckets)
      let quant := match rule with
        | some r => if r.hasSummaryOpts && !r.quantiles.isEmpty then r.quantiles else cfg.dQuantiles
        | none => cfg.dQuantiles
      (.summary, { base with maxAge := mb.1, ageBuckets := mb.2, objectives := quant.map (·.1) }, fun v s => observe v false s value)

/-- the registry step of `handleEvent` -/
def finishStep (p : Pipe V) (c : Counts) (ty : MType) (args : GetArgs V) (upd : VecM V → Series V → Series V) :
    Option (Except Panic (Pipe V)) :=
  match p.reg.getOrCreate ty args p.now with
  | .error pn => some (.error pn)
  | .ok (.error _) => some (.ok { p with counts := { c with conflicts := c.conflicts + 1 } })
  | .ok (.ok reg) => some (.ok { p with reg := updateSeries reg args.name args.labels upd, counts := { c with applied := c.applied + 1 } })

/-- a counter sample that `handleEvent` refuses: negative or NaN after scaling -/
def evBadCounter (p : Pipe V) (rx : Rx) (ev : Ev V) : Bool :=
  ev.kind == .counter && (NumOps.ltZero (evValue p rx ev) || NumOps.isNaN (evValue p rx ev))

def evDropped (p : Pipe V) (rx : Rx) (ev : Ev V) : Bool :=
  ((evRule p rx ev).map (·.action)) == some Action.drop

/-- `finishStep` on a plan -/
def finishPlan (p : Pipe V) (c : Counts) (pl : MType × GetArgs V × (VecM V → Series V → Series V)) :
    Option (Except Panic (Pipe V)) := finishStep p c pl.1 pl.2.1 pl.2.2

/-- the last stage of `handleEvent` in the shape of the model -/
def evFinish (p : Pipe V) (rx : Rx) (ev : Ev V) (c : Counts) (metricName : Bytes) (sorted : Labels) :
    Option (Except Panic (Pipe V)) :=
  let cfg := p.mapper.cfg
  let rule := evRule p rx ev
  let value := evValue p rx ev
  let base : GetArgs V := { name := metricName, labels := sorted, help := evHelp p rx ev, ttl := evTtl p rx ev }
  match ev.kind with
  | .counter => finishStep p c .counter base (fun _ s => counterAdd s value)
  | .gauge => finishStep p c .gauge base (fun _ s => if ev.relative then { s with f := NumOps.add s.f value } else { s with f := value })
  | .observer =>
    if evObsTy p rx ev == .histogram then
      let bounds := match rule with
        | some r => if r.hasHistOpts && !r.buckets.isEmpty then r.buckets else cfg.dBuckets
        | none => cfg.dBuckets
      finishStep p c .histogram { base with bounds := bounds } (fun v s => observe v true s value)
    else
      let mb : Int × Nat := match rule with
        | some r => if r.hasSummaryOpts then (r.maxAge, r.ageBuckets) else (cfg.dMaxAge, cfg.dAgeBuckets)
        | none => (cfg.dMaxAge, cfg.dAgeBuckets)
      let quant := match rule with
        | some r => if r.hasSummaryOpts && !r.quantiles.isEmpty then r.quantiles else cfg.dQuantiles
        | none => cfg.dQuantiles
      finishStep p c .summary { base with maxAge := mb.1, ageBuckets := mb.2, objectives := quant.map (·.1) } (fun v s => observe v false s value)

theorem evFinish_eq (p : Pipe V) (rx : Rx) (ev : Ev V) (c : Counts) (nm : Bytes) (sorted : Labels) :
    evFinish p rx ev c nm sorted = finishPlan p c (evPlan p rx ev nm sorted) := by
  unfold evFinish evPlan finishPlan
  obtain ⟨kind, name, value, relative⟩ := ev
  cases kind
  · rfl
  · rfl
  · simp only []
    split <;> rfl

theorem handleEvent_eq' (p : Pipe V) (rx : Rx) (ev : Ev V) (tags : Labels) :
    handleEvent p rx ev tags =
      if evDropped p rx ev then
        some (.ok { p with counts := { p.counts with dropped := p.counts.dropped + 1 } })
      else
      match evNamed p rx ev tags with
      | none => none
      | some (.error e) => some (.ok { p with counts := { p.counts with errors := p.counts.errors ++ [e] } })
      | some (.ok (nm, labels, c)) =>
        if evBadCounter p rx ev then
          some (.ok { p with counts := { c with errors := c.errors ++ [.illegalNegativeCounter] } })
        else evFinish p rx ev c nm labels.sorted := by
  obtain ⟨kind, name, value, relative⟩ := ev
  cases kind <;> rfl

/-- `handleEvent` is the composition of its stages -/
theorem handleEvent_eq (p : Pipe V) (rx : Rx) (ev : Ev V) (tags : Labels) :
    handleEvent p rx ev tags =
      if evDropped p rx ev then
        some (.ok { p with counts := { p.counts with dropped := p.counts.dropped + 1 } })
      else
      match evNamed p rx ev tags with
      | none => none
      | some (.error e) => some (.ok { p with counts := { p.counts with errors := p.counts.errors ++ [e] } })
      | some (.ok (nm, labels, c)) =>
        if evBadCounter p rx ev then
          some (.ok { p with counts := { c with errors := c.errors ++ [.illegalNegativeCounter] } })
        else finishPlan p c (evPlan p rx ev nm labels.sorted) := by
  rw [handleEvent_eq']
  simp only [evFinish_eq]

/-! ### the registry request of an event -/

abbrev Plan (V : Type) := MType × GetArgs V × (VecM V → Series V → Series V)

/-- the counters after the mapping stage and the registry request, when the event reaches the registry
    (it is not dropped by a `drop` rule, has a name, and is not a negative/NaN counter sample) -/
def evTarget (p : Pipe V) (rx : Rx) (ev : Ev V) (tags : Labels) : Option (Counts × Plan V) :=
  if evDropped p rx ev then none else
  match evNamed p rx ev tags with
  | some (.ok (nm, labels, c)) => if evBadCounter p rx ev then none else some (c, evPlan p rx ev nm labels.sorted)
  | _ => none

/-- the unsorted label map of the event: rule labels merged into the line's tags, or the tags alone -/
def evLabels (p : Pipe V) (rx : Rx) (ev : Ev V) (tags : Labels) : Labels :=
  match evFound p rx ev, evRule p rx ev with
  | some m, some r => mergeLabels tags (mappedLabels m) r.honorLabels
  | _, _ => tags

theorem evPlan_args (p : Pipe V) (rx : Rx) (ev : Ev V) (nm : Bytes) (sorted : Labels) :
    (evPlan p rx ev nm sorted).2.1.name = nm ∧ (evPlan p rx ev nm sorted).2.1.labels = sorted ∧
    (evPlan p rx ev nm sorted).2.1.ttl = evTtl p rx ev ∧ (evPlan p rx ev nm sorted).2.1.help = evHelp p rx ev := by
  unfold evPlan
  cases ev.kind
  · exact ⟨rfl, rfl, rfl, rfl⟩
  · exact ⟨rfl, rfl, rfl, rfl⟩
  · simp only []
    split <;> exact ⟨rfl, rfl, rfl, rfl⟩

/-- an update function that leaves the identity and the expiry data of a series alone -/
def UpdKeeps (f : VecM V → Series V → Series V) : Prop :=
  ∀ v s, (f v s).labels = s.labels ∧ (f v s).last = s.last ∧ (f v s).ttl = s.ttl

theorem counterAdd_keeps (v : V) : UpdKeeps (fun (_ : VecM V) s => counterAdd s v) := by
  intro _ s
  unfold counterAdd
  split <;> exact ⟨rfl, rfl, rfl⟩

theorem evPlan_keeps (p : Pipe V) (rx : Rx) (ev : Ev V) (nm : Bytes) (sorted : Labels) :
    UpdKeeps (evPlan p rx ev nm sorted).2.2 := by
  unfold evPlan
  cases ev.kind
  · exact counterAdd_keeps _
  · intro v s
    simp only []
    split <;> exact ⟨rfl, rfl, rfl⟩
  · simp only []
    split
    · intro v s; exact ⟨rfl, rfl, rfl⟩
    · intro v s; exact ⟨rfl, rfl, rfl⟩

theorem evPlan_type (p : Pipe V) (rx : Rx) (ev : Ev V) (nm : Bytes) (sorted : Labels) :
    (ev.kind = .counter → (evPlan p rx ev nm sorted).1 = .counter ∧
        (evPlan p rx ev nm sorted).2.2 = fun _ s => counterAdd s (evValue p rx ev)) ∧
    (ev.kind = .gauge → (evPlan p rx ev nm sorted).1 = .gauge) ∧
    (ev.kind = .observer → (evPlan p rx ev nm sorted).1 = .histogram ∨ (evPlan p rx ev nm sorted).1 = .summary) := by
  unfold evPlan
  cases ev.kind
  · exact ⟨fun _ => ⟨rfl, rfl⟩, nofun, nofun⟩
  · exact ⟨nofun, fun _ => rfl, nofun⟩
  · refine ⟨nofun, nofun, fun _ => ?_⟩
    simp only []
    split
    · exact Or.inl rfl
    · exact Or.inr rfl

/-- what the mapping stage does to the counters: exactly one of `mapped` / `unmapped` goes up by one -/
theorem evNamed_counts {p : Pipe V} {rx : Rx} {ev : Ev V} {tags : Labels} {nm : Bytes} {labels : Labels} {c : Counts}
    (h : evNamed p rx ev tags = some (.ok (nm, labels, c))) :
    labels = evLabels p rx ev tags ∧
    (c = { p.counts with mapped := p.counts.mapped + 1 } ∨ c = { p.counts with unmapped := p.counts.unmapped + 1 }) := by
  unfold evNamed at h
  unfold evLabels
  split at h
  · split at h
    · cases h
    · split at h
      · cases h
      · split at h
        · cases h
        · simp only [Option.some.injEq, Except.ok.injEq, Prod.mk.injEq] at h
          exact ⟨h.2.1.symm, Or.inl h.2.2.symm⟩
  · rename_i hno
    by_cases he : ev.name.isEmpty = true
    · rw [if_pos he] at h; cases h
    · rw [if_neg he] at h
      simp only [Option.some.injEq, Except.ok.injEq, Prod.mk.injEq] at h
      refine ⟨?_, Or.inr h.2.2.symm⟩
      rw [← h.2.1]

theorem evTarget_spec {p : Pipe V} {rx : Rx} {ev : Ev V} {tags : Labels} {c : Counts} {pl : Plan V}
    (h : evTarget p rx ev tags = some (c, pl)) :
    evDropped p rx ev = false ∧ evBadCounter p rx ev = false ∧
    ∃ nm, evNamed p rx ev tags = some (.ok (nm, evLabels p rx ev tags, c)) ∧
      pl = evPlan p rx ev nm (evLabels p rx ev tags).sorted := by
  unfold evTarget at h
  split at h
  · cases h
  · rename_i hd
    split at h
    · rename_i nm labels c' hn
      split at h
      · cases h
      · rename_i hb
        simp only [Option.some.injEq, Prod.mk.injEq] at h
        obtain ⟨hc, hpl⟩ := h
        subst hc
        have hl := (evNamed_counts hn).1
        subst hl
        exact ⟨by simpa using hd, by simpa using hb, nm, hn, hpl.symm⟩
    · cases h

theorem handleEvent_of_target {p : Pipe V} {rx : Rx} {ev : Ev V} {tags : Labels} {c : Counts} {pl : Plan V}
    (h : evTarget p rx ev tags = some (c, pl)) : handleEvent p rx ev tags = finishPlan p c pl := by
  obtain ⟨hd, hb, nm, hn, hpl⟩ := evTarget_spec h
  rw [handleEvent_eq, hd, hn]
  simp only [Bool.false_eq_true, if_false, hb, hpl]

/-- an event that does not reach the registry changes nothing but the exporter's own counters -/
theorem handleEvent_no_target {p : Pipe V} {rx : Rx} {ev : Ev V} {tags : Labels}
    (h : evTarget p rx ev tags = none) :
    handleEvent p rx ev tags = none ∨
    ∃ c', handleEvent p rx ev tags = some (.ok { p with counts := c' }) ∧ c'.applied = p.counts.applied ∧
      c'.conflicts = p.counts.conflicts := by
  rw [handleEvent_eq]
  unfold evTarget at h
  split
  · exact Or.inr ⟨_, rfl, rfl, rfl⟩
  · rename_i hd
    rw [if_neg hd] at h
    split
    · exact Or.inl rfl
    · exact Or.inr ⟨_, rfl, rfl, rfl⟩
    · rename_i nm labels c hn
      rw [hn] at h
      simp only at h
      split
      · rcases (evNamed_counts hn).2 with e | e <;> subst e <;> exact Or.inr ⟨_, rfl, rfl, rfl⟩
      · rename_i hb; rw [if_neg hb] at h; cases h

/-! ### the registry step -/

/-- the state after an applied event -/
def appliedPipe (p : Pipe V) (c : Counts) (pl : Plan V) (reg : Reg V) : Pipe V :=
  { p with reg := updateSeries reg pl.2.1.name pl.2.1.labels pl.2.2, counts := { c with applied := c.applied + 1 } }

/-- the state after a rejected (conflicting / reserved-label) event -/
def rejectedPipe (p : Pipe V) (c : Counts) : Pipe V :=
  { p with counts := { c with conflicts := c.conflicts + 1 } }

theorem finishPlan_cases (p : Pipe V) (c : Counts) (pl : Plan V) :
    (∃ pn, p.reg.getOrCreate pl.1 pl.2.1 p.now = .error pn ∧ finishPlan p c pl = some (.error pn)) ∨
    (∃ e, p.reg.getOrCreate pl.1 pl.2.1 p.now = .ok (.error e) ∧ finishPlan p c pl = some (.ok (rejectedPipe p c))) ∨
    (∃ reg, p.reg.getOrCreate pl.1 pl.2.1 p.now = .ok (.ok reg) ∧ finishPlan p c pl = some (.ok (appliedPipe p c pl reg))) := by
  unfold finishPlan finishStep
  cases h : p.reg.getOrCreate pl.1 pl.2.1 p.now with
  | error pn => exact Or.inl ⟨pn, rfl, rfl⟩
  | ok x =>
    cases x with
    | error e => exact Or.inr (Or.inl ⟨e, rfl, rfl⟩)
    | ok reg => exact Or.inr (Or.inr ⟨reg, rfl, rfl⟩)

theorem evTarget_counts {p : Pipe V} {rx : Rx} {ev : Ev V} {tags : Labels} {c : Counts} {pl : Plan V}
    (h : evTarget p rx ev tags = some (c, pl)) :
    c.applied = p.counts.applied ∧ c.conflicts = p.counts.conflicts ∧ c.errors = p.counts.errors ∧
    c.dropped = p.counts.dropped ∧ c.mapped + c.unmapped = p.counts.mapped + p.counts.unmapped + 1 := by
  obtain ⟨_, _, nm, hn, _⟩ := evTarget_spec h
  rcases (evNamed_counts hn).2 with e | e <;> subst e <;> refine ⟨rfl, rfl, rfl, rfl, ?_⟩ <;> simp only <;> omega

/-- every step keeps the mapper and the clock -/
theorem handleEvent_keeps {p p' : Pipe V} {rx : Rx} {ev : Ev V} {tags : Labels}
    (h : handleEvent p rx ev tags = some (.ok p')) : p'.mapper = p.mapper ∧ p'.now = p.now := by
  cases ht : evTarget p rx ev tags with
  | none =>
    rcases handleEvent_no_target ht with h0 | ⟨c', h1, _⟩
    · rw [h0] at h; cases h
    · rw [h1] at h; injection h with h; injection h with h; subst h; exact ⟨rfl, rfl⟩
  | some cp =>
    obtain ⟨c, pl⟩ := cp
    rw [handleEvent_of_target ht] at h
    rcases finishPlan_cases p c pl with ⟨pn, _, h1⟩ | ⟨e, _, h1⟩ | ⟨reg, _, h1⟩
    · rw [h1] at h; injection h with h; cases h
    · rw [h1] at h; injection h with h; injection h with h; subst h; exact ⟨rfl, rfl⟩
    · rw [h1] at h; injection h with h; injection h with h; subst h; exact ⟨rfl, rfl⟩

/-- an event counted as applied went through a successful `getOrCreate` followed by the update -/
theorem handleEvent_applied {p p' : Pipe V} {rx : Rx} {ev : Ev V} {tags : Labels}
    (h : handleEvent p rx ev tags = some (.ok p')) (ha : p'.counts.applied = p.counts.applied + 1) :
    ∃ c pl reg, evTarget p rx ev tags = some (c, pl) ∧ p.reg.getOrCreate pl.1 pl.2.1 p.now = .ok (.ok reg) ∧
      p' = appliedPipe p c pl reg := by
  cases ht : evTarget p rx ev tags with
  | none =>
    rcases handleEvent_no_target ht with h0 | ⟨c', h1, h2, _⟩
    · rw [h0] at h; cases h
    · rw [h1] at h; injection h with h; injection h with h; subst h
      simp only at ha; omega
  | some cp =>
    obtain ⟨c, pl⟩ := cp
    have hc := (evTarget_counts ht).1
    rw [handleEvent_of_target ht] at h
    rcases finishPlan_cases p c pl with ⟨pn, _, h1⟩ | ⟨e, _, h1⟩ | ⟨reg, hg, h1⟩
    · rw [h1] at h; injection h with h; cases h
    · rw [h1] at h; injection h with h; injection h with h; subst h
      simp only [rejectedPipe] at ha; omega
    · rw [h1] at h; injection h with h; injection h with h
      exact ⟨c, pl, reg, rfl, hg, h.symm⟩

/-- an event not counted as applied leaves the registry untouched -/
theorem handleEvent_not_applied {p p' : Pipe V} {rx : Rx} {ev : Ev V} {tags : Labels}
    (h : handleEvent p rx ev tags = some (.ok p')) (ha : p'.counts.applied ≠ p.counts.applied + 1) :
    p'.reg = p.reg := by
  cases ht : evTarget p rx ev tags with
  | none =>
    rcases handleEvent_no_target ht with h0 | ⟨c', h1, _⟩
    · rw [h0] at h; cases h
    · rw [h1] at h; injection h with h; injection h with h; subst h; rfl
  | some cp =>
    obtain ⟨c, pl⟩ := cp
    have hc := (evTarget_counts ht).1
    rw [handleEvent_of_target ht] at h
    rcases finishPlan_cases p c pl with ⟨pn, _, h1⟩ | ⟨e, _, h1⟩ | ⟨reg, hg, h1⟩
    · rw [h1] at h; injection h with h; cases h
    · rw [h1] at h; injection h with h; injection h with h; subst h; rfl
    · rw [h1] at h; injection h with h; injection h with h; subst h
      simp only [appliedPipe] at ha; omega

/-! ### what an applied event does to the registry, in terms of lookups -/

section applied
variable {p : Pipe V} {c : Counts} {pl : Plan V} {reg : Reg V}

theorem applied_series_frame (hk : UpdKeeps pl.2.2) (hg : p.reg.getOrCreate pl.1 pl.2.1 p.now = .ok (.ok reg))
    (name : Bytes) (L : Labels) (hne : ¬(name = pl.2.1.name ∧ L = pl.2.1.labels)) :
    (appliedPipe p c pl reg).reg.series? name L = p.reg.series? name L := by
  simp only [appliedPipe]
  rw [series?_updateSeries _ _ _ _ (fun v s => (hk v s).1), if_neg hne]
  exact getOrCreate_series_frame hg name L hne

theorem applied_type? (hg : p.reg.getOrCreate pl.1 pl.2.1 p.now = .ok (.ok reg)) (name : Bytes) :
    (appliedPipe p c pl reg).reg.type? name = if name = pl.2.1.name then some pl.1 else p.reg.type? name := by
  simp only [appliedPipe]
  rw [type?_updateSeries]
  exact getOrCreate_type? hg name

theorem applied_type_keep (hg : p.reg.getOrCreate pl.1 pl.2.1 p.now = .ok (.ok reg)) (name : Bytes) (t : MType)
    (h : p.reg.type? name = some t) : (appliedPipe p c pl reg).reg.type? name = some t := by
  simp only [appliedPipe]
  rw [type?_updateSeries]
  exact getOrCreate_type_keep hg name t h

theorem applied_vec_keep (hg : p.reg.getOrCreate pl.1 pl.2.1 p.now = .ok (.ok reg)) (name : Bytes) (names : List Bytes)
    (v : VecM V) (h : p.reg.vec? name names = some v) : (appliedPipe p c pl reg).reg.vec? name names = some v := by
  simp only [appliedPipe]
  rw [vec?_updateSeries]
  exact getOrCreate_vec_keep hg name names v h

/-- the addressed series after an applied event: the update applied to the refreshed / fresh series -/
theorem applied_addressed (hk : UpdKeeps pl.2.2) (hg : p.reg.getOrCreate pl.1 pl.2.1 p.now = .ok (.ok reg)) :
    ∃ s, reg.series? pl.2.1.name pl.2.1.labels = some s ∧
      (appliedPipe p c pl reg).reg.series? pl.2.1.name pl.2.1.labels
        = some (applyUpd reg pl.2.1.name pl.2.1.labels pl.2.2 s) ∧
      (applyUpd reg pl.2.1.name pl.2.1.labels pl.2.2 s).last = p.now ∧
      (applyUpd reg pl.2.1.name pl.2.1.labels pl.2.2 s).ttl = pl.2.1.ttl ∧
      (applyUpd reg pl.2.1.name pl.2.1.labels pl.2.2 s).labels = pl.2.1.labels := by
  obtain ⟨s, hs, hl, hlast, httl, _⟩ := getOrCreate_addressed hg
  refine ⟨s, hs, ?_, ?_, ?_, ?_⟩
  · simp only [appliedPipe]
    rw [series?_updateSeries _ _ _ _ (fun v s => (hk v s).1), if_pos ⟨rfl, rfl⟩, hs]; rfl
  all_goals
    unfold applyUpd
    split
    · rename_i v _
      first
        | rw [(hk v s).2.1]; exact hlast
        | rw [(hk v s).2.2]; exact httl
        | rw [(hk v s).1]; exact hl
    · first | exact hlast | exact httl | exact hl

/-- creation: the exposed series is the update applied to the zero series, i.e. it comes from this sample alone -/
theorem applied_created (hk : UpdKeeps pl.2.2) (hg : p.reg.getOrCreate pl.1 pl.2.1 p.now = .ok (.ok reg))
    (hnone : p.reg.series? pl.2.1.name pl.2.1.labels = none) :
    (appliedPipe p c pl reg).reg.series? pl.2.1.name pl.2.1.labels =
      some (pl.2.2 (p.reg.vecFor pl.1 pl.2.1) (freshSeries pl.1 (p.reg.vecFor pl.1 pl.2.1) pl.2.1 p.now)) := by
  obtain ⟨s, hs, _, _, _, hcase⟩ := getOrCreate_addressed hg
  rcases hcase with ⟨s0, hs0, _⟩ | ⟨_, hfresh, hvec⟩
  · rw [hnone] at hs0; cases hs0
  · simp only [appliedPipe]
    rw [series?_updateSeries _ _ _ _ (fun v s => (hk v s).1), if_pos ⟨rfl, rfl⟩, hs]
    simp only [Option.map_some, applyUpd, hvec, hfresh]

/-- hit: the exposed series is the update applied to the old series with clock and ttl restarted -/
theorem applied_hit (hw : RegWF p.reg) (hk : UpdKeeps pl.2.2) (hg : p.reg.getOrCreate pl.1 pl.2.1 p.now = .ok (.ok reg))
    (s0 : Series V) (hs0 : p.reg.series? pl.2.1.name pl.2.1.labels = some s0) :
    ∃ v, p.reg.vec? pl.2.1.name (pl.2.1.labels.map (·.1)) = some v ∧
      (appliedPipe p c pl reg).reg.series? pl.2.1.name pl.2.1.labels =
        some (pl.2.2 v { s0 with last := p.now, ttl := pl.2.1.ttl }) := by
  obtain ⟨v, hv⟩ := hw.vec?_of_series? hs0
  have hv' := getOrCreate_vec_keep hg _ _ v hv
  obtain ⟨s, hs, _, _, _, hcase⟩ := getOrCreate_addressed hg
  rcases hcase with ⟨s0', hs0', _, hseq⟩ | ⟨hn, _, _⟩
  · rw [hs0] at hs0'; injection hs0' with e; subst e
    refine ⟨v, hv, ?_⟩
    simp only [appliedPipe]
    rw [series?_updateSeries _ _ _ _ (fun v s => (hk v s).1), if_pos ⟨rfl, rfl⟩, hs]
    simp only [Option.map_some, applyUpd, hv', hseq]
  · rw [hn] at hs0; cases hs0

end applied

theorem evTarget_keeps {p : Pipe V} {rx : Rx} {ev : Ev V} {tags : Labels} {c : Counts} {pl : Plan V}
    (h : evTarget p rx ev tags = some (c, pl)) : UpdKeeps pl.2.2 := by
  obtain ⟨_, _, nm, _, hpl⟩ := evTarget_spec h
  subst hpl; exact evPlan_keeps _ _ _ _ _

/-- the `GetArgs` of the registry request: labels = the sorted merged label map, ttl = rule ttl or default -/
theorem evTarget_args {p : Pipe V} {rx : Rx} {ev : Ev V} {tags : Labels} {c : Counts} {pl : Plan V}
    (h : evTarget p rx ev tags = some (c, pl)) :
    pl.2.1.labels = (evLabels p rx ev tags).sorted ∧ pl.2.1.ttl = evTtl p rx ev ∧ pl.2.1.help = evHelp p rx ev := by
  obtain ⟨_, _, nm, _, hpl⟩ := evTarget_spec h
  subst hpl
  have := evPlan_args p rx ev nm (evLabels p rx ev tags).sorted
  exact ⟨this.2.1, this.2.2.1, this.2.2.2⟩

/-- `handleEvent` preserves the registry invariant -/
theorem RegWF_handleEvent {p p' : Pipe V} {rx : Rx} {ev : Ev V} {tags : Labels} (hw : RegWF p.reg)
    (h : handleEvent p rx ev tags = some (.ok p')) : RegWF p'.reg := by
  by_cases ha : p'.counts.applied = p.counts.applied + 1
  · obtain ⟨c, pl, reg, ht, hg, e⟩ := handleEvent_applied h ha
    subst e
    simp only [appliedPipe]
    exact RegWF_updateSeries (RegWF_getOrCreate hw hg) _ _ _ (fun v s => (evTarget_keeps ht v s).1)
  · rw [handleEvent_not_applied h ha]; exact hw

theorem RegWF_handleEvents {rx : Rx} {tags : Labels} (evs : List (Ev V)) :
    ∀ {p p' : Pipe V}, RegWF p.reg → handleEvents p rx tags evs = some (.ok p') → RegWF p'.reg := by
  induction evs with
  | nil => intro p p' hw h; simp only [handleEvents] at h; injection h with h; injection h with h; subst h; exact hw
  | cons e es ih =>
    intro p p' hw h
    simp only [handleEvents] at h
    split at h
    · cases h
    · cases h
    · rename_i p1 h1
      exact ih (RegWF_handleEvent hw h1) h

/-! ### the exporter's own counters never influence a step

`handleEvent` reads the counters only to increment them: running it from a state whose counters
are offset by `d` gives the same result offset by `d`. -/

/-- add the offsets `d` to the counters `c` (for the error list: `d`'s entries come first) -/
def Counts.plus (c d : Counts) : Counts :=
  { conflicts := c.conflicts + d.conflicts, errors := d.errors ++ c.errors, dropped := c.dropped + d.dropped,
    mapped := c.mapped + d.mapped, unmapped := c.unmapped + d.unmapped, applied := c.applied + d.applied }

def Pipe.plus (p : Pipe V) (d : Counts) : Pipe V := { p with counts := p.counts.plus d }

def shiftRes (d : Counts) : Option (Except Panic (Pipe V)) → Option (Except Panic (Pipe V))
  | none => none
  | some (.error pn) => some (.error pn)
  | some (.ok q) => some (.ok (q.plus d))

theorem Counts.ext' {a b : Counts} (h1 : a.conflicts = b.conflicts) (h2 : a.errors = b.errors)
    (h3 : a.dropped = b.dropped) (h4 : a.mapped = b.mapped) (h5 : a.unmapped = b.unmapped)
    (h6 : a.applied = b.applied) : a = b := by
  cases a; cases b; simp only at h1 h2 h3 h4 h5 h6; subst h1 h2 h3 h4 h5 h6; rfl

theorem evNamed_plus (p : Pipe V) (d : Counts) (rx : Rx) (ev : Ev V) (tags : Labels) :
    evNamed (p.plus d) rx ev tags =
      match evNamed p rx ev tags with
      | none => none
      | some (.error e) => some (.error e)
      | some (.ok (nm, l, c)) => some (.ok (nm, l, c.plus d)) := by
  have h1 : evFound (p.plus d) rx ev = evFound p rx ev := rfl
  have h2 : evRule (p.plus d) rx ev = evRule p rx ev := rfl
  unfold evNamed
  rw [h1, h2]
  split
  · split
    · rfl
    · split
      · rfl
      · split
        · rfl
        · simp only [Option.some.injEq, Except.ok.injEq, Prod.mk.injEq, true_and]
          apply Counts.ext' <;> simp only [Pipe.plus, Counts.plus] <;> omega
  · split
    · rfl
    · simp only [Option.some.injEq, Except.ok.injEq, Prod.mk.injEq, true_and]
      apply Counts.ext' <;> simp only [Pipe.plus, Counts.plus] <;> omega

theorem finishPlan_plus (p : Pipe V) (d c : Counts) (pl : Plan V) :
    finishPlan (p.plus d) (c.plus d) pl = shiftRes d (finishPlan p c pl) := by
  unfold finishPlan finishStep
  have : (p.plus d).reg.getOrCreate pl.1 pl.2.1 (p.plus d).now = p.reg.getOrCreate pl.1 pl.2.1 p.now := rfl
  rw [this]
  cases p.reg.getOrCreate pl.1 pl.2.1 p.now with
  | error pn => rfl
  | ok x =>
    cases x with
    | error e =>
      simp only [shiftRes, Pipe.plus, Option.some.injEq, Except.ok.injEq]
      congr 1
      apply Counts.ext' <;> simp only [Counts.plus] <;> omega
    | ok reg =>
      simp only [shiftRes, Pipe.plus, Option.some.injEq, Except.ok.injEq]
      congr 1
      apply Counts.ext' <;> simp only [Counts.plus] <;> omega

theorem handleEvent_plus (p : Pipe V) (d : Counts) (rx : Rx) (ev : Ev V) (tags : Labels) :
    handleEvent (p.plus d) rx ev tags = shiftRes d (handleEvent p rx ev tags) := by
  rw [handleEvent_eq, handleEvent_eq, evNamed_plus]
  have h1 : evDropped (p.plus d) rx ev = evDropped p rx ev := rfl
  have h2 : evBadCounter (p.plus d) rx ev = evBadCounter p rx ev := rfl
  have h3 : ∀ nm l, evPlan (p.plus d) rx ev nm l = evPlan p rx ev nm l := fun _ _ => rfl
  rw [h1]
  split
  · simp only [shiftRes, Pipe.plus, Option.some.injEq, Except.ok.injEq]
    congr 1
    apply Counts.ext' <;> simp only [Counts.plus] <;> omega
  · cases hn : evNamed p rx ev tags with
    | none => rfl
    | some x =>
      cases x with
      | error e =>
        simp only [shiftRes, Pipe.plus, Option.some.injEq, Except.ok.injEq]
        congr 1
        apply Counts.ext' <;> simp only [Counts.plus, List.append_assoc] <;> omega
      | ok y =>
        obtain ⟨nm, l, c⟩ := y
        simp only [h2, h3]
        split
        · simp only [shiftRes, Pipe.plus, Option.some.injEq, Except.ok.injEq]
          congr 1
          apply Counts.ext' <;> simp only [Counts.plus, List.append_assoc] <;> omega
        · exact finishPlan_plus p d c _

theorem handleEvents_plus (d : Counts) (rx : Rx) (tags : Labels) (evs : List (Ev V)) :
    ∀ p : Pipe V, handleEvents (p.plus d) rx tags evs = shiftRes d (handleEvents p rx tags evs) := by
  induction evs with
  | nil => intro p; rfl
  | cons e es ih =>
    intro p
    simp only [handleEvents]
    rw [handleEvent_plus]
    cases handleEvent p rx e tags with
    | none => rfl
    | some x =>
      cases x with
      | error pn => rfl
      | ok q => exact ih q

end SE
