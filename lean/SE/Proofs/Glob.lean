import SE.Spec.Mapping
import SE.Proofs.ListLemmas
/-
Core lemmas about the path-indexed glob FSM model (`SE/Model/Glob.lean`):
soundness and (with backtracking) completeness of `dfs`, and the `pick` lemmas.
-/
namespace SE
open SE.ListLemmas

/-! ### `globMatches` equations -/

@[simp] theorem globMatches_nil_nil : globMatches [] [] = true := by simp [globMatches]
@[simp] theorem globMatches_nil_cons (b : Bytes) (bs : Pat) : globMatches [] (b :: bs) = false := by
  simp [globMatches]
@[simp] theorem globMatches_cons_nil (a : Bytes) (as : Pat) : globMatches (a :: as) [] = false := by
  simp [globMatches]
theorem globMatches_cons_cons (a b : Bytes) (as bs : Pat) :
    globMatches (a :: as) (b :: bs) = ((a == starB || a == b) && globMatches as bs) := by
  simp only [globMatches, List.length_cons, List.zip_cons_cons, List.all_cons]
  cases (a == starB || a == b) <;> simp

theorem globMatches_length {p n : Pat} (h : globMatches p n = true) : p.length = n.length := by
  simp [globMatches] at h; exact h.1

/-! ### one step of `dfs` without the closure -/

/-- the local `visit` of `dfs` -/
def dfsVisit (rs : TRules) (bt : Bool) (rest : List Bytes) (q : Pat) (caps' : List Bytes) : List Found :=
  match rest with
  | [] => match result rs q with
    | some r => [⟨r, caps'⟩]
    | none => []
  | _ :: _ => dfs rs bt q caps' rest

theorem dfs_cons (rs : TRules) (bt : Bool) (p : Pat) (caps : List Bytes) (f : Bytes) (rest : List Bytes) :
    dfs rs bt p caps (f :: rest) =
      if !hasChildren rs p then [] else
      if f != starB && okChild rs p f rest.length then
        dfsVisit rs bt rest (p ++ [f]) caps ++
          (if bt && okChild rs p starB rest.length then dfsVisit rs bt rest (p ++ [starB]) (caps ++ [f]) else [])
      else if okChild rs p starB rest.length then dfsVisit rs bt rest (p ++ [starB]) (caps ++ [f])
      else [] := by
  cases rest <;> rfl

/-! ### node attributes -/

theorem mem_through {rs : TRules} {p : Pat} {r : Nat × Pat} :
    r ∈ through rs p ↔ r ∈ rs ∧ p <+: r.2 := by
  simp [through, List.mem_filter]

theorem nodeExists_of_mem {rs : TRules} {p : Pat} {r : Nat × Pat} (h : r ∈ rs) (hp : p <+: r.2) :
    nodeExists rs p = true := by
  have : r ∈ through rs p := mem_through.mpr ⟨h, hp⟩
  simp only [nodeExists, Bool.not_eq_true', List.isEmpty_eq_false_iff]
  intro h0; rw [h0] at this; simp at this

theorem hasChildren_of_mem {rs : TRules} {p : Pat} {r : Nat × Pat} (h : r ∈ rs) (hp : p <+: r.2)
    (hl : p.length < r.2.length) : hasChildren rs p = true := by
  simp only [hasChildren, List.any_eq_true]
  exact ⟨r, mem_through.mpr ⟨h, hp⟩, by simpa using hl⟩

theorem minRem_le {rs : TRules} {p : Pat} {r : Nat × Pat} (h : r ∈ rs) (hp : p <+: r.2) :
    minRem rs p ≤ r.2.length - p.length := by
  have hm : r.2.length - p.length ∈ (through rs p).map (fun r => r.2.length - p.length) :=
    List.mem_map.mpr ⟨r, mem_through.mpr ⟨h, hp⟩, rfl⟩
  unfold minRem
  generalize (through rs p).map (fun r => r.2.length - p.length) = l at hm
  cases l with
  | nil => simp at hm
  | cons x xs =>
    simp only
    rcases List.mem_cons.mp hm with h1 | h1
    · rw [h1]; exact foldl_min_le_init _ _
    · exact foldl_min_le_mem _ _ _ h1

theorem le_maxRem {rs : TRules} {p : Pat} {r : Nat × Pat} (h : r ∈ rs) (hp : p <+: r.2) :
    r.2.length - p.length ≤ maxRem rs p := by
  have hm : r.2.length - p.length ∈ (through rs p).map (fun r => r.2.length - p.length) :=
    List.mem_map.mpr ⟨r, mem_through.mpr ⟨h, hp⟩, rfl⟩
  unfold maxRem
  exact le_foldl_max_mem _ _ _ hm

/-- length pruning is sound: a rule running through the child passes the `okChild` test -/
theorem okChild_of_mem {rs : TRules} {p : Pat} {c : Bytes} {ext : Pat} {i : Nat}
    (h : (i, p ++ c :: ext) ∈ rs) : okChild rs p c ext.length = true := by
  have hp : (p ++ [c]) <+: (i, p ++ c :: ext).2 := ⟨ext, by simp⟩
  have h1 := nodeExists_of_mem h hp
  have h2 := minRem_le h hp
  have h3 := le_maxRem h hp
  have hl : (i, p ++ c :: ext).2.length - (p ++ [c]).length = ext.length := by
    simp; omega
  rw [hl] at h2 h3
  simp [okChild, h1, h2, h3]

theorem result_some_mem {rs : TRules} {q : Pat} {i : Nat} (h : result rs q = some i) : (i, q) ∈ rs := by
  simp only [result, Option.map_eq_some_iff] at h
  obtain ⟨r, hr, rfl⟩ := h
  have h1 := List.find?_some hr
  have h2 := List.mem_of_find?_eq_some hr
  simp only [beq_iff_eq] at h1
  rw [← h1]; exact h2

/-! ### soundness -/

/-- Every final state reported by `dfs` (with or without backtracking) is the node of a path `p ++ ext`
    where `ext` matches the remaining fields component-wise, and `f.rule` owns that node;
    the captures are those of `ext` (a field that is literally `*` takes the wildcard transition and
    is recorded like any other field: repair 0275669). -/
theorem dfs_sound (rs : TRules) (bt : Bool) :
    ∀ (fields : List Bytes) (p : Pat) (caps : List Bytes) (f : Found),
      f ∈ dfs rs bt p caps fields →
      ∃ ext, globMatches ext fields = true ∧ result rs (p ++ ext) = some f.rule ∧
        f.caps = caps ++ capturesOf ext fields := by
  intro fields
  induction fields with
  | nil => intro p caps f h; simp [dfs] at h
  | cons fd rest ih =>
    intro p caps f h
    have hv : ∀ (q : Pat) (caps' : List Bytes), f ∈ dfsVisit rs bt rest q caps' →
        ∃ ext, globMatches ext rest = true ∧ result rs (q ++ ext) = some f.rule ∧
          f.caps = caps' ++ capturesOf ext rest := by
      intro q caps' hf
      cases rest with
      | nil =>
        simp only [dfsVisit] at hf
        split at hf
        · rename_i r hr
          simp only [List.mem_singleton] at hf
          subst hf
          exact ⟨[], by simp, by simpa using hr, by simp [capturesOf]⟩
        · simp at hf
      | cons g rest' => exact ih q caps' f hf
    have lit : (fd == starB) = false → f ∈ dfsVisit rs bt rest (p ++ [fd]) caps →
        ∃ ext, globMatches ext (fd :: rest) = true ∧ result rs (p ++ ext) = some f.rule ∧
          f.caps = caps ++ capturesOf ext (fd :: rest) := by
      intro hne hf
      obtain ⟨ext, h1, h2, h3⟩ := hv _ _ hf
      refine ⟨fd :: ext, by simp [globMatches_cons_cons, h1], by simpa using h2, ?_⟩
      rw [h3]; simp [capturesOf, hne]
    have star : f ∈ dfsVisit rs bt rest (p ++ [starB]) (caps ++ [fd]) →
        ∃ ext, globMatches ext (fd :: rest) = true ∧ result rs (p ++ ext) = some f.rule ∧
          f.caps = caps ++ capturesOf ext (fd :: rest) := by
      intro hf
      obtain ⟨ext, h1, h2, h3⟩ := hv _ _ hf
      refine ⟨starB :: ext, by simp [globMatches_cons_cons, h1], by simpa using h2, ?_⟩
      rw [h3]; simp [capturesOf]
    rw [dfs_cons] at h
    split at h
    · simp at h
    · split at h
      · rename_i hokf
        rw [Bool.and_eq_true] at hokf
        rcases List.mem_append.mp h with h | h
        · exact lit (by simpa [bne] using hokf.1) h
        · split at h
          · exact star h
          · simp at h
      · split at h
        · exact star h
        · simp at h

/-! ### completeness (backtracking on) -/

/-- With backtracking, every final node whose path matches the remaining fields is reached, with the
    captures of its path. -/
theorem dfs_complete (rs : TRules) :
    ∀ (fields : List Bytes) (p : Pat) (caps : List Bytes) (ext : Pat) (i : Nat),
      fields ≠ [] → globMatches ext fields = true → result rs (p ++ ext) = some i →
      ∃ c, (⟨i, c⟩ : Found) ∈ dfs rs true p caps fields ∧
        c = caps ++ capturesOf ext fields := by
  intro fields
  induction fields with
  | nil => intro p caps ext i h; exact absurd rfl h
  | cons fd rest ih =>
    intro p caps ext i _ hm hr
    cases ext with
    | nil => simp at hm
    | cons c ext' =>
      rw [globMatches_cons_cons, Bool.and_eq_true] at hm
      obtain ⟨hc, hm'⟩ := hm
      have hlen := globMatches_length hm'
      have hmem : (i, p ++ c :: ext') ∈ rs := result_some_mem hr
      have hch : hasChildren rs p = true :=
        hasChildren_of_mem hmem ⟨c :: ext', rfl⟩ (by simp)
      have hok : okChild rs p c rest.length = true := by
        rw [← hlen]; exact okChild_of_mem hmem
      -- the visit of the child `p ++ [c]` reaches the node
      have hv : ∀ caps', ∃ c', (⟨i, c'⟩ : Found) ∈ dfsVisit rs true rest (p ++ [c]) caps' ∧
          c' = caps' ++ capturesOf ext' rest := by
        intro caps'
        have hr' : result rs ((p ++ [c]) ++ ext') = some i := by simpa using hr
        cases rest with
        | nil =>
          cases ext' with
          | nil =>
            refine ⟨caps', ?_, by simp [capturesOf]⟩
            simp only [List.append_nil] at hr'
            simp [dfsVisit, hr']
          | cons _ _ => simp at hm'
        | cons g rest' => exact ih (p ++ [c]) caps' ext' i (by simp) hm' hr'
      rw [dfs_cons]
      simp only [hch, Bool.not_true, Bool.false_eq_true, if_false, Bool.true_and]
      cases hcs : (c == starB) with
      | false =>
        -- a literal component of the path: the field is that literal (not `*`), the literal child is entered
        have hcf : c = fd := by simpa [hcs] using hc
        subst hcf
        obtain ⟨c', h1, h2⟩ := hv caps
        refine ⟨c', ?_, ?_⟩
        · simp only [bne, hcs, hok, Bool.not_false, Bool.and_self, if_true]
          exact List.mem_append_left _ h1
        · rw [h2]; simp [capturesOf, hcs]
      | true =>
        -- a wildcard component: the `*` child is entered, after the literal child or instead of it
        have hcs' : c = starB := by simpa using hcs
        subst hcs'
        obtain ⟨c', h1, h2⟩ := hv (caps ++ [fd])
        refine ⟨c', ?_, ?_⟩
        · by_cases hokf : (fd != starB && okChild rs p fd rest.length) = true
          · simp only [hokf, hok, if_true]; exact List.mem_append_right _ h1
          · simp only [hokf, hok, if_true]; exact h1
        · rw [h2]; simp [capturesOf]

/-- completeness of one `visit` (backtracking on) -/
theorem dfsVisit_complete (rs : TRules) (rest : List Bytes) (q : Pat) (caps' : List Bytes) (ext : Pat) (i : Nat)
    (hm : globMatches ext rest = true) (hr : result rs (q ++ ext) = some i) :
    ∃ c, (⟨i, c⟩ : Found) ∈ dfsVisit rs true rest q caps' := by
  cases rest with
  | nil =>
    cases ext with
    | nil =>
      simp only [List.append_nil] at hr
      exact ⟨caps', by simp [dfsVisit, hr]⟩
    | cons _ _ => simp at hm
  | cons g rest' =>
    obtain ⟨c, hc, _⟩ := dfs_complete rs (g :: rest') q caps' ext i (by simp) hm hr
    exact ⟨c, hc⟩

theorem result_isSome_of_mem {rs : TRules} {i : Nat} {pat : Pat} (h : (i, pat) ∈ rs) :
    ∃ j, result rs pat = some j := by
  cases hf : rs.find? (fun r => r.2 == pat) with
  | none =>
    rw [List.find?_eq_none] at hf
    exact absurd (by simp) (hf _ h)
  | some r => exact ⟨r.1, by simp [result, hf]⟩

/-! ### `pick` -/

theorem pick_unordered (fs : List Found) : pick false fs = fs.head? := by simp [pick]

/-- the ordered selection step -/
def pickStep (best : Option Found) (f : Found) : Option Found :=
  match best with
  | none => some f
  | some b => if b.rule > f.rule then some f else some b

theorem pick_ordered_eq (fs : List Found) : pick true fs = fs.foldl pickStep none := by
  simp only [pick, Bool.not_true, Bool.false_eq_true, if_false]
  rfl

theorem foldl_pickStep_some (fs : List Found) (b0 : Found) :
    ∃ b, fs.foldl pickStep (some b0) = some b ∧ (b = b0 ∨ b ∈ fs) ∧ b.rule ≤ b0.rule ∧
      (∀ f ∈ fs, b.rule ≤ f.rule) ∧ (b.rule = b0.rule → b = b0) := by
  induction fs generalizing b0 with
  | nil => exact ⟨b0, rfl, Or.inl rfl, Nat.le_refl _, by simp, fun _ => rfl⟩
  | cons f fs ih =>
    simp only [List.foldl_cons, pickStep]
    by_cases hgt : b0.rule > f.rule
    · simp only [hgt, if_true]
      obtain ⟨b, h1, h2, h3, h4, h5⟩ := ih f
      refine ⟨b, h1, ?_, by omega, ?_, ?_⟩
      · rcases h2 with h2 | h2
        · exact Or.inr (h2 ▸ List.mem_cons_self ..)
        · exact Or.inr (List.mem_cons_of_mem _ h2)
      · intro g hg
        rcases List.mem_cons.mp hg with rfl | hg
        · exact h3
        · exact h4 g hg
      · intro h; omega
    · simp only [hgt, if_false]
      obtain ⟨b, h1, h2, h3, h4, h5⟩ := ih b0
      refine ⟨b, h1, ?_, h3, ?_, h5⟩
      · rcases h2 with h2 | h2
        · exact Or.inl h2
        · exact Or.inr (List.mem_cons_of_mem _ h2)
      · intro g hg
        rcases List.mem_cons.mp hg with rfl | hg
        · omega
        · exact h4 g hg

/-- ordered `pick`: a member with the minimal rule index -/
theorem pick_ordered_some {fs : List Found} {b : Found} (h : pick true fs = some b) :
    b ∈ fs ∧ ∀ f ∈ fs, b.rule ≤ f.rule := by
  rw [pick_ordered_eq] at h
  cases fs with
  | nil => simp at h
  | cons f fs =>
    simp only [List.foldl_cons, pickStep] at h
    obtain ⟨b', h1, h2, h3, h4, _⟩ := foldl_pickStep_some fs f
    rw [h1] at h; cases h
    refine ⟨?_, ?_⟩
    · rcases h2 with h2 | h2
      · exact h2 ▸ List.mem_cons_self ..
      · exact List.mem_cons_of_mem _ h2
    · intro g hg
      rcases List.mem_cons.mp hg with rfl | hg
      · exact h3
      · exact h4 g hg

theorem pick_ordered_none {fs : List Found} : pick true fs = none ↔ fs = [] := by
  rw [pick_ordered_eq]
  cases fs with
  | nil => simp
  | cons f fs =>
    simp only [List.foldl_cons, pickStep]
    obtain ⟨b', h1, _⟩ := foldl_pickStep_some fs f
    simp [h1]

/-- ordered `pick` returns the minimal rule index whenever a minimal member is known -/
theorem pick_ordered_of_min {fs : List Found} {i : Nat} (hmem : ∃ c, (⟨i, c⟩ : Found) ∈ fs)
    (hmin : ∀ f ∈ fs, i ≤ f.rule) : ∃ b, pick true fs = some b ∧ b.rule = i ∧ b ∈ fs := by
  cases hp : pick true fs with
  | none =>
    obtain ⟨c, hc⟩ := hmem
    rw [pick_ordered_none.mp hp] at hc; simp at hc
  | some b =>
    obtain ⟨hb, hle⟩ := pick_ordered_some hp
    obtain ⟨c, hc⟩ := hmem
    have h1 := hle _ hc
    have h2 := hmin _ hb
    exact ⟨b, rfl, by simp only at h1; omega, hb⟩

end SE
