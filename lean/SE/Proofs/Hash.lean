import SE.Model.Hash
import SE.Proofs.RegistryLabels
/-
Injectivity of the byte strings `Registry.HashLabels` feeds to FNV-64a (SE/Model/Hash.lean).

Both inputs are instances of one encoding: a list of pieces, every piece followed by the separator
byte (`sepEnc`). On pieces that do not contain the separator the encoding is injective
(`sepEnc_injective`). The names input encodes the sorted names; the values input encodes
`names ++ [[]] ++ values`; the boundary between names and values is determined because there are as
many values as names (so label names need not even be assumed non-empty).
-/
namespace SE

/-! ### the separator encoding, generically -/

/-- every piece followed by `sep` -/
def sepEnc {α : Type} (sep : α) (ps : List (List α)) : List α := ps.flatMap (· ++ [sep])

theorem sepEnc_nil {α : Type} (sep : α) : sepEnc sep [] = [] := rfl

theorem sepEnc_cons {α : Type} (sep : α) (p : List α) (ps : List (List α)) :
    sepEnc sep (p :: ps) = p ++ sep :: sepEnc sep ps := by
  simp [sepEnc]

theorem sepEnc_append {α : Type} (sep : α) (ps qs : List (List α)) :
    sepEnc sep (ps ++ qs) = sepEnc sep ps ++ sepEnc sep qs := by
  simp [sepEnc]

/-- the first separator-free piece of a separated string is determined by the string -/
theorem sep_split {α : Type} (sep : α) :
    ∀ (x y r1 r2 : List α), x ++ sep :: r1 = y ++ sep :: r2 → sep ∉ x → sep ∉ y → x = y ∧ r1 = r2 := by
  intro x
  induction x with
  | nil =>
    intro y r1 r2 h _ hy
    cases y with
    | nil => simp only [List.nil_append, List.cons.injEq, true_and] at h; exact ⟨rfl, h⟩
    | cons b y' =>
      simp only [List.nil_append, List.cons_append, List.cons.injEq] at h
      exact absurd (h.1 ▸ List.mem_cons_self) hy
  | cons a x' ih =>
    intro y r1 r2 h hx hy
    cases y with
    | nil =>
      simp only [List.nil_append, List.cons_append, List.cons.injEq] at h
      exact absurd (h.1 ▸ List.mem_cons_self) hx
    | cons b y' =>
      simp only [List.cons_append, List.cons.injEq] at h
      simp only [List.mem_cons, not_or] at hx hy
      obtain ⟨e1, e2⟩ := ih y' r1 r2 h.2 hx.2 hy.2
      exact ⟨by rw [h.1, e1], e2⟩

/-- **Core lemma**: the separator encoding is injective on separator-free pieces. -/
theorem sepEnc_injective {α : Type} (sep : α) :
    ∀ (xs ys : List (List α)), sepEnc sep xs = sepEnc sep ys →
      (∀ x ∈ xs, sep ∉ x) → (∀ y ∈ ys, sep ∉ y) → xs = ys := by
  intro xs
  induction xs with
  | nil =>
    intro ys h _ _
    cases ys with
    | nil => rfl
    | cons y ys =>
      rw [sepEnc_nil, sepEnc_cons] at h
      have := congrArg List.length h
      simp at this
  | cons x xs ih =>
    intro ys h hx hy
    cases ys with
    | nil =>
      rw [sepEnc_nil, sepEnc_cons] at h
      have := congrArg List.length h
      simp at this
    | cons y ys =>
      rw [sepEnc_cons, sepEnc_cons] at h
      obtain ⟨e1, e2⟩ := sep_split sep x y _ _ h (hx x List.mem_cons_self) (hy y List.mem_cons_self)
      rw [e1, ih ys e2 (fun p hp => hx p (List.mem_cons_of_mem _ hp)) (fun p hp => hy p (List.mem_cons_of_mem _ hp))]

/-- as stated in the task: with `flatMap` spelled out -/
theorem flatMap_sep_injective {α : Type} (sep : α) (xs ys : List (List α))
    (h : xs.flatMap (· ++ [sep]) = ys.flatMap (· ++ [sep]))
    (hx : ∀ x ∈ xs, sep ∉ x) (hy : ∀ y ∈ ys, sep ∉ y) : xs = ys :=
  sepEnc_injective sep xs ys h hx hy

/-! ### the two hash inputs as separator encodings -/

/-- no label name and no label value contains the separator byte 0xFF. True for everything the line
    parser produces: lines are checked to be valid UTF-8, and 0xFF occurs in no UTF-8 sequence. -/
def NoSep (l : Labels) : Prop := ∀ kv ∈ l, sepByte ∉ kv.1 ∧ sepByte ∉ kv.2

instance (l : Labels) : Decidable (NoSep l) := by unfold NoSep; infer_instance

def sortedNames (l : Labels) : List Bytes := l.sorted.map (·.1)
def sortedValues (l : Labels) : List Bytes := l.sorted.map (·.2)

theorem flatMap_fst (l : Labels) (sep : UInt8) :
    l.flatMap (fun kv => kv.1 ++ [sep]) = sepEnc sep (l.map (·.1)) := by
  induction l with
  | nil => rfl
  | cons kv l ih => rw [List.map_cons, sepEnc_cons, List.flatMap_cons, ih]; simp

theorem flatMap_snd (l : Labels) (sep : UInt8) :
    l.flatMap (fun kv => kv.2 ++ [sep]) = sepEnc sep (l.map (·.2)) := by
  induction l with
  | nil => rfl
  | cons kv l ih => rw [List.map_cons, sepEnc_cons, List.flatMap_cons, ih]; simp

theorem nameBuf_eq (l : Labels) : nameBuf l = sepEnc sepByte (sortedNames l) :=
  flatMap_fst l.sorted sepByte

theorem valueBuf_eq (l : Labels) : valueBuf l = sepByte :: sepEnc sepByte (sortedValues l) := by
  unfold valueBuf; rw [flatMap_snd]; rfl

/-- the values input is the encoding of `names ++ [[]] ++ values` -/
theorem valuesHashInput_eq (l : Labels) :
    valuesHashInput l = sepEnc sepByte (sortedNames l ++ [] :: sortedValues l) := by
  unfold valuesHashInput
  rw [nameBuf_eq, valueBuf_eq, sepEnc_append, sepEnc_cons]
  rfl

theorem noSep_sortedNames (l : Labels) (h : NoSep l) : ∀ x ∈ sortedNames l, sepByte ∉ x := by
  intro x hx
  simp only [sortedNames, List.mem_map] at hx
  obtain ⟨kv, hkv, rfl⟩ := hx
  exact (h kv ((mem_sorted l kv).mp hkv)).1

theorem noSep_sortedValues (l : Labels) (h : NoSep l) : ∀ x ∈ sortedValues l, sepByte ∉ x := by
  intro x hx
  simp only [sortedValues, List.mem_map] at hx
  obtain ⟨kv, hkv, rfl⟩ := hx
  exact (h kv ((mem_sorted l kv).mp hkv)).2

/-- a list of pairs is determined by its two projections -/
theorem eq_of_map_fst_snd {α β : Type} : ∀ (l1 l2 : List (α × β)),
    l1.map (·.1) = l2.map (·.1) → l1.map (·.2) = l2.map (·.2) → l1 = l2 := by
  intro l1
  induction l1 with
  | nil => intro l2 h _; cases l2 with
    | nil => rfl
    | cons _ _ => simp at h
  | cons p l1 ih =>
    intro l2 h1 h2
    cases l2 with
    | nil => simp at h1
    | cons q l2 =>
      simp only [List.map_cons, List.cons.injEq] at h1 h2
      rw [ih l2 h1.2 h2.2, Prod.ext h1.1 h2.1]

/-- **names**: equal names-hash inputs ⇒ equal sorted name lists (only the names need to be
    separator-free) -/
theorem namesHashInput_inj (a b : Labels)
    (ha : ∀ kv ∈ a, sepByte ∉ kv.1) (hb : ∀ kv ∈ b, sepByte ∉ kv.1)
    (h : namesHashInput a = namesHashInput b) : sortedNames a = sortedNames b := by
  unfold namesHashInput at h
  rw [nameBuf_eq, nameBuf_eq] at h
  apply sepEnc_injective sepByte _ _ h
  · intro x hx
    simp only [sortedNames, List.mem_map] at hx
    obtain ⟨kv, hkv, rfl⟩ := hx
    exact ha kv ((mem_sorted a kv).mp hkv)
  · intro x hx
    simp only [sortedNames, List.mem_map] at hx
    obtain ⟨kv, hkv, rfl⟩ := hx
    exact hb kv ((mem_sorted b kv).mp hkv)

/-- **values**: equal values-hash inputs ⇒ equal sorted label lists -/
theorem valuesHashInput_inj (a b : Labels) (ha : NoSep a) (hb : NoSep b)
    (h : valuesHashInput a = valuesHashInput b) : a.sorted = b.sorted := by
  rw [valuesHashInput_eq, valuesHashInput_eq] at h
  have hpieces : sortedNames a ++ [] :: sortedValues a = sortedNames b ++ [] :: sortedValues b := by
    apply sepEnc_injective sepByte _ _ h
    · intro x hx
      simp only [List.mem_append, List.mem_cons] at hx
      rcases hx with hx | rfl | hx
      · exact noSep_sortedNames a ha x hx
      · exact List.not_mem_nil
      · exact noSep_sortedValues a ha x hx
    · intro x hx
      simp only [List.mem_append, List.mem_cons] at hx
      rcases hx with hx | rfl | hx
      · exact noSep_sortedNames b hb x hx
      · exact List.not_mem_nil
      · exact noSep_sortedValues b hb x hx
  -- there are as many values as names on either side, so the piece lists split at the same place
  have hlen : (sortedNames a).length = (sortedNames b).length := by
    have := congrArg List.length hpieces
    simp only [sortedNames, sortedValues, List.length_append, List.length_cons, List.length_map] at this ⊢
    omega
  obtain ⟨hn, hv⟩ := List.append_inj hpieces hlen
  exact eq_of_map_fst_snd _ _ hn (List.cons.inj hv).2

theorem namesHashInput_congr (a b : Labels) (h : sortedNames a = sortedNames b) :
    namesHashInput a = namesHashInput b := by
  unfold namesHashInput; rw [nameBuf_eq, nameBuf_eq, h]

theorem valuesHashInput_congr (a b : Labels) (h : a.sorted = b.sorted) :
    valuesHashInput a = valuesHashInput b := by
  unfold valuesHashInput nameBuf valueBuf; rw [h]

end SE
