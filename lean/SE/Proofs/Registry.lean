import SE.Spec.Registry
/-
Frame lemmas for the registry model: `Reg.getOrCreate` split into its branches, and what each
branch does to every lookup (`Reg.series?`, `Reg.type?`, `Reg.vec?`).
-/
set_option linter.unusedSectionVars false
namespace SE
variable {V : Type} [NumOps V]

/-! ### list helpers -/

theorem find?_map_keep {α : Type} (l : List α) (g : α → α) (p : α → Bool) (hp : ∀ x, p (g x) = p x) :
    (l.map g).find? p = (l.find? p).map g := by
  induction l with
  | nil => rfl
  | cons x t ih =>
    simp only [List.map_cons, List.find?_cons, hp]
    cases p x with
    | true => rfl
    | false => exact ih

theorem find?_map_fix {α : Type} (l : List α) (g : α → α) (p : α → Bool) (hp : ∀ x, p (g x) = p x)
    (hfix : ∀ x, p x = true → g x = x) : (l.map g).find? p = l.find? p := by
  rw [find?_map_keep l g p hp]
  cases h : l.find? p with
  | none => rfl
  | some x => simp [hfix x (List.find?_some h)]

/-! ### the branches of `getOrCreate` -/

/-- the series exists under the right type: `GetCounter`… answers from the map -/
def Reg.isHit (r : Reg V) (ty : MType) (a : GetArgs V) : Bool :=
  match r.find a.name with
  | some m => m.ty == ty && m.series.any (·.labels == a.labels)
  | none => false

def touchSeries (a : GetArgs V) (now : Int) (s : Series V) : Series V :=
  if s.labels == a.labels then { s with last := now, ttl := a.ttl } else s

/-- the hit path: refresh `last` and `ttl` of the addressed series -/
def Reg.touch (r : Reg V) (a : GetArgs V) (now : Int) : Reg V :=
  updateMetric r a.name fun m => { m with series := m.series.map (touchSeries a now) }

/-- the companion-name checks: `checkHistogramNameCollision` (the name is a companion name of a registered
    non-counter; all four types) and `checkObserverNameCollision` (a companion name `_sum/_count/_bucket` of the
    requested observer is taken at all, whatever its type) -/
def Reg.companion (r : Reg V) (ty : MType) (name : Bytes) : Bool :=
  match ty with
  | .counter => r.histNameCollision name
  | .gauge => r.histNameCollision name
  | .histogram => r.taken (name ++ sfxSum) || r.taken (name ++ sfxCount) || r.taken (name ++ sfxBucket) || r.histNameCollision name
  | .summary => r.taken (name ++ sfxSum) || r.taken (name ++ sfxCount) || r.histNameCollision name

def reservedFor : MType → Bytes
  | .histogram => strBytes "le"
  | .summary => strBytes "quantile"
  | _ => []

def Reg.existingVec (r : Reg V) (ty : MType) (a : GetArgs V) : Option (VecM V) :=
  (r.find a.name).bind fun m => if m.ty == ty then m.vecs.find? (·.names == a.labels.map (·.1)) else none

/-- `helpFor`: the help string a new vector of this name gets — that of the first vector ever created for the
    name (vectors are never removed), else the one the request carries -/
def Reg.helpFor (r : Reg V) (a : GetArgs V) : Bytes := (r.firstHelp? a.name).getD a.help

def Reg.vecFor (r : Reg V) (ty : MType) (a : GetArgs V) : VecM V :=
  (r.existingVec ty a).getD { names := a.labels.map (·.1), help := r.helpFor a, bounds := a.bounds, maxAge := a.maxAge,
                              ageBuckets := a.ageBuckets, objectives := a.objectives }

/-- `Reg.firstHelp?` spelled out: the name resolves to a metric entry whose first vector has this help -/
theorem firstHelp?_some_iff (r : Reg V) (name : Bytes) (h : Bytes) :
    r.firstHelp? name = some h ↔ ∃ m v rest, r.find name = some m ∧ m.vecs = v :: rest ∧ v.help = h := by
  unfold Reg.firstHelp?
  cases hf : r.find name with
  | none => simp
  | some m =>
    cases hv : m.vecs with
    | nil => simp [hv]
    | cons v rest => simp [hv]

/-- no metric entry, or one without vectors: a new vector keeps the help string of its request -/
theorem firstHelp?_none_iff (r : Reg V) (name : Bytes) :
    r.firstHelp? name = none ↔ ∀ m, r.find name = some m → m.vecs = [] := by
  unfold Reg.firstHelp?
  cases hf : r.find name with
  | none => simp
  | some m =>
    cases hv : m.vecs with
    | nil => simp [hv]
    | cons v rest => simp [hv]

/-- the constructor panics of client_golang at child creation -/
def ctorPanic (ty : MType) (vec : VecM V) : Option Panic :=
  if ty == .histogram && !strictlyIncreasing vec.bounds then some .bucketsNotIncreasing else
  if ty == .summary && vec.maxAge < 0 then some .negativeMaxAge else
  if ty == .summary && (if vec.maxAge == 0 then 600000000000 else vec.maxAge) / ((if vec.ageBuckets == 0 then 5 else vec.ageBuckets) : Int) == 0
  then some .summaryHang else none

def freshSeries (ty : MType) (vec : VecM V) (a : GetArgs V) (now : Int) : Series V :=
  { labels := a.labels, ttl := a.ttl, last := now, f := NumOps.zero, n := 0,
    bk := List.replicate (if ty == .histogram then (effBounds vec.bounds).length + 1 else 0) 0 }

def Reg.withMetric (r : Reg V) (ty : MType) (name : Bytes) : Reg V :=
  if (r.find name).isSome then r else { r with metrics := r.metrics ++ [{ name := name, ty := ty, vecs := [], series := [] }] }

def storeIn (ty : MType) (r : Reg V) (a : GetArgs V) (now : Int) (m : MetricM V) : MetricM V :=
  { m with vecs := if (r.existingVec ty a).isSome then m.vecs else m.vecs ++ [r.vecFor ty a],
           series := m.series ++ [freshSeries ty (r.vecFor ty a) a now] }

/-- the creation path: (metric,) (vector,) series with zero value -/
def Reg.create (r : Reg V) (ty : MType) (a : GetArgs V) (now : Int) : Reg V :=
  updateMetric (r.withMetric ty a.name) a.name (storeIn ty r a now)

theorem match3 {β : Type} (c1 c2 c3 : Bool) (a b c : Panic) (X : Except Panic β) :
    (match (if c1 then some a else if c2 then some b else if c3 then some c else none : Option Panic) with
      | some pn => .error pn
      | none => X) =
    if c1 then .error a else if c2 then .error b else if c3 then .error c else X := by
  cases c1 <;> cases c2 <;> cases c3 <;> rfl

theorem ctorPanic_match {β : Type} (ty : MType) (vec : VecM V) (X : Except Panic β) :
    (match ctorPanic ty vec with
      | some pn => .error pn
      | none => X) =
    if ty == .histogram && !strictlyIncreasing vec.bounds then .error .bucketsNotIncreasing else
    if ty == .summary && vec.maxAge < 0 then .error .negativeMaxAge else
    if ty == .summary && (if vec.maxAge == 0 then 600000000000 else vec.maxAge) / ((if vec.ageBuckets == 0 then 5 else vec.ageBuckets) : Int) == 0
    then .error .summaryHang else X := by
  unfold ctorPanic
  exact match3 _ _ _ _ _ _ _

theorem Reg.getOrCreate_eq (r : Reg V) (ty : MType) (a : GetArgs V) (now : Int) :
    r.getOrCreate ty a now =
      if r.isHit ty a then .ok (.ok (r.touch a now)) else
      if r.conflicts a.name ty then .ok (.error .conflict) else
      if r.companion ty a.name then .ok (.error .conflict) else
      if labelNamesBad (a.labels.map (·.1)) (reservedFor ty) then .ok (.error .reservedLabel) else
      match ctorPanic ty (r.vecFor ty a) with
      | some pn => .error pn
      | none => .ok (.ok (r.create ty a now)) := by
  rw [ctorPanic_match]
  unfold Reg.getOrCreate
  cases ty <;> rfl

/-! ### `find` through `updateMetric` -/

theorem find_updateMetric (r : Reg V) (name : Bytes) (f : MetricM V → MetricM V)
    (hf : ∀ m, (f m).name = m.name) (name' : Bytes) :
    (updateMetric r name f).find name' = if name' = name then (r.find name).map f else r.find name' := by
  unfold Reg.find updateMetric
  have hp : ∀ x : MetricM V, ((if x.name == name then f x else x).name == name') = (x.name == name') := by
    intro x; split <;> simp [hf]
  simp only
  rw [find?_map_keep _ _ _ hp]
  by_cases hn : name' = name
  · subst hn
    simp only [if_true]
    cases h : r.metrics.find? (fun m => m.name == name') with
    | none => rfl
    | some x =>
      have := List.find?_some h
      simp only [Option.map_some, this, if_true]
  · simp only [hn, if_false]
    cases h : r.metrics.find? (fun m => m.name == name') with
    | none => rfl
    | some x =>
      have hx : x.name = name' := by simpa using List.find?_some h
      have : (x.name == name) = false := by simp [hx, hn]
      simp only [Option.map_some, this]
      rfl

theorem find?_key_of_mem {α κ : Type} [BEq κ] [LawfulBEq κ] (key : α → κ) (l : List α)
    (h : (l.map key).Nodup) (x : α) (hx : x ∈ l) : l.find? (fun y => key y == key x) = some x := by
  induction l with
  | nil => cases hx
  | cons y t ih =>
    rw [List.map_cons, List.nodup_cons] at h
    rcases List.mem_cons.mp hx with e | hxt
    · subst e; simp
    · have hne : (key y == key x) = false := by
        cases hk : key y == key x with
        | false => rfl
        | true =>
          have : key y = key x := by simpa using hk
          exact absurd (this ▸ List.mem_map_of_mem (f := key) hxt) h.1
      rw [List.find?_cons, hne]
      exact ih h.2 hxt

/-! ### the hit path -/

theorem touchSeries_labels (a : GetArgs V) (now : Int) (s : Series V) : (touchSeries a now s).labels = s.labels := by
  unfold touchSeries; split <;> rfl

theorem find_touch (r : Reg V) (a : GetArgs V) (now : Int) (name : Bytes) :
    (r.touch a now).find name =
      if name = a.name then (r.find a.name).map fun m => { m with series := m.series.map (touchSeries a now) }
      else r.find name :=
  find_updateMetric r a.name (fun m => { m with series := m.series.map (touchSeries a now) }) (fun _ => rfl) name

theorem type?_touch (r : Reg V) (a : GetArgs V) (now : Int) (name : Bytes) :
    (r.touch a now).type? name = r.type? name := by
  unfold Reg.type?
  rw [find_touch]
  split
  · rename_i h; subst h; cases r.find a.name <;> rfl
  · rfl

theorem vec?_touch (r : Reg V) (a : GetArgs V) (now : Int) (name : Bytes) (names : List Bytes) :
    (r.touch a now).vec? name names = r.vec? name names := by
  unfold Reg.vec?
  rw [find_touch]
  split
  · rename_i h; subst h; cases r.find a.name <;> rfl
  · rfl

theorem series?_touch (r : Reg V) (a : GetArgs V) (now : Int) (name : Bytes) (L : Labels) :
    (r.touch a now).series? name L =
      if name = a.name ∧ L = a.labels then (r.series? name L).map fun s => { s with last := now, ttl := a.ttl }
      else r.series? name L := by
  unfold Reg.series?
  rw [find_touch]
  by_cases hn : name = a.name
  · subst hn
    simp only [if_true, true_and]
    cases r.find a.name with
    | none => simp
    | some m =>
      simp only [Option.map_some, Option.bind_some]
      rw [find?_map_keep _ _ _ (fun x => by rw [touchSeries_labels])]
      cases hs : m.series.find? (fun s => s.labels == L) with
      | none => simp
      | some s =>
        have hsl : s.labels = L := by simpa using List.find?_some hs
        by_cases hL : L = a.labels
        · simp [touchSeries, hsl, hL]
        · simp [touchSeries, hsl, hL]
  · simp [hn]

/-! ### the creation path -/

def newMetric (ty : MType) (name : Bytes) : MetricM V := { name := name, ty := ty, vecs := [], series := [] }

theorem find_withMetric (r : Reg V) (ty : MType) (name name' : Bytes) :
    (r.withMetric ty name).find name' =
      if name' = name then some ((r.find name).getD (newMetric ty name)) else r.find name' := by
  unfold Reg.withMetric
  cases h : r.find name with
  | some m =>
    simp only [Option.isSome_some, if_true, Option.getD_some]
    split
    · rename_i e; subst e; exact h
    · rfl
  | none =>
    simp only [Option.isSome_none, Bool.false_eq_true, if_false, Option.getD_none]
    unfold Reg.find at h ⊢
    simp only [List.find?_append]
    by_cases e : name' = name
    · subst e; simp [h, newMetric]
    · have : (name == name') = false := by simpa using fun h' => e h'.symm
      simp [e, this]

theorem find_create (r : Reg V) (ty : MType) (a : GetArgs V) (now : Int) (name : Bytes) :
    (r.create ty a now).find name =
      if name = a.name then some (storeIn ty r a now ((r.find a.name).getD (newMetric ty a.name))) else r.find name := by
  unfold Reg.create
  rw [find_updateMetric _ _ (storeIn ty r a now) (fun _ => rfl), find_withMetric, find_withMetric]
  by_cases e : name = a.name
  · simp [e]
  · simp [e]

/-- on the creation path the metric, if it exists, has the requested type and no series with these labels -/
theorem create_pre (r : Reg V) (ty : MType) (a : GetArgs V)
    (hh : r.isHit ty a = false) (hc : r.conflicts a.name ty = false) (m : MetricM V) (hm : r.find a.name = some m) :
    m.ty = ty ∧ m.series.find? (·.labels == a.labels) = none := by
  unfold Reg.conflicts at hc
  unfold Reg.isHit at hh
  rw [hm] at hc hh
  have hty : m.ty = ty := by simpa using hc
  refine ⟨hty, ?_⟩
  simp only [hty, beq_self_eq_true, Bool.true_and] at hh
  rw [List.find?_eq_none]
  intro x hx hl
  have : m.series.any (·.labels == a.labels) = true := List.any_eq_true.mpr ⟨x, hx, hl⟩
  rw [hh] at this; cases this

theorem type?_create (r : Reg V) (ty : MType) (a : GetArgs V) (now : Int)
    (hh : r.isHit ty a = false) (hc : r.conflicts a.name ty = false) (name : Bytes) :
    (r.create ty a now).type? name = if name = a.name then some ty else r.type? name := by
  unfold Reg.type?
  rw [find_create]
  by_cases e : name = a.name
  · simp only [e, if_true, Option.map_some]
    cases hm : r.find a.name with
    | none => rfl
    | some m => simp [storeIn, (create_pre r ty a hh hc m hm).1]
  · simp [e]

theorem series?_create (r : Reg V) (ty : MType) (a : GetArgs V) (now : Int)
    (hh : r.isHit ty a = false) (hc : r.conflicts a.name ty = false) (name : Bytes) (L : Labels) :
    (r.create ty a now).series? name L =
      if name = a.name ∧ L = a.labels then some (freshSeries ty (r.vecFor ty a) a now) else r.series? name L := by
  unfold Reg.series?
  rw [find_create]
  by_cases e : name = a.name
  · subst e
    simp only [if_true, true_and, Option.bind_some, storeIn, List.find?_append]
    by_cases hL : L = a.labels
    · subst hL
      cases hm : r.find a.name with
      | none => simp [newMetric, freshSeries]
      | some m => simp [(create_pre r ty a hh hc m hm).2, freshSeries]
    · have : (a.labels == L) = false := by simpa using fun h' => hL h'.symm
      cases hm : r.find a.name with
      | none => simp [newMetric, freshSeries, hL, this]
      | some m => simp [freshSeries, hL, this]
  · simp [e]

/-- vectors are never removed or changed by a creation -/
theorem vec?_create_keep (r : Reg V) (ty : MType) (a : GetArgs V) (now : Int) (name : Bytes) (names : List Bytes)
    (v : VecM V) (h : r.vec? name names = some v) : (r.create ty a now).vec? name names = some v := by
  unfold Reg.vec? at h ⊢
  rw [find_create]
  by_cases e : name = a.name
  · subst e
    cases hm : r.find a.name with
    | none => rw [hm] at h; cases h
    | some m =>
      rw [hm] at h
      simp only [Option.bind_some] at h
      simp only [if_true, Option.getD_some, Option.bind_some, storeIn]
      split
      · exact h
      · rw [List.find?_append, h]; rfl
  · simpa [e] using h

/-- after a creation the vector with the series' label names exists: it is `vecFor` -/
theorem vec?_create_self (r : Reg V) (ty : MType) (a : GetArgs V) (now : Int)
    (hh : r.isHit ty a = false) (hc : r.conflicts a.name ty = false) :
    (r.create ty a now).vec? a.name (a.labels.map (·.1)) = some (r.vecFor ty a) := by
  unfold Reg.vec?
  rw [find_create]
  simp only [if_true, Option.bind_some, storeIn]
  unfold Reg.vecFor Reg.existingVec
  cases hm : r.find a.name with
  | none => simp [newMetric]
  | some m =>
    have hty := (create_pre r ty a hh hc m hm).1
    simp only [Option.bind_some, hty, beq_self_eq_true, if_true, Option.getD_some]
    cases hv : m.vecs.find? (fun v => v.names == a.labels.map (·.1)) with
    | some v => simp [hv]
    | none => simp [List.find?_append, hv]

/-! ### inversion of a successful `getOrCreate` -/

theorem getOrCreate_ok_cases {r r' : Reg V} {ty : MType} {a : GetArgs V} {now : Int}
    (h : r.getOrCreate ty a now = .ok (.ok r')) :
    (r.isHit ty a = true ∧ r' = r.touch a now) ∨
    (r.isHit ty a = false ∧ r.conflicts a.name ty = false ∧ r.companion ty a.name = false ∧
      labelNamesBad (a.labels.map (·.1)) (reservedFor ty) = false ∧ ctorPanic ty (r.vecFor ty a) = none ∧
      r' = r.create ty a now) := by
  rw [Reg.getOrCreate_eq] at h
  by_cases h1 : r.isHit ty a = true
  · left
    rw [if_pos h1] at h
    injection h with h; injection h with h
    exact ⟨h1, h.symm⟩
  · right
    rw [if_neg h1] at h
    by_cases h2 : r.conflicts a.name ty = true
    · rw [if_pos h2] at h; injection h with h; cases h
    · rw [if_neg h2] at h
      by_cases h3 : r.companion ty a.name = true
      · rw [if_pos h3] at h; injection h with h; cases h
      · rw [if_neg h3] at h
        by_cases h4 : labelNamesBad (a.labels.map (·.1)) (reservedFor ty) = true
        · rw [if_pos h4] at h; injection h with h; cases h
        · rw [if_neg h4] at h
          cases h5 : ctorPanic ty (r.vecFor ty a) with
          | some pn => rw [h5] at h; cases h
          | none =>
            rw [h5] at h
            injection h with h; injection h with h
            exact ⟨by simpa using h1, by simpa using h2, by simpa using h3, by simpa using h4, rfl, h.symm⟩

theorem isHit_iff (r : Reg V) (ty : MType) (a : GetArgs V) :
    r.isHit ty a = true ↔ r.type? a.name = some ty ∧ (r.series? a.name a.labels).isSome = true := by
  unfold Reg.isHit Reg.type? Reg.series?
  cases r.find a.name with
  | none => simp
  | some m =>
    simp only [Option.map_some, Option.bind_some, Bool.and_eq_true, beq_iff_eq, Option.some.injEq,
      List.any_eq_true, List.find?_isSome]

/-- a rejected or panicking `getOrCreate` yields no registry at all (F1, by construction of the result type) -/
theorem getOrCreate_no_reg_on_error {r : Reg V} {ty : MType} {a : GetArgs V} {now : Int} :
    (∀ e, r.getOrCreate ty a now = .ok (.error e) → ∀ r', r.getOrCreate ty a now ≠ .ok (.ok r')) ∧
    (∀ pn, r.getOrCreate ty a now = .error pn → ∀ r', r.getOrCreate ty a now ≠ .ok (.ok r')) := by
  constructor
  · intro e h r' h'; rw [h] at h'; injection h' with h'; cases h'
  · intro pn h r' h'; rw [h] at h'; cases h'

/-! ### `updateSeries` -/

/-- what `updateSeries` does to the addressed series: apply `f` with the series' vector (if there is one) -/
def applyUpd (r : Reg V) (name : Bytes) (labels : Labels) (f : VecM V → Series V → Series V) (s : Series V) : Series V :=
  match r.vec? name (labels.map (·.1)) with
  | some v => f v s
  | none => s

def updSeriesIn (labels : Labels) (f : VecM V → Series V → Series V) (m : MetricM V) : MetricM V :=
  { m with series := m.series.map fun s =>
      if s.labels == labels then
        match m.vecs.find? (·.names == labels.map (·.1)) with
        | some v => f v s
        | none => s
      else s }

theorem updateSeries_eq (r : Reg V) (name : Bytes) (labels : Labels) (f : VecM V → Series V → Series V) :
    updateSeries r name labels f = updateMetric r name (updSeriesIn labels f) := rfl

theorem find_updateSeries (r : Reg V) (name : Bytes) (labels : Labels) (f : VecM V → Series V → Series V) (name' : Bytes) :
    (updateSeries r name labels f).find name' =
      if name' = name then (r.find name).map (updSeriesIn labels f) else r.find name' := by
  rw [updateSeries_eq]; exact find_updateMetric r name (updSeriesIn labels f) (fun _ => rfl) name'

theorem type?_updateSeries (r : Reg V) (name : Bytes) (labels : Labels) (f : VecM V → Series V → Series V) (name' : Bytes) :
    (updateSeries r name labels f).type? name' = r.type? name' := by
  unfold Reg.type?
  rw [find_updateSeries]
  split
  · rename_i h; subst h; cases r.find name' <;> rfl
  · rfl

theorem vec?_updateSeries (r : Reg V) (name : Bytes) (labels : Labels) (f : VecM V → Series V → Series V)
    (name' : Bytes) (names : List Bytes) :
    (updateSeries r name labels f).vec? name' names = r.vec? name' names := by
  unfold Reg.vec?
  rw [find_updateSeries]
  split
  · rename_i h; subst h; cases r.find name' <;> rfl
  · rfl

/-- (F3) `updateSeries` changes only the series with that name and those labels -/
theorem series?_updateSeries (r : Reg V) (name : Bytes) (labels : Labels) (f : VecM V → Series V → Series V)
    (hf : ∀ v s, (f v s).labels = s.labels) (name' : Bytes) (L : Labels) :
    (updateSeries r name labels f).series? name' L =
      if name' = name ∧ L = labels then (r.series? name labels).map (applyUpd r name labels f)
      else r.series? name' L := by
  unfold Reg.series?
  rw [find_updateSeries]
  by_cases hn : name' = name
  · subst hn
    simp only [if_true, true_and]
    unfold applyUpd Reg.vec?
    cases r.find name' with
    | none => simp
    | some m =>
      simp only [Option.map_some, Option.bind_some, updSeriesIn]
      rw [find?_map_keep]
      · cases hs : m.series.find? (fun s => s.labels == L) with
        | none =>
          by_cases hL : L = labels
          · subst hL; simp [hs]
          · simp [hL]
        | some s =>
          have hsl : s.labels = L := by simpa using List.find?_some hs
          by_cases hL : L = labels
          · subst hL; simp [hsl, hs]
          · simp [hsl, hL]
      · intro x
        split
        · split
          · rw [hf]
          · rfl
        · rfl
  · simp [hn]

/-! ### (F2) the frame of a successful `getOrCreate`, in terms of lookups -/

section frame
variable {r r' : Reg V} {ty : MType} {a : GetArgs V} {now : Int}

/-- every series other than the addressed one is untouched (same `ttl`, `last`, `f`, `n`, `bk`) -/
theorem getOrCreate_series_frame (hg : r.getOrCreate ty a now = .ok (.ok r')) (name : Bytes) (L : Labels)
    (hne : ¬(name = a.name ∧ L = a.labels)) : r'.series? name L = r.series? name L := by
  rcases getOrCreate_ok_cases hg with ⟨_, e⟩ | ⟨hh, hc, _, _, _, e⟩
  · subst e; rw [series?_touch, if_neg hne]
  · subst e; rw [series?_create r ty a now hh hc, if_neg hne]

/-- the type of every name: the addressed name has the requested type, all others are as before -/
theorem getOrCreate_type? (hg : r.getOrCreate ty a now = .ok (.ok r')) (name : Bytes) :
    r'.type? name = if name = a.name then some ty else r.type? name := by
  rcases getOrCreate_ok_cases hg with ⟨hh, e⟩ | ⟨hh, hc, _, _, _, e⟩
  · subst e
    rw [type?_touch]
    split
    · rename_i h; subst h; exact ((isHit_iff r ty a).mp hh).1
    · rfl
  · subst e; exact type?_create r ty a now hh hc name

/-- the type of every pre-existing metric is unchanged -/
theorem getOrCreate_type_keep (hg : r.getOrCreate ty a now = .ok (.ok r')) (name : Bytes) (t : MType)
    (h : r.type? name = some t) : r'.type? name = some t := by
  rcases getOrCreate_ok_cases hg with ⟨hh, e⟩ | ⟨hh, hc, _, _, _, e⟩
  · subst e; rw [type?_touch]; exact h
  · subst e
    rw [type?_create r ty a now hh hc]
    split
    · rename_i hn; subst hn
      unfold Reg.type? at h
      cases hm : r.find a.name with
      | none => rw [hm] at h; cases h
      | some m =>
        rw [hm] at h
        simp only [Option.map_some, Option.some.injEq] at h
        rw [← h, (create_pre r ty a hh hc m hm).1]
    · exact h

/-- vectors (help, buckets, summary options) are fixed at creation and never change -/
theorem getOrCreate_vec_keep (hg : r.getOrCreate ty a now = .ok (.ok r')) (name : Bytes) (names : List Bytes)
    (v : VecM V) (h : r.vec? name names = some v) : r'.vec? name names = some v := by
  rcases getOrCreate_ok_cases hg with ⟨_, e⟩ | ⟨_, _, _, _, _, e⟩
  · subst e; rw [vec?_touch]; exact h
  · subst e; exact vec?_create_keep r ty a now name names v h

/-- the addressed series afterwards: clock and ttl restarted; value unchanged (hit) or zero (created) -/
theorem getOrCreate_addressed (hg : r.getOrCreate ty a now = .ok (.ok r')) :
    ∃ s, r'.series? a.name a.labels = some s ∧ s.labels = a.labels ∧ s.last = now ∧ s.ttl = a.ttl ∧
      ((∃ s0, r.series? a.name a.labels = some s0 ∧ r.type? a.name = some ty ∧
          s = { s0 with last := now, ttl := a.ttl }) ∨
       (r.series? a.name a.labels = none ∧ s = freshSeries ty (r.vecFor ty a) a now ∧
          r'.vec? a.name (a.labels.map (·.1)) = some (r.vecFor ty a))) := by
  rcases getOrCreate_ok_cases hg with ⟨hh, e⟩ | ⟨hh, hc, _, _, _, e⟩
  · subst e
    obtain ⟨hty, hs⟩ := (isHit_iff r ty a).mp hh
    cases hs0 : r.series? a.name a.labels with
    | none => rw [hs0] at hs; cases hs
    | some s0 =>
      have hl : s0.labels = a.labels := by
        unfold Reg.series? at hs0
        cases hm : r.find a.name with
        | none => rw [hm] at hs0; cases hs0
        | some m => rw [hm] at hs0; simpa using List.find?_some hs0
      refine ⟨{ s0 with last := now, ttl := a.ttl }, ?_, hl, rfl, rfl, Or.inl ⟨s0, rfl, hty, rfl⟩⟩
      rw [series?_touch, if_pos ⟨rfl, rfl⟩, hs0]; rfl
  · subst e
    refine ⟨freshSeries ty (r.vecFor ty a) a now, ?_, rfl, rfl, rfl, Or.inr ⟨?_, rfl, vec?_create_self r ty a now hh hc⟩⟩
    · rw [series?_create r ty a now hh hc, if_pos ⟨rfl, rfl⟩]
    · cases hs0 : r.series? a.name a.labels with
      | none => rfl
      | some s0 =>
        cases hm : r.find a.name with
        | none => unfold Reg.series? at hs0; rw [hm] at hs0; cases hs0
        | some m =>
          have hty : r.type? a.name = some ty := by
            unfold Reg.type?; rw [hm]; simp [(create_pre r ty a hh hc m hm).1]
          have : r.isHit ty a = true := (isHit_iff r ty a).mpr ⟨hty, by rw [hs0]; rfl⟩
          rw [hh] at this; cases this

theorem freshSeries_isFresh (ty : MType) (vec : VecM V) (a : GetArgs V) (now : Int) :
    (freshSeries ty vec a now).isFresh :=
  ⟨rfl, rfl, fun _ hx => (List.mem_replicate.mp hx).2⟩

end frame

/-! ### what the conflict checks check -/

theorem conflicts_iff (r : Reg V) (name : Bytes) (ty : MType) :
    r.conflicts name ty = true ↔ ∃ t, r.type? name = some t ∧ t ≠ ty := by
  unfold Reg.conflicts Reg.type?
  cases r.find name with
  | none => simp
  | some m => simp

theorem suffix_trim (suf name : Bytes) (h : suf.isSuffixOf name = true) :
    name = trimSuffix suf name ++ suf := by
  obtain ⟨t, ht⟩ := List.isSuffixOf_iff_suffix.mp h
  unfold trimSuffix
  rw [if_pos h, ← ht]
  have : (t ++ suf).length - suf.length = t.length := by simp
  rw [this, List.take_left' rfl]

theorem trim_append (suf base : Bytes) : suf.isSuffixOf (base ++ suf) = true ∧ trimSuffix suf (base ++ suf) = base := by
  have h : suf.isSuffixOf (base ++ suf) = true := List.isSuffixOf_iff_suffix.mpr ⟨base, rfl⟩
  refine ⟨h, ?_⟩
  unfold trimSuffix
  rw [if_pos h]
  have : (base ++ suf).length - suf.length = base.length := by simp
  rw [this, List.take_left' rfl]

/-- `checkHistogramNameCollision`: the name ends in `_bucket/_count/_sum` and what precedes the suffix
    is registered with a type other than counter -/
theorem histNameCollision_iff (r : Reg V) (name : Bytes) :
    r.histNameCollision name = true ↔
      ∃ suf, suf ∈ [sfxBucket, sfxCount, sfxSum] ∧ ∃ base, name = base ++ suf ∧
        ∃ t, r.type? base = some t ∧ t ≠ .counter := by
  unfold Reg.histNameCollision
  rw [List.any_eq_true]
  constructor
  · rintro ⟨suf, hs, h⟩
    rw [Bool.and_eq_true] at h
    exact ⟨suf, hs, trimSuffix suf name, suffix_trim suf name h.1, (conflicts_iff r _ _).mp h.2⟩
  · rintro ⟨suf, hs, base, hb, ht⟩
    refine ⟨suf, hs, ?_⟩
    subst hb
    rw [Bool.and_eq_true, (trim_append suf base).2]
    exact ⟨(trim_append suf base).1, (conflicts_iff r _ _).mpr ht⟩

/-- `_, ok := r.Metrics[name]`: the name is registered, with whatever type -/
theorem taken_iff (r : Reg V) (name : Bytes) : r.taken name = true ↔ ∃ t, r.type? name = some t := by
  unfold Reg.taken Reg.type?
  cases r.find name with
  | none => simp
  | some m => simp

theorem taken_false_iff (r : Reg V) (name : Bytes) : r.taken name = false ↔ r.type? name = none := by
  unfold Reg.taken Reg.type?
  cases r.find name with
  | none => simp
  | some m => simp

/-- the companion-name checks, spelled out: the base-name clause of `checkHistogramNameCollision` for every
    type; for observers additionally "one of my companion names is registered at all" -/
theorem companion_iff (r : Reg V) (ty : MType) (name : Bytes) :
    r.companion ty name = true ↔
      r.histNameCollision name = true ∨
      (ty = .histogram ∧ ∃ suf, suf ∈ [sfxSum, sfxCount, sfxBucket] ∧ ∃ t, r.type? (name ++ suf) = some t) ∨
      (ty = .summary ∧ ∃ suf, suf ∈ [sfxSum, sfxCount] ∧ ∃ t, r.type? (name ++ suf) = some t) := by
  cases ty with
  | counter => simp [Reg.companion]
  | gauge => simp [Reg.companion]
  | histogram =>
    simp only [Reg.companion, Bool.or_eq_true, taken_iff, reduceCtorEq, false_and, or_false, true_and,
      List.mem_cons, List.not_mem_nil]
    constructor
    · rintro (((h | h) | h) | h)
      · exact Or.inr ⟨_, Or.inl rfl, h⟩
      · exact Or.inr ⟨_, Or.inr (Or.inl rfl), h⟩
      · exact Or.inr ⟨_, Or.inr (Or.inr rfl), h⟩
      · exact Or.inl h
    · rintro (h | ⟨suf, (rfl | rfl | rfl), h⟩)
      · exact Or.inr h
      · exact Or.inl (Or.inl (Or.inl h))
      · exact Or.inl (Or.inl (Or.inr h))
      · exact Or.inl (Or.inr h)
  | summary =>
    simp only [Reg.companion, Bool.or_eq_true, taken_iff, reduceCtorEq, false_and, false_or, true_and,
      List.mem_cons, List.not_mem_nil, or_false]
    constructor
    · rintro ((h | h) | h)
      · exact Or.inr ⟨_, Or.inl rfl, h⟩
      · exact Or.inr ⟨_, Or.inr rfl, h⟩
      · exact Or.inl h
    · rintro (h | ⟨suf, (rfl | rfl), h⟩)
      · exact Or.inr h
      · exact Or.inl (Or.inl h)
      · exact Or.inl (Or.inr h)

/-- what a passed companion check establishes: the name is no companion name of a registered non-counter, and
    no companion name of the requested observer is registered -/
theorem companion_false {r : Reg V} {ty : MType} {name : Bytes} (h : r.companion ty name = false) :
    r.histNameCollision name = false ∧
    (ty = .histogram → r.type? (name ++ sfxSum) = none ∧ r.type? (name ++ sfxCount) = none ∧ r.type? (name ++ sfxBucket) = none) ∧
    (ty = .summary → r.type? (name ++ sfxSum) = none ∧ r.type? (name ++ sfxCount) = none) := by
  cases ty with
  | counter => exact ⟨h, fun e => (by cases e), fun e => (by cases e)⟩
  | gauge => exact ⟨h, fun e => (by cases e), fun e => (by cases e)⟩
  | histogram =>
    simp only [Reg.companion, Bool.or_eq_false_iff, taken_false_iff] at h
    exact ⟨h.2, fun _ => ⟨h.1.1.1, h.1.1.2, h.1.2⟩, fun e => (by cases e)⟩
  | summary =>
    simp only [Reg.companion, Bool.or_eq_false_iff, taken_false_iff] at h
    exact ⟨h.2, fun e => (by cases e), fun _ => ⟨h.1.1, h.1.2⟩⟩

theorem getOrCreate_conflict_iff (r : Reg V) (ty : MType) (a : GetArgs V) (now : Int) :
    r.getOrCreate ty a now = .ok (.error .conflict) ↔
      r.isHit ty a = false ∧ (r.conflicts a.name ty = true ∨ r.companion ty a.name = true) := by
  rw [Reg.getOrCreate_eq]
  by_cases h1 : r.isHit ty a = true
  · simp [h1]
  · by_cases h2 : r.conflicts a.name ty = true
    · simp [h1, h2]
    · by_cases h3 : r.companion ty a.name = true
      · simp [h1, h2, h3]
      · simp only [h1, h2, h3, if_false, Bool.false_eq_true, or_self, and_false, iff_false]
        split
        · intro h; injection h with h; injection h with h; cases h
        · split <;> intro h <;> cases h

/-! ### (F2) at the level of the metric list: every metric with another name is literally unchanged -/

theorem filter_map_fix {α : Type} (l : List α) (g : α → α) (q : α → Bool) (hq : ∀ x, q (g x) = q x)
    (hfix : ∀ x, q x = true → g x = x) : (l.map g).filter q = l.filter q := by
  induction l with
  | nil => rfl
  | cons x t ih =>
    simp only [List.map_cons, List.filter_cons, hq]
    cases hx : q x with
    | true => simp only [if_true, hfix x hx, ih]
    | false => simpa using ih

theorem updateMetric_others (r : Reg V) (name : Bytes) (f : MetricM V → MetricM V) (hf : ∀ m, (f m).name = m.name) :
    (updateMetric r name f).metrics.filter (·.name != name) = r.metrics.filter (·.name != name) := by
  unfold updateMetric
  apply filter_map_fix
  · intro x; split <;> simp [hf]
  · intro x hx
    have : (x.name == name) = false := by simpa using hx
    simp [this]

/-- the metrics with another name — their type, vectors and all their series, in order — are the same
    list before and after a successful `getOrCreate` -/
theorem getOrCreate_others {r r' : Reg V} {ty : MType} {a : GetArgs V} {now : Int}
    (hg : r.getOrCreate ty a now = .ok (.ok r')) :
    r'.metrics.filter (·.name != a.name) = r.metrics.filter (·.name != a.name) ∧ r'.pre = r.pre := by
  rcases getOrCreate_ok_cases hg with ⟨_, e⟩ | ⟨_, _, _, _, _, e⟩
  · subst e
    exact ⟨updateMetric_others r a.name _ (fun _ => rfl), rfl⟩
  · subst e
    unfold Reg.create
    refine ⟨?_, ?_⟩
    · rw [updateMetric_others _ a.name (storeIn ty r a now) (fun _ => rfl)]
      unfold Reg.withMetric
      split
      · rfl
      · simp [List.filter_append]
    · unfold Reg.withMetric updateMetric
      split <;> rfl

/-- … and after `updateSeries` -/
theorem updateSeries_others (r : Reg V) (name : Bytes) (labels : Labels) (f : VecM V → Series V → Series V) :
    (updateSeries r name labels f).metrics.filter (·.name != name) = r.metrics.filter (·.name != name) ∧
    (updateSeries r name labels f).pre = r.pre := by
  rw [updateSeries_eq]
  exact ⟨updateMetric_others r name (updSeriesIn labels f) (fun _ => rfl), rfl⟩

end SE
