import SE.Model.Hash
/-
What can be proved about the FNV-64a model (SE/Model/Hash.lean) without pretending it is collision free:
every step is a bijection of the 64-bit state for a fixed byte and injective in the byte for a fixed state.
Consequences: a common suffix can be cancelled, inputs that differ in exactly one byte never collide, and
the values hash is the names hash continued over `ValueBuf`.
-/
namespace SE

/-- the multiplicative inverse of the FNV prime modulo 2^64 (the prime is odd) -/
def fnvPrimeInv : BitVec 64 := 14886173955864302971#64

theorem fnvPrime_mul_inv : fnvPrime * fnvPrimeInv = 1#64 := by decide

theorem mul_fnvPrime_inj {a b : BitVec 64} (h : a * fnvPrime = b * fnvPrime) : a = b := by
  have h2 : a * fnvPrime * fnvPrimeInv = b * fnvPrime * fnvPrimeInv := by rw [h]
  rw [BitVec.mul_assoc, BitVec.mul_assoc, fnvPrime_mul_inv, BitVec.mul_one, BitVec.mul_one] at h2
  exact h2

theorem xor_cancel_right {a b c : BitVec 64} (h : a ^^^ c = b ^^^ c) : a = b := by
  have h2 : a ^^^ c ^^^ c = b ^^^ c ^^^ c := by rw [h]
  rw [BitVec.xor_assoc, BitVec.xor_assoc, BitVec.xor_self, BitVec.xor_zero, BitVec.xor_zero] at h2
  exact h2

theorem xor_cancel_left {a b c : BitVec 64} (h : c ^^^ a = c ^^^ b) : a = b := by
  rw [BitVec.xor_comm c a, BitVec.xor_comm c b] at h
  exact xor_cancel_right h

theorem byteWord_inj {a b : UInt8} (h : BitVec.ofNat 64 a.toNat = BitVec.ofNat 64 b.toNat) : a = b := by
  have h2 := congrArg BitVec.toNat h
  simp only [BitVec.toNat_ofNat] at h2
  have ha := a.toNat_lt
  have hb := b.toNat_lt
  apply UInt8.toNat_inj.mp
  omega

/-- for a fixed byte the step is injective in the state (it is a bijection of the 2^64 states) -/
theorem fnvStep_state_inj {h1 h2 : BitVec 64} {c : UInt8} (h : fnvStep h1 c = fnvStep h2 c) : h1 = h2 :=
  xor_cancel_right (mul_fnvPrime_inj h)

/-- for a fixed state the step is injective in the byte -/
theorem fnvStep_byte_inj {h0 : BitVec 64} {a b : UInt8} (h : fnvStep h0 a = fnvStep h0 b) : a = b :=
  byteWord_inj (xor_cancel_left (mul_fnvPrime_inj h))

/-- the inverse step: `fnvStep (fnvUnstep h c) c = h` -/
def fnvUnstep (h : BitVec 64) (c : UInt8) : BitVec 64 := (h * fnvPrimeInv) ^^^ BitVec.ofNat 64 c.toNat

theorem fnvStep_unstep (h : BitVec 64) (c : UInt8) : fnvStep (fnvUnstep h c) c = h := by
  unfold fnvStep fnvUnstep
  rw [BitVec.xor_assoc, BitVec.xor_self, BitVec.xor_zero, BitVec.mul_assoc,
    BitVec.mul_comm fnvPrimeInv fnvPrime, fnvPrime_mul_inv, BitVec.mul_one]

theorem fnvFrom_nil (h : BitVec 64) : fnvFrom h [] = h := rfl
theorem fnvFrom_cons (h : BitVec 64) (c : UInt8) (bs : Bytes) :
    fnvFrom h (c :: bs) = fnvFrom (fnvStep h c) bs := rfl
theorem fnvFrom_append (h : BitVec 64) (xs ys : Bytes) :
    fnvFrom h (xs ++ ys) = fnvFrom (fnvFrom h xs) ys := by
  simp [fnvFrom, List.foldl_append]

/-- writing the same bytes to two hashers keeps them apart (and together) -/
theorem fnvFrom_state_inj (bs : Bytes) : ∀ {h1 h2 : BitVec 64}, fnvFrom h1 bs = fnvFrom h2 bs → h1 = h2 := by
  induction bs with
  | nil => intro h1 h2 h; exact h
  | cons c bs ih => intro h1 h2 h; exact fnvStep_state_inj (ih h)

/-- every state is reachable from exactly one state by writing `bs` -/
theorem fnvFrom_state_surj (bs : Bytes) : ∀ h : BitVec 64, ∃ h0, fnvFrom h0 bs = h := by
  induction bs with
  | nil => intro h; exact ⟨h, rfl⟩
  | cons c bs ih =>
    intro h
    obtain ⟨h1, e⟩ := ih h
    exact ⟨fnvUnstep h1 c, by rw [fnvFrom_cons, fnvStep_unstep, e]⟩

theorem fnv64a_append (xs ys : Bytes) : fnv64a (xs ++ ys) = fnvFrom (fnv64a xs) ys :=
  fnvFrom_append _ _ _

/-- a common suffix neither creates nor hides a collision -/
theorem fnv64a_suffix_cancel (x y s : Bytes) : fnv64a (x ++ s) = fnv64a (y ++ s) ↔ fnv64a x = fnv64a y := by
  rw [fnv64a_append, fnv64a_append]
  exact ⟨fnvFrom_state_inj s, fun h => by rw [h]⟩

/-- two inputs that differ in exactly one byte never collide -/
theorem fnvFrom_one_byte (h0 : BitVec 64) (p s : Bytes) {a b : UInt8} (hab : a ≠ b) :
    fnvFrom h0 (p ++ a :: s) ≠ fnvFrom h0 (p ++ b :: s) := by
  intro h
  rw [fnvFrom_append, fnvFrom_append, fnvFrom_cons, fnvFrom_cons] at h
  exact hab (fnvStep_byte_inj (fnvFrom_state_inj s h))

theorem fnv64a_one_byte (p s : Bytes) {a b : UInt8} (hab : a ≠ b) :
    fnv64a (p ++ a :: s) ≠ fnv64a (p ++ b :: s) := fnvFrom_one_byte _ p s hab

/-- the values hash is FNV-64a of names input followed by values input (the hasher is not reset) -/
theorem valuesHash_eq (l : Labels) : valuesHash l = fnv64a (valuesHashInput l) := by
  simp [valuesHash, namesHash, valuesHashInput, fnv64a_append]

theorem namesHash_eq (l : Labels) : namesHash l = fnv64a (namesHashInput l) := rfl

end SE
