import SE.Model.Num
/-
Arithmetic facts about the value type, as a *hypothesis structure* (not axioms).
Lean's `Float` is opaque to the kernel, so nothing can be proved about it; the properties that
need arithmetic (C06) are stated for every value type `V` whose operations satisfy `FloatLaws V`.
Each field is a fact of IEEE-754 binary64 arithmetic with round-to-nearest-even, which is what
Go's float64 `+`, `<`, `<=`, `float64(uint64)` implement on amd64/arm64.

"ordinary non-negative" below means: not NaN and not `< 0` (so +0, -0, positive finite, +Inf).
-/
namespace SE
open NumOps

/-- not NaN and not negative: the values `counter.Add` accepts -/
def NonNeg {V : Type} [NumOps V] (x : V) : Prop := isNaN x = false ∧ ltZero x = false

structure FloatLaws (V : Type) [NumOps V] : Prop where
  /-- `0.0` is not NaN and not `< 0`. -/
  zero_ok : NonNeg (zero : V)
  /-- The sum of two ordinary non-negative doubles is an ordinary non-negative double: NaN only arises
      from NaN operands or `(+Inf) + (-Inf)`, and the rounded sum of two values `≥ 0` is `≥ 0`
      (overflow gives +Inf, which is neither NaN nor negative). -/
  add_ok : ∀ x y : V, NonNeg x → NonNeg y → NonNeg (add x y)
  /-- Adding an ordinary non-negative double never decreases: the exact sum is `≥ x` and rounding to
      nearest is monotone, so `x <= x + y`. -/
  le_add : ∀ x y : V, NonNeg x → NonNeg y → le x (add x y) = true
  /-- `float64(n)` of an unsigned integer is not NaN and not negative. -/
  ofNat_ok : ∀ n : Nat, NonNeg (ofNat n : V)
  /-- `float64(·)` on unsigned integers is monotone (rounding to nearest is monotone). -/
  ofNat_mono : ∀ m n : Nat, m ≤ n → le (ofNat m : V) (ofNat n) = true
  /-- Addition is monotone in both arguments on ordinary non-negative doubles (monotone rounding of
      a monotone exact operation; no `Inf - Inf` can occur among non-negative values). -/
  add_mono : ∀ x x' y y' : V, NonNeg x → NonNeg x' → NonNeg y → NonNeg y' →
    le x x' = true → le y y' = true → le (add x y) (add x' y') = true
  /-- `x <= x` for every non-NaN double. -/
  le_refl : ∀ x : V, isNaN x = false → le x x = true
  /-- `<=` is transitive (a comparison involving NaN is false, so the premises exclude NaN). -/
  le_trans : ∀ x y z : V, le x y = true → le y z = true → le x z = true

/-! ### Non-vacuity: the laws are satisfiable

A toy value type: the integers, with exact arithmetic, no NaN, and a faithful
`toUInt64Exact` (every integer in `[0, 2^64)` takes the integer path of `counter.Add`).
It is used for the concrete examples and counterexamples of the property files; it is *not*
an instance (it must be activated with `attribute [local instance] toyNumOps`). -/

@[reducible] def toyNumOps : NumOps Int where
  zero := 0
  one := 1
  thousand := 1000
  add := (· + ·)
  mul := (· * ·)
  div := (· / ·)
  isZero := (· == 0)
  ltZero := (· < 0)
  isNaN := fun _ => false
  le := fun x y => decide (x ≤ y)
  recipInt := fun x => 1 / x
  ofNat := fun n => (n : Int)
  lt := fun x y => decide (x < y)
  ge := fun x y => decide (x ≥ y)
  isPosInf := fun _ => false
  toUInt64Exact := fun x => if 0 ≤ x ∧ x < 18446744073709551616 then some x.toNat else none
  ceilMul := fun l q => l * q

theorem toy_floatLaws : @FloatLaws Int toyNumOps := by
  letI := toyNumOps
  refine ⟨⟨rfl, rfl⟩, ?_, ?_, ?_, ?_, ?_, ?_, ?_⟩
  · intro x y hx hy
    have hx2 : ¬ x < 0 := by have h : decide (x < 0) = false := hx.2; simpa using h
    have hy2 : ¬ y < 0 := by have h : decide (y < 0) = false := hy.2; simpa using h
    refine ⟨rfl, ?_⟩
    show decide (x + y < 0) = false
    simp only [decide_eq_false_iff_not]; omega
  · intro x y _ hy
    have hy2 : ¬ y < 0 := by have h : decide (y < 0) = false := hy.2; simpa using h
    show decide (x ≤ x + y) = true
    simp only [decide_eq_true_eq]; omega
  · intro n
    refine ⟨rfl, ?_⟩
    show decide ((n : Int) < 0) = false
    simp only [decide_eq_false_iff_not]; omega
  · intro m n h
    show decide ((m : Int) ≤ (n : Int)) = true
    simp only [decide_eq_true_eq]; omega
  · intro x x' y y' _ _ _ _ h1 h2
    have h1' : x ≤ x' := by have h : decide (x ≤ x') = true := h1; simpa using h
    have h2' : y ≤ y' := by have h : decide (y ≤ y') = true := h2; simpa using h
    show decide (x + y ≤ x' + y') = true
    simp only [decide_eq_true_eq]; omega
  · intro x _
    show decide (x ≤ x) = true
    simp
  · intro x y z h1 h2
    have h1' : x ≤ y := by have h : decide (x ≤ y) = true := h1; simpa using h
    have h2' : y ≤ z := by have h : decide (y ≤ z) = true := h2; simpa using h
    show decide (x ≤ z) = true
    simp only [decide_eq_true_eq]; omega

end SE
