import SE.Model.Registry
/-
Vocabulary for the registry properties (C05–C08): how a registry is *read* (the series / type /
vector a name resolves to), the well-formedness invariant the registry maintains, and the
pointwise descriptions of a refreshed and of a newly created series.
Nothing here changes the model; these are definitions the property statements are phrased in.
-/
namespace SE
variable {V : Type} [NumOps V]

/-- the series the registry holds for (metric name, sorted label set), if any -/
def Reg.series? (r : Reg V) (name : Bytes) (labels : Labels) : Option (Series V) :=
  (r.find name).bind fun m => m.series.find? (·.labels == labels)

/-- the type the metric name is registered with, if any -/
def Reg.type? (r : Reg V) (name : Bytes) : Option MType := (r.find name).map (·.ty)

/-- the vector (label names ↦ help, buckets, summary options) of a metric name -/
def Reg.vec? (r : Reg V) (name : Bytes) (names : List Bytes) : Option (VecM V) :=
  (r.find name).bind fun m => m.vecs.find? (·.names == names)

/-- `s` is a series of the metric called `name` (membership reading, independent of lookups) -/
def Reg.HasSeries (r : Reg V) (name : Bytes) (s : Series V) : Prop :=
  ∃ m, m ∈ r.metrics ∧ m.name = name ∧ s ∈ m.series

/-- Well-formedness of a registry: what the Go maps guarantee by construction.
    * metric names are pairwise distinct (`map[string]*registeredMetric…` keyed by name),
    * within a metric the label sets are pairwise distinct (keyed by the values hash),
    * every series belongs to a vector with exactly its label names (keyed by the names hash). -/
structure RegWF (r : Reg V) : Prop where
  names_nodup : (r.metrics.map (·.name)).Nodup
  labels_nodup : ∀ m, m ∈ r.metrics → (m.series.map (·.labels)).Nodup
  has_vec : ∀ m, m ∈ r.metrics → ∀ s, s ∈ m.series → ∃ v, v ∈ m.vecs ∧ v.names = s.labels.map (·.1)

/-- no registered metric is named like a companion series (`_sum`, `_count`, for histograms also `_bucket`)
    of a registered observer: the statsd families cannot collide by suffix in `Gather` -/
def SuffixFree (r : Reg V) : Prop :=
  ∀ m ∈ r.metrics, ∀ m' ∈ r.metrics,
    (m.ty = .histogram → m'.name ≠ m.name ++ sfxSum ∧ m'.name ≠ m.name ++ sfxCount ∧ m'.name ≠ m.name ++ sfxBucket) ∧
    (m.ty = .summary → m'.name ≠ m.name ++ sfxSum ∧ m'.name ≠ m.name ++ sfxCount)

/-- all vectors of one metric entry carry the same help string -/
def HelpUniform (r : Reg V) : Prop := ∀ m ∈ r.metrics, ∀ v ∈ m.vecs, ∀ w ∈ m.vecs, v.help = w.help

/-- the names of the companion series a family `name` of type `ty` exposes besides its own name: `_count` and
    `_sum` for a summary, also `_bucket` for a histogram, none for a counter or a gauge (what
    `checkSuffixCollisions` derives from a family, `suffixCollision` in SE/Model/Registry.lean) -/
def companionNames (name : Bytes) : MType → List Bytes
  | .histogram => [name ++ sfxCount, name ++ sfxSum, name ++ sfxBucket]
  | .summary => [name ++ sfxCount, name ++ sfxSum]
  | _ => []

/-- the metric `(name, ty)` neither has the name of a pre-registered family nor is in a companion-suffix relation with one,
    in either direction (what `checkSuffixCollisions` looks at): for every pre-registered family `(pn, pt, _)`
    * `pn ≠ name`,
    * `pn` is not a companion name of `(name, ty)`: not `name_count`/`name_sum` if `ty` is a summary or histogram, nor
      `name_bucket` if it is a histogram,
    * `name` is not a companion name of `(pn, pt)`: not `pn_count`/`pn_sum` if `pt` is a summary or histogram, nor
      `pn_bucket` if it is a histogram. -/
def AvoidsPre (pre : List (Bytes × MType × Bytes)) (name : Bytes) (ty : MType) : Bool :=
  pre.all fun (pn, pt, _) =>
    pn != name && !(companionNames name ty).contains pn && !(companionNames pn pt).contains name

/-- the help string of the first vector ever created for the metric name, if there is one (`helpFor`: vectors are
    never removed, and every later vector of the name is created with this help string) -/
def Reg.firstHelp? (r : Reg V) (name : Bytes) : Option Bytes := ((r.find name).bind (·.vecs.head?)).map (·.help)

/-- two series agree in everything but the registration clock (`last`) and the `ttl` -/
def Series.sameValue (s t : Series V) : Prop :=
  s.labels = t.labels ∧ s.f = t.f ∧ s.n = t.n ∧ s.bk = t.bk

/-- a series as `GetMetricWith` creates it: zero value, zero counts, all bucket counts zero -/
def Series.isFresh (s : Series V) : Prop :=
  s.f = NumOps.zero ∧ s.n = 0 ∧ ∀ x, x ∈ s.bk → x = 0

/-- the stale-series predicate of `RemoveStaleMetrics` -/
def Series.stale (s : Series V) (now : Int) : Prop := s.ttl ≠ 0 ∧ s.last + s.ttl < now

end SE
