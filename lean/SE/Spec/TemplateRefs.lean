import SE.Spec.Mapping
/-
Statement vocabulary for C11: the reference names a template mentions (as `expandSpec` scans it; and
`regexp.Expand` too when no name is directly followed by a byte ≥ 0x80, `refsAsciiFollowed`), and the decidable guard `SafeTemplate` under which the glob formatter
(with the repaired reference regex `\$\{?([a-zA-Z0-9_]+)\}?`, and — since the repair b74fba2 — `%` escaped and all
references substituted in one left-to-right pass) provably agrees with `expandSpec`.
-/
namespace SE

/-- the names of the references met by the left-to-right scan of `expandSpec` (same recursion, same
    fuel; ASCII names). `rxExpand` — Go's rune-wise name scan — meets the same names exactly when
    `refsAsciiFollowed` below holds. -/
def refNames : Nat → Bytes → List Bytes
  | 0, _ => []
  | _, [] => []
  | fuel + 1, b :: rest =>
    if b == cDollar then
      match rest with
      | c :: rest' =>
        if c == cDollar then refNames fuel rest'
        else match rxExtract rest with
          | none => refNames fuel rest
          | some (name, r) => name :: refNames fuel r
      | [] => []
    else refNames fuel rest

/-- a template cut into literal pieces and references `$name` / `${name}` -/
inductive Seg where
  | lit (l : Bytes)
  | ref (braced : Bool) (ds : Bytes)
  deriving DecidableEq, Repr

def refText (braced : Bool) (ds : Bytes) : Bytes :=
  if braced then cDollar :: cLBrace :: (ds ++ [cRBrace]) else cDollar :: ds

def Seg.text : Seg → Bytes
  | .lit l => l
  | .ref b ds => refText b ds

def flatSegs : List Seg → Bytes
  | [] => []
  | s :: segs => s.text ++ flatSegs segs

/-- what may follow a reference: after a braced one anything; after a bare `$ds` either the end of
    the template or an ASCII byte (`< 0x80`) outside `[a-zA-Z0-9_}]` — in particular `$`, the start of
    the next reference (a word byte would not be "following" but part of the name; a `}` would be
    swallowed by the formatter's regex; a byte ≥ 0x80 may start a Unicode letter, which Go's
    `regexp.Expand` — scanning names rune by rune — takes into the name: `$1é`) -/
def followOk : List Seg → Bool
  | [] => true
  | .lit _ :: segs => followOk segs
  | .ref true _ :: segs => followOk segs
  | .ref false _ :: segs =>
    (match flatSegs segs with
     | [] => true
     | c :: _ => !isWordByte c && c != cRBrace && c < 0x80) && followOk segs

/-- per-segment conditions: a literal contains no `$` (it may contain `%`, and any other byte: since
    the repair b74fba2 the formatter escapes `%` before it builds its format string); a reference
    name is a non-empty run of `[A-Za-z0-9_]` that is either a decimal number as `regexp.Expand`
    reads it (no leading zero unless the number is `0`, at most 8 digits) or not purely numeric
    (then it names no capture and expands to nothing: `$foo`, `$1_total`) -/
def segOk : Seg → Bool
  | .lit l => !l.contains cDollar
  | .ref _ ds => !ds.isEmpty && ds.all isWordByte && ((rxNum ds).isSome || !ds.all isDigitB)

/-- every segment is fine and what follows a bare reference is fine. (Before the repair b74fba2
    there was a third conjunct, "no reference text is a proper prefix of another one": the
    references were substituted one after the other with `strings.ReplaceAll`. They are now
    substituted in a single pass, and `$1` and `$11` may occur together.) -/
def SafeSegs (segs : List Seg) : Bool :=
  segs.all segOk && followOk segs

/-- a (not verified, and not needing verification) tokenizer: `SafeTemplate` checks its output -/
def segsOf : Nat → Bytes → Bytes → List Seg
  | 0, acc, t => [.lit (acc.reverse ++ t)]
  | _, acc, [] => [.lit acc.reverse]
  | fuel + 1, acc, b :: rest =>
    if b == cDollar then
      match rxExtract rest with
      | some (name, r) =>
        .lit acc.reverse :: .ref (rest.head? == some cLBrace) name :: segsOf fuel [] r
      | none => segsOf fuel (b :: acc) rest
    else segsOf fuel (b :: acc) rest

/-- **The guard of the partial C11 theorem** (decidable: a `Bool`). A template is safe when it
    reads as literals and references such that
    * no literal contains `$` (so every `$` starts a reference, and there is no `$$`); a literal may
      contain `%` — `100%-$1`, `50%s-$1`, `%d$2%%$1` are safe,
    * every reference is `$name` or `${name}`, `name` a non-empty run of `[A-Za-z0-9_]` that is
      either a decimal number without leading zero of ≤ 8 digits, or not purely numeric,
    * a bare `$name` is followed by the end of the template or by an ASCII byte (`< 0x80`) outside
      `[a-zA-Z0-9_}]` (so no `}` follows directly; another reference may: `$1$2`, `$1${2}`; a
      non-ASCII byte may not: `$1é`, where the regex side's `regexp.Expand` reads the name `1é` —
      literals may contain non-ASCII bytes anywhere else: `é$1-x`, `${1}é`).
    Nothing is asked about how the reference texts relate to each other: `$1-$11` is safe.
    All three defects of the formatter found with this property are repaired — adjacent references
    (`$1$2`, 4d631d3), a literal `%` and a reference text that is a prefix of another one (`100%-$1`,
    `$1-$11`, b74fba2) — and such templates are accepted. What the guard still excludes are the
    corners in which the formatter's reference syntax differs from the documented one: `$$`, `$01`,
    `${1`, `$1}`, and (for the regex side) `$1é`. -/
def SafeTemplate (tmpl : Bytes) : Bool :=
  let segs := segsOf tmpl.length [] tmpl
  flatSegs segs == tmpl && SafeSegs segs

/-- the byte after the ASCII name run of `s` (the text after a `$`; an optional `{` is skipped first)
    is absent or ASCII (`< 0x80`). Then Go's rune-wise name scan (`rxExtractU`) stops exactly where
    the ASCII scan of the specification (`rxExtract`) does. -/
def asciiAfterName (s : Bytes) : Bool :=
  let s1 := match s with
    | b :: r => if b == cLBrace then r else s
    | [] => []
  match s1.dropWhile isWordByte with
  | [] => true
  | c :: _ => c < 0x80

/-- `asciiAfterName` at every `$` the left-to-right scan of `rxExpand` / `expandSpec` examines (same
    recursion and fuel as `refNames`; it is also asked where the ASCII scan finds no name: `$é` is a
    reference for `regexp.Expand`). **The guard of the regex-side C11 theorem**: no reference name —
    bare or braced — and no lone `$` is directly followed by a byte ≥ 0x80. -/
def refsAsciiFollowed : Nat → Bytes → Bool
  | 0, _ => true
  | _, [] => true
  | fuel + 1, b :: rest =>
    if b == cDollar then
      match rest with
      | c :: rest' =>
        if c == cDollar then refsAsciiFollowed fuel rest'
        else asciiAfterName rest && (match rxExtract rest with
          | none => refsAsciiFollowed fuel rest
          | some (_, r) => refsAsciiFollowed fuel r)
      | [] => true
    else refsAsciiFollowed fuel rest

/-- the template contains two adjacent `$` (for `regexp.Expand` and `expandSpec` the escape `$$`;
    the formatter's regex sees no reference in it and copies both) -/
def hasDollarDollar : Bytes → Bool
  | a :: b :: r => (a == cDollar && b == cDollar) || hasDollarDollar (b :: r)
  | _ => false

end SE
