import SE.Spec.Mapping
/-
Statement vocabulary for C11: the reference names a template mentions, as the left-to-right scan of
`expandSpec` / `regexp.Expand` (`rxExpand`) / the glob formatter (`substRefs`) meets them — all three
use the same scan since the repair a7bcc3e — and `hasDollarDollar`, which the driver's classification
of templates uses.

(The decidable guard `SafeTemplate` that used to live here, with its segment vocabulary, is gone:
since a7bcc3e the glob formatter has `regexp.Expand`'s reference syntax and C11 is proved for every
template, SE/Props/C11.lean.)
-/
namespace SE

/-- the names of the references met by the left-to-right scan of `expandSpec` (same recursion, same
    fuel, the same rune-aware name syntax `rxExtractU`; the scan — and the list — ends where a name
    contains a rune outside the modelled Unicode fragment: nothing is specified from there on).
    Used to say "the template does not mention `$0`" and "no reference names a named group". -/
def refNames : Nat → Bytes → List Bytes
  | 0, _ => []
  | _, [] => []
  | fuel + 1, b :: rest =>
    if b == cDollar then
      match rest with
      | c :: rest' =>
        if c == cDollar then refNames fuel rest'
        else match rxExtractU rest with
          | none => []
          | some none => refNames fuel rest
          | some (some (name, r)) => name :: refNames fuel r
      | [] => []
    else refNames fuel rest

/-- the template contains two adjacent `$` (for `regexp.Expand`, `expandSpec` and — since a7bcc3e —
    the glob formatter the escape `$$`; before that repair the formatter's regex saw no reference in it
    and copied both). Used by the driver's classification of divergences. -/
def hasDollarDollar : Bytes → Bool
  | a :: b :: r => (a == cDollar && b == cDollar) || hasDollarDollar (b :: r)
  | _ => false

end SE
