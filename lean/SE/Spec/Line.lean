import SE.Model.Line
/-
Specification-level definitions for the line-parser properties C09 and C10.
-/
namespace SE

/-- the line `name:rest` -/
def mkLine (name rest : Bytes) : Bytes := name ++ cColon :: rest

/-- One entry of a rendered tag list: `kv k v` renders as `k<sep>v` (this covers the malformed
    forms "empty key" and "empty value"), `bare x` renders as `x` without any separator
    (`bare []` is the entirely empty tag). -/
inductive TagEntry
  | kv (k v : Bytes)
  | bare (x : Bytes)
  deriving Repr, DecidableEq

def TagEntry.render (sep : UInt8) : TagEntry → Bytes
  | .kv k v => k ++ sep :: v
  | .bare x => x

/-- `k=v,k2=v2,…` (Librato, InfluxDB, SignalFX) -/
def renderEq (ts : List TagEntry) : Bytes := joinWith cComma (ts.map (TagEntry.render cEq))
/-- `k:v,k2:v2,…` (DogStatsD) -/
def renderColon (ts : List TagEntry) : Bytes := joinWith cComma (ts.map (TagEntry.render cColon))

/-- one step of the tag specification: a well-formed entry (key and value non-empty) sets the
    label `escape k ↦ v`; every other entry counts one tag error -/
def specTagStep (acc : Labels × Nat) : TagEntry → Labels × Nat
  | .kv k v => if k.isEmpty || v.isEmpty then (acc.1, acc.2 + 1) else (acc.1.set (specEscape k) v, acc.2)
  | .bare _ => (acc.1, acc.2 + 1)

/-- labels and tag-error count of a tag list, independent of the syntax -/
def specTags (ts : List TagEntry) : Labels × Nat := ts.foldl specTagStep ([], 0)

/-- the bytes of an entry that are subject to the key restrictions -/
def TagEntry.keyPart : TagEntry → Bytes
  | .kv k _ => k
  | .bare x => x

def TagEntry.valPart : TagEntry → Bytes
  | .kv _ v => v
  | .bare _ => []

/-- `b` contains none of the bytes `ds` -/
def freeOf (ds : List UInt8) (b : Bytes) : Prop := ∀ c ∈ ds, c ∉ b

instance (ds : List UInt8) (b : Bytes) : Decidable (freeOf ds b) :=
  inferInstanceAs (Decidable (∀ c ∈ ds, c ∉ b))

/-- delimiter bytes of the four tagging syntaxes: `, : | [ ] #` -/
def tagDelims : List UInt8 := [cComma, cColon, cPipe, cLBr, cRBr, cHash]

/-- Domain of a tag entry: keys (and separator-less entries) avoid `, : | [ ] # =`,
    values avoid `, : | [ ] #` (a value may contain `=`). -/
def TagEntry.Ok (t : TagEntry) : Prop :=
  freeOf (cEq :: tagDelims) t.keyPart ∧ freeOf tagDelims t.valPart

instance (t : TagEntry) : Decidable t.Ok :=
  inferInstanceAs (Decidable (freeOf (cEq :: tagDelims) t.keyPart ∧ freeOf tagDelims t.valPart))

/-- Domain of a tag list on which the four renderings are comparable: every entry is `Ok`,
    there is at least one entry, and the last entry is not the entirely empty tag (the parser
    does not treat an empty piece after the last comma as a tag, while an empty piece
    elsewhere is a tag error). -/
def TagsOk (ts : List TagEntry) : Prop :=
  (∀ t ∈ ts, t.Ok) ∧ ∃ init last, ts = init ++ [last] ∧ last ≠ .bare []

/-- `name#k=v,…:rest` -/
def libratoLine (n : Bytes) (ts : List TagEntry) (rest : Bytes) : Bytes :=
  mkLine (n ++ cHash :: renderEq ts) rest
/-- `name,k=v,…:rest` -/
def influxLine (n : Bytes) (ts : List TagEntry) (rest : Bytes) : Bytes :=
  mkLine (n ++ cComma :: renderEq ts) rest
/-- `pre[k=v,…]post:rest` -/
def signalfxLine (pre post : Bytes) (ts : List TagEntry) (rest : Bytes) : Bytes :=
  mkLine (pre ++ cLBr :: (renderEq ts ++ cRBr :: post)) rest
/-- `name:sample|#k:v,…` -/
def dogLine (n : Bytes) (ts : List TagEntry) (s : Bytes) : Bytes :=
  mkLine n (s ++ cPipe :: cHash :: renderColon ts)

/-- Domain of a metric name: non-empty and free of `: # , [ ]` -/
structure NameOk (n : Bytes) : Prop where
  ne : n ≠ []
  free : freeOf [cColon, cHash, cComma, cLBr, cRBr] n

/-- Domain of the multi-sample theorems: the name `e0` is non-empty and has no `:`; the
    samples `ss` are free of `:`; there is a first one and it contains a `|`; the joined
    remainder of the line does not contain the DogStatsD marker `|#`. -/
structure MultiDom (e0 : Bytes) (ss : List Bytes) : Prop where
  name_ne : e0 ≠ []
  name_colon : cColon ∉ e0
  first_pipe : ∃ s1 rest, ss = s1 :: rest ∧ cPipe ∈ s1
  no_colon : ∀ s ∈ ss, cColon ∉ s
  no_dog : containsSub [cPipe, cHash] (joinWith cColon ss) = false

/-- Domain of the extended-aggregation theorems: name non-empty without `:`; at least two
    values, each free of `:` and `|`; `T` one of `ms`, `h`, `d`; `rest` (everything after
    `|T`) is empty or starts with `|`, and contains a `:` only if it also contains the
    DogStatsD marker `|#` (without `|#` a colon in `rest` would make the *single* line
    `name:v|T rest` a multi-sample line, so the two sides are not comparable). -/
structure ExtAggDom (e0 : Bytes) (vs : List Bytes) (T rest : Bytes) : Prop where
  name_ne : e0 ≠ []
  name_colon : cColon ∉ e0
  two : ∃ a b l, vs = a :: b :: l
  no_colon : ∀ v ∈ vs, cColon ∉ v
  no_pipe : ∀ v ∈ vs, cPipe ∉ v
  type_ok : isExtAggType T = true
  rest_shape : rest = [] ∨ ∃ r, rest = cPipe :: r
  rest_colon : cColon ∉ rest ∨ containsSub [cPipe, cHash] rest = true

/-- a four-operation toy number type for the non-vacuity examples of the property files:
    integers, with truncating division -/
@[instance_reducible] def intOps : NumOps Int where
  zero := 0
  one := 1
  thousand := 1000
  add := (· + ·)
  mul := (· * ·)
  div := (· / ·)
  isZero x := x == 0
  ltZero x := decide (x < 0)
  isNaN _ := false
  le x y := decide (x ≤ y)
  recipInt x := 1 / x
  ofNat n := n
  lt x y := decide (x < y)
  ge x y := decide (x ≥ y)
  isPosInf _ := false
  toUInt64Exact x := if 0 ≤ x ∧ x < 18446744073709551616 then some x.toNat else none
  ceilMul l q := l * q

/-- a toy `ParseFloat` for the examples: the decimal strings "1", "2", "5" parse, nothing else -/
def toyPf : Pf Int := fun b =>
  if b == [49] then (1, .ok) else if b == [50] then (2, .ok) else if b == [53] then (5, .ok)
  else (0, .syntax)

variable {V : Type}

/-- the sample passes the structural checks and its value parses, i.e. it reaches the
    `|@…`/`|#…` components and the `tagsReceived` accounting -/
def sampleAccepted (pf : Pf V) (s : Bytes) : Bool :=
  match splitOn cPipe s with
  | v :: _ :: extra => extra.length ≤ 2 && (pf v).2 == .ok && !extra.any (·.isEmpty)
  | _ => false

/-- syntactic class of *rejected* samples: fewer than 2 or more than 4 fields, a bad number,
    an empty extra field, or a type that is unknown or `s` -/
def sampleRejected (pf : Pf V) (s : Bytes) : Bool :=
  match splitOn cPipe s with
  | v :: t :: extra =>
    extra.length > 2 || (pf v).2 != .ok || extra.any (·.isEmpty) ||
      statTypeOf t == .s || statTypeOf t == .bad
  | _ => true

end SE
