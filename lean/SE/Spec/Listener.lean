import SE.Model.Listener
/-
Stream-level specification of TCP framing (what C18 says): lines are split at `\n` only, one
trailing `\r` is stripped, an unterminated non-empty tail counts as a line at EOF, and a line is
over-long iff there is no `\n` among the next 4096 bytes of the stream.
-/
namespace SE

def tcpLinesSpec : Nat → Bytes → TcpOut → TcpOut
  | 0, _, o => o
  | fuel + 1, stream, o =>
    match indexOf lf (stream.take bufSize) with
    | some i => tcpLinesSpec fuel (stream.drop (i + 1)) { o with lines := o.lines ++ [stripCR (stream.take i)] }
    | none =>
      if stream.length ≥ bufSize then { o with tooLong := true }
      else if stream.isEmpty then o
      else { o with lines := o.lines ++ [stream] }

def tcpLinesOfStream (stream : Bytes) : TcpOut := tcpLinesSpec (stream.length + 1) stream {}

end SE
