import SE.Proofs.RegistryPipe
import SE.Spec.PipeHistory
/-
Vocabulary of property C01 ("StatsD lines aggregate to exactly the predicted Prometheus series").

The core idea is compositional: the state of one series is the fold of ITS OWN applied updates,
independent of everything else that happened in between, and each update is what the StatsD
protocol prescribes for the event (after the rule's scale factor).

* `Touch V`    — what an applied event does: the series it addresses, the metric type it asks for,
                 and the update it applies to the series.
* `touchOf`    — the touch of an event in a given state, read off `evTarget` (SE/Proofs/RegistryPipe.lean);
                 defined exactly when `getOrCreate` succeeds, i.e. when the event is applied.
* `runEvs`     — a history of events (each with the tags of its line) through `handleEvent`;
                 no sweep, no clock change, no reload in between.
* `trace` / `touches` — the applied events of a history, in order, with their touches.
* `specSeries` — the predicted state of a series: the fold of its own updates.
* per-kind closed forms: `counterFold`, `gaugeSpec`, `observeFold`, `bumpAll`.

Nothing here changes a model; these are definitions the property statements are phrased in.
-/
namespace SE
open NumOps
variable {V : Type} [NumOps V]

/-- what an applied event does: it addresses the series `(name, labels)` of a metric of type `ty`
    and applies `upd` (given the series' vector) to it -/
structure Touch (V : Type) where
  name : Bytes
  labels : Labels
  ty : MType
  upd : VecM V → Series V → Series V

/-- the touch of an event in state `p`: defined iff the event reaches the registry (`evTarget`) and
    `getOrCreate` succeeds (no panic, no conflict, no reserved label) — i.e. iff the event is applied -/
def touchOf (p : Pipe V) (rx : Rx) (ev : Ev V) (tags : Labels) : Option (Touch V) :=
  match evTarget p rx ev tags with
  | none => none
  | some (_, pl) =>
    match p.reg.getOrCreate pl.1 pl.2.1 p.now with
    | .ok (.ok _) => some { name := pl.2.1.name, labels := pl.2.1.labels, ty := pl.1, upd := pl.2.2 }
    | _ => none

/-- does the touch address the series `(name, labels)`? -/
def Touch.addresses (t : Touch V) (name : Bytes) (labels : Labels) : Bool :=
  t.name == name && t.labels == labels

/-- a history: events, each with the tags of the line it came from, through `handleEvent` one after the
    other. Stops at the first panic; `none` = outside the modelled fragment. -/
def runEvs (rx : Rx) : Pipe V → List (Ev V × Labels) → Option (Except Panic (Pipe V))
  | p, [] => some (.ok p)
  | p, (ev, tags) :: rest =>
    match handleEvent p rx ev tags with
    | some (.ok p') => runEvs rx p' rest
    | other => other

/-- the applied events of a history, in arrival order, each with its touch (in the state it met) -/
def trace (rx : Rx) : Pipe V → List (Ev V × Labels) → List (Ev V × Touch V)
  | _, [] => []
  | p, (ev, tags) :: rest =>
    match handleEvent p rx ev tags with
    | some (.ok p') =>
      match touchOf p rx ev tags with
      | some t => (ev, t) :: trace rx p' rest
      | none => trace rx p' rest
    | _ => []

/-- the touches of a history, in arrival order -/
def touches (rx : Rx) (p : Pipe V) (evs : List (Ev V × Labels)) : List (Touch V) :=
  (trace rx p evs).map (·.2)

/-- the updates of exactly those touches that address `(name, labels)`, in order -/
def ownUpds (name : Bytes) (labels : Labels) (ts : List (Touch V)) : List (VecM V → Series V → Series V) :=
  (ts.filter (·.addresses name labels)).map (·.upd)

/-- the applied events of a history that address `(name, labels)`, in order -/
def ownEvents (name : Bytes) (labels : Labels) (tr : List (Ev V × Touch V)) : List (Ev V) :=
  (tr.filter (·.2.addresses name labels)).map (·.1)

/-- **the predicted state of a series**: the fold of its own updates, starting from `fresh`,
    each update given the series' vector `vec` -/
def specSeries (fresh : Series V) (vec : VecM V) (us : List (VecM V → Series V → Series V)) : Series V :=
  us.foldl (fun s u => u vec s) fresh

/-- the value part of a series as `GetMetricWith` creates it for a metric of type `ty` in vector `vec`:
    zero value, zero count, one zero bucket count per effective bound plus `+Inf` for a histogram.
    (`last`/`ttl` are C07's business; they are set to 0 here and ignored by `Series.sameValue`.) -/
def zeroSeries (ty : MType) (vec : VecM V) (labels : Labels) : Series V :=
  { labels := labels, ttl := 0, last := 0, f := zero, n := 0,
    bk := List.replicate (if ty == .histogram then (effBounds vec.bounds).length + 1 else 0) 0 }

/-- an update whose value part depends only on the value part of the series -/
def UpdValue (f : VecM V → Series V → Series V) : Prop :=
  ∀ v s t, s.sameValue t → (f v s).sameValue (f v t)

/-! ### what the protocol prescribes for one event -/

/-- the metric type an event asks for: from its kind and, for observers, the rule's / default observer type -/
def evType (p : Pipe V) (rx : Rx) (ev : Ev V) : MType :=
  match ev.kind with
  | .counter => .counter
  | .gauge => .gauge
  | .observer => if evObsTy p rx ev == .histogram then .histogram else .summary

/-- the update an event applies, in terms of its scaled value `evValue` (= `ev.value`, times the rule's
    `scale` if the matched rule has one):
    counter ↦ `counter.Add(value)`; gauge ↦ `Add(value)` if the sample was signed, else `Set(value)`;
    observer ↦ `Observe(value)` -/
def evUpd (p : Pipe V) (rx : Rx) (ev : Ev V) : VecM V → Series V → Series V :=
  match ev.kind with
  | .counter => fun _ s => counterAdd s (evValue p rx ev)
  | .gauge => fun _ s => if ev.relative then { s with f := add s.f (evValue p rx ev) } else { s with f := evValue p rx ev }
  | .observer => fun v s => observe v (evObsTy p rx ev == .histogram) s (evValue p rx ev)

/-- the histogram bounds an event asks for: the rule's buckets if it has histogram options with
    buckets, else the defaults -/
def evBounds (p : Pipe V) (rx : Rx) (ev : Ev V) : List V :=
  match evRule p rx ev with
  | some r => if r.hasHistOpts && !r.buckets.isEmpty then r.buckets else p.mapper.cfg.dBuckets
  | none => p.mapper.cfg.dBuckets

/-- the metric name an event asks for (before escaping): the mapped name, or the event's own name when
    no rule matched -/
def evRawName (p : Pipe V) (rx : Rx) (ev : Ev V) : Bytes :=
  match evFound p rx ev, evRule p rx ev with
  | some m, some _ => m.name.getD []
  | _, _ => ev.name

/-! ### closed forms per kind -/

/-- a counter: `counter.Add` folded over the increments in arrival order -/
def counterFold (s0 : Series V) (vs : List V) : Series V := vs.foldl counterAdd s0

/-- does the increment take client_golang's integer path (`float64(uint64(v)) == v`)? -/
def intPath (v : V) : Bool := (toUInt64Exact v).isSome

/-- a gauge: a relative sample (`+x` / `-x`) is added, an absolute one replaces the value -/
def gaugeStep (acc : V) (op : Bool × V) : V := if op.1 then add acc op.2 else op.2

def gaugeSpec (ops : List (Bool × V)) (v0 : V) : V := ops.foldl gaugeStep v0

/-- an observer: `Observe` folded over the observations in arrival order -/
def observeFold (vec : VecM V) (isHist : Bool) (s0 : Series V) (xs : List V) : Series V :=
  xs.foldl (observe vec isHist) s0

/-- bucket counts after incrementing the buckets with the given indices -/
def bumpAll (bk : List Nat) (idxs : List Nat) : List Nat := idxs.foldl bumpAt bk

/-- left sum in arrival order, exactly as the code accumulates -/
def sumFrom (v0 : V) (xs : List V) : V := xs.foldl add v0

end SE
