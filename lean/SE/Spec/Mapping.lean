import SE.Model.Mapper
/-
Specifications for the mapper properties, as short as the property texts:
C04 `firstMatch`, C12 `mostSpecific`, C11 `expandSpec`.
-/
namespace SE
variable {V : Type}

/-- component-wise glob match: same number of components, `*` matches any one component -/
def globMatches (pat name : Pat) : Bool :=
  pat.length == name.length && (pat.zip name).all (fun (p, n) => p == starB || p == n)

def typeOk (mmt : Option Nat) (ty : Nat) : Bool :=
  match mmt with
  | none => true
  | some t => t == ty

/-- the components of `name` under the `*`s of `pat`, in order -/
def capturesOf : Pat → Pat → List Bytes
  | p :: ps, n :: ns => if p == starB then n :: capturesOf ps ns else capturesOf ps ns
  | _, _ => []

def ruleMatchesGlob (r : Rule V) (name : Pat) (ty : Nat) : Bool :=
  r.matchType == .glob && globMatches r.pat name && typeOk r.matchMetricType ty

/-- C04: index (in configuration order) of the first glob rule that matches -/
def firstGlob (cfg : Config V) (name : Bytes) (ty : Nat) : Option Nat :=
  (cfg.rules.zipIdx.find? fun (r, _) => ruleMatchesGlob r (splitOn 46 name) ty).map (·.2)

def firstRegex (cfg : Config V) (rx : Rx) (name : Bytes) (ty : Nat) : Option Nat :=
  (cfg.rules.zipIdx.find? fun (r, i) =>
    r.matchType == .regex && (rx i name).isSome && typeOk r.matchMetricType ty).map (·.2)

/-- C04: the first matching glob rule, else the first matching regex rule, else unmapped -/
def firstMatch (cfg : Config V) (rx : Rx) (name : Bytes) (ty : Nat) : Option Nat :=
  match firstGlob cfg name ty with
  | some i => some i
  | none => firstRegex cfg rx name ty

/-- pattern order of C12: component by component from the left, a literal beats a wildcard
    (`true` iff `a` is strictly more specific than `b`; patterns that both match one name agree
    on every literal position, so this is a total order on them up to equality) -/
def moreSpecific : Pat → Pat → Bool
  | a :: as, b :: bs =>
    if a == starB && b != starB then false
    else if a != starB && b == starB then true
    else moreSpecific as bs
  | _, _ => false

/-- C12: among the matching glob rules the most specific one (the first written among equal patterns) -/
def mostSpecificGlob (cfg : Config V) (name : Bytes) (ty : Nat) : Option Nat :=
  let cands := cfg.rules.zipIdx.filter fun (r, _) => ruleMatchesGlob r (splitOn 46 name) ty
  (cands.foldl (fun (best : Option (Rule V × Nat)) c =>
    match best with
    | none => some c
    | some b => if moreSpecific c.1.pat b.1.pat then some c else some b) none).map (·.2)

def mostSpecific (cfg : Config V) (rx : Rx) (name : Bytes) (ty : Nat) : Option Nat :=
  match mostSpecificGlob cfg name ty with
  | some i => some i
  | none => firstRegex cfg rx name ty

/-- C11, "as documented": the template syntax is the one Go documents for `regexp.Expand` — a reference is `$name` or
    `${name}` where `name` is the longest sequence of letters, digits and underscore (letters and digits in Go's sense:
    `rxExtractU` / `nameRune`), `$$` is a literal `$`. A purely numeric name `n ≥ 1` (decimal, no leading zero) is
    replaced by the n-th capture (empty when out of range); any other name refers to a named group, which the captures of
    a glob rule (and the unnamed groups of its regex translation) do not have: empty. A `$` that starts no reference and
    every other byte are copied. `none` = a name contains a rune outside the modelled Unicode fragment: nothing is
    specified there. Captures are numbered from 1. -/
def expandSpec (caps : List Bytes) : Nat → Bytes → Option Bytes
  | 0, t => some t
  | _, [] => some []
  | fuel + 1, b :: rest =>
    if b == cDollar then
      match rest with
      | c :: rest' =>
        if c == cDollar then (expandSpec caps fuel rest').map (cDollar :: ·)
        else match rxExtractU rest with
          | none => none
          | some none => (expandSpec caps fuel rest).map (cDollar :: ·)
          | some (some (name, r)) =>
            let sub : Bytes := match rxNum name with
              | some n => if n ≥ 1 then caps.getD (n - 1) [] else []
              | none => []
            (expandSpec caps fuel r).map (sub ++ ·)
      | [] => some [cDollar]
    else (expandSpec caps fuel rest).map (b :: ·)

end SE
