import SE.Model.Queue
/-
Specification predicates of C16 on an *observation*: what each producer queued (its calls, in
order) and the batches the consumer received, in order.
-/
namespace SE
variable {E : Type} [DecidableEq E]

/-- all events a producer hands over, in its program order -/
def progEvents (prog : List (List E)) : List E := prog.flatten

/-- the delivered events that belong to a producer (events are tagged so that ownership is decidable) -/
def deliveredOf (owner : E → Nat) (p : Nat) (delivered : List (List E)) : List E :=
  delivered.flatten.filter (fun e => owner e == p)

/-- exactly once and in order: per producer, the delivered events are exactly a prefix of what it queued
    (all of it once everything has been flushed), and nothing else was delivered -/
def deliveryPrefixOk (owner : E → Nat) (programs : List (List (List E))) (delivered : List (List E)) : Bool :=
  (programs.zipIdx.all fun (prog, p) => (deliveredOf owner p delivered).isPrefixOf (progEvents prog)) &&
  delivered.flatten.all (fun e => owner e < programs.length)

def deliveryCompleteOk (owner : E → Nat) (programs : List (List (List E))) (delivered : List (List E)) : Bool :=
  programs.zipIdx.all fun (prog, p) => deliveredOf owner p delivered == progEvents prog

/-- no batch exceeds the flush threshold (a threshold of 0 behaves like 1) -/
def batchesBounded (thr : Nat) (delivered : List (List E)) : Bool :=
  delivered.all fun b => b.length ≤ max thr 1

end SE
