import SE.Model.Escape
/-
Specification of name escaping (C15), rune by rune and eager: a name byte is kept, a dash
directly after a dash disappears, everything else becomes one underscore; a leading digit
is prefixed by an underscore.
-/
namespace SE

def specBody : Bool → List Tok → Bytes
  | _, [] => []
  | pd, t :: ts =>
    match t.cls with
    | .ok => t.bytes ++ specBody false ts
    | .dash => (if pd then [] else [us]) ++ specBody true ts
    | .other => [us] ++ specBody false ts

def specEscapeToks (ts : List Tok) : Bytes :=
  match flat ts with
  | [] => []
  | b0 :: _ => (if isDigit b0 then [us] else []) ++ specBody false ts

def specEscape (inp : Bytes) : Bytes := specEscapeToks (tokens inp)

/-- `[a-zA-Z_][a-zA-Z0-9_]*` -/
def legalName : Bytes → Bool
  | [] => false
  | b :: bs => isNameByte b && !isDigit b && bs.all isNameByte

end SE
