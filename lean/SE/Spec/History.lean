import SE.Model.Cache
/-
Histories of mapper operations, for C13 (cache invisibility) and C14 (reload atomicity).
These are *statement vocabulary* only: they add no behaviour, they just iterate the model's
`CachedMapper.lookup`/`reload` and `MState.lookup`/`swap` over a list of operations.

One `Op` is one atomic step of the mapper object: `GetMapping` holds the `RWMutex` read lock
for its whole body and the assignments of `InitFromYAMLString` happen under the write lock
(the atomicity assumption is a regenerated fact, DESIGN.md C14 tie (b)), so every concurrent
execution of N reader goroutines and one reloader is *some* list of `Op`s — an interleaving
of the threads' programs (`Interleaving`).
-/
namespace SE
variable {V : Type}

/-- one atomic step: a lookup (with the eviction-choice oracle value that a random-replacement
    cache would consume) or the outcome of a configuration (re)load -/
inductive Op (V : Type) where
  | get (name : Bytes) (ty : Nat) (choice : Nat)
  | reload (loaded : Except LoadErr (Config V))

/-- answers of a mapper with a cache in front, in order of the `get`s -/
def runCached (rx : Rx) : CachedMapper V → List (Op V) → List (Option Mapped)
  | _, [] => []
  | m, .get name ty choice :: ops =>
    (m.lookup rx name ty choice).2 :: runCached rx (m.lookup rx name ty choice).1 ops
  | m, .reload l :: ops => runCached rx (m.reload l) ops

/-- one step on the cache-less mapper object -/
def MState.step (st : MState V) : Op V → MState V
  | .get _ _ _ => st
  | .reload (.ok n) => st.swap n
  | .reload (.error _) => st

/-- answers of the mapper without cache -/
def runPlain (rx : Rx) : MState V → List (Op V) → List (Option Mapped)
  | _, [] => []
  | st, .get name ty _ :: ops => st.lookup rx name ty :: runPlain rx st ops
  | st, .reload l :: ops => runPlain rx (st.step (.reload l)) ops

/-- the mapper object after a history -/
def MState.after (st : MState V) (ops : List (Op V)) : MState V := ops.foldl MState.step st

/-- the configurations that were loaded successfully, in order -/
def okReloads : List (Op V) → List (Config V)
  | [] => []
  | .reload (.ok n) :: ops => n :: okReloads ops
  | _ :: ops => okReloads ops

/-- the last successfully loaded configuration of a history, if any -/
def lastOk (ops : List (Op V)) : Option (Config V) := (okReloads ops).getLast?

/-- what C14 says a lookup must answer after the history `pre` when the mapper started as `st`:
    a lookup in a *freshly built* mapper for the last successfully loaded configuration
    (the initial mapper if there was none) -/
def expectedAfter (rx : Rx) (st : MState V) (pre : List (Op V)) (name : Bytes) (ty : Nat) : Option Mapped :=
  match lastOk pre with
  | none => st.lookup rx name ty
  | some n => (MState.fresh n).lookup rx name ty

/-- a newly built mapper for configuration `n` with an empty cache of the given kind and size -/
def CachedMapper.fresh (n : Config V) (kind size : Nat) : CachedMapper V :=
  { st := MState.fresh n, cache := { kind := kind, size := size, items := [] } }

/-- the same history with other eviction choices -/
def sameUpToChoices : List (Op V) → List (Op V) → Prop
  | [], [] => True
  | .get n1 t1 _ :: a, .get n2 t2 _ :: b => n1 = n2 ∧ t1 = t2 ∧ sameUpToChoices a b
  | .reload (.ok c1) :: a, .reload (.ok c2) :: b => c1 = c2 ∧ sameUpToChoices a b
  | .reload (.error _) :: a, .reload (.error _) :: b => sameUpToChoices a b
  | _, _ => False

/-- `Interleaving threads trace`: `trace` is obtained by repeatedly letting some thread execute
    its next operation (threads = programs of the reader goroutines and of the reloader) -/
inductive Interleaving : List (List (Op V)) → List (Op V) → Prop where
  | done (threads : List (List (Op V))) : (∀ t ∈ threads, t = []) → Interleaving threads []
  | step (pre : List (List (Op V))) (op : Op V) (t : List (Op V)) (post : List (List (Op V)))
      (trace : List (Op V)) :
      Interleaving (pre ++ t :: post) trace → Interleaving (pre ++ (op :: t) :: post) (op :: trace)

end SE
