import SE.Model.Exporter
/-
Histories of the exporter goroutine: what `Listen` does, one operation at a time
(event batches of parsed lines, the stale-series sweep, the clock, configuration reloads).
-/
namespace SE
variable {V : Type} [NumOps V]

/-- what the exporter goroutine does, one operation at a time -/
inductive PipeOp (V : Type)
  /-- all events of one parsed line (with the line's tags) -/
  | line (tags : Labels) (evs : List (Ev V))
  /-- `RemoveStaleMetrics` at the current clock -/
  | sweep
  /-- the clock moves (to any value) -/
  | advance (now : Int)
  /-- the mapper object changes (configuration reload) -/
  | reload (m : MState V)

/-- a history of operations; stops at the first panic, `none` = outside the modelled fragment -/
def runOps (rx : Rx) : Pipe V → List (PipeOp V) → Option (Except Panic (Pipe V))
  | p, [] => some (.ok p)
  | p, .line tags evs :: rest =>
    match handleEvents p rx tags evs with
    | some (.ok p') => runOps rx p' rest
    | other => other
  | p, .sweep :: rest => runOps rx { p with reg := p.reg.sweep p.now } rest
  | p, .advance now :: rest => runOps rx { p with now := now } rest
  | p, .reload m :: rest => runOps rx { p with mapper := m } rest

end SE
