import SE.Model.Relay
/-
Specification vocabulary of C17 on a *schedule* of the relay machine (SE/Model/Relay.lean): which
lines were handed to `RelayLine`, which of them the relay must forward (and in which form), which
are counted as over-long, and what it means that every UDP send of the schedule succeeded.
-/
namespace SE

/-- the initial state of a relay configured with packet length `n`: empty channel, empty buffer,
    nothing sent, all counters zero -/
def relayInit (n : Nat) : RelaySt := { pktLen := n }

/-- the lines handed to `RelayLine` by the schedule, in arrival order (= the order in which the
    channel sends of the listener goroutines happened) -/
def linesOf (sched : List RelayLabel) : List Bytes :=
  sched.filterMap fun | .line l => some l | _ => none

/-- the line is non-empty and fits: `0 < len(l) ≤ packetLength - 1` -/
def lineFits (n : Nat) (l : Bytes) : Bool := !l.isEmpty && decide (l.length ≤ n - 1)

/-- the line is non-empty and too long: `len(l) > packetLength - 1` -/
def lineLong (n : Nat) (l : Bytes) : Bool := !l.isEmpty && decide (l.length > n - 1)

/-- the forwarded form of a line: itself if it already ends in a newline, else with one appended -/
def terminate (l : Bytes) : Bytes := if l.getLast? == some newline then l else l ++ [newline]

/-- what one label contributes to the list of enqueued lines -/
def acceptedBy (n : Nat) : RelayLabel → List Bytes
  | .line l => (relayAccept n l).toList
  | _ => []

/-- the lines the relay has to forward, in arrival order, each in its newline-terminated form:
    for every `.line l` of the schedule, `relayAccept n l` when it is `some` -/
def acceptedOf (n : Nat) (sched : List RelayLabel) : List Bytes := sched.flatMap (acceptedBy n)

def longBy (n : Nat) : RelayLabel → Bool
  | .line l => lineLong n l
  | _ => false

/-- number of `.line l` labels with `l ≠ []` and `l.length > n - 1` -/
def longOf (n : Nat) (sched : List RelayLabel) : Nat := sched.countP (longBy n)

/-- the oracle bit of a label (`true` for labels that do not send) -/
def RelayLabel.sendOk : RelayLabel → Bool
  | .line _ => true
  | .deq ok => ok
  | .tick ok => ok

/-- every UDP send of the schedule succeeds -/
def AllOk (sched : List RelayLabel) : Prop := ∀ lab, lab ∈ sched → lab.sendOk = true

instance (sched : List RelayLabel) : Decidable (AllOk sched) := by unfold AllOk; infer_instance

/-- a well-formed queued line: non-empty, newline-terminated, at most `n` bytes -/
structure GoodLine (n : Nat) (b : Bytes) : Prop where
  ne : b ≠ []
  le : b.length ≤ n
  nl : b.getLast? = some newline

end SE
