import Lean
/-
`#audit Ns` lists every theorem whose name starts with `Ns` together with the axioms it
depends on (transitively, through every helper lemma). A `sorry` shows up as `sorryAx`.
The check script parses the THEOREM lines.
-/
open Lean Elab Command

elab "#audit " ns:ident : command => do
  let env ← getEnv
  let mut n : Nat := 0
  for (c, info) in env.constants.toList do
    if ns.getId.isPrefixOf c && !c.isInternal then
      match info with
      | .thmInfo _ =>
        let axs ← liftCoreM (collectAxioms c)
        n := n + 1
        logInfo m!"THEOREM {c} AXIOMS {axs.toList}"
      | _ => pure ()
  logInfo m!"AUDIT-COUNT {n}"
