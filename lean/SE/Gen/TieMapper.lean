import SE.Gen.Facts
import SE.Model.Mapper
/-
Regenerated literals of pkg/mapper and pkg/mapper/fsm against which the hand recognisers
(`matchLineOk`, `metricNameOk`, `labelNameOk`, `findRefs`) were written.
-/
namespace SE.Gen.Tie
open SE

theorem metricLineRE : Gen.metricLineRE = "^(\\*|[a-zA-Z_]([a-zA-Z0-9_\\-])*)(\\.\\*|\\.[a-zA-Z0-9_]([a-zA-Z0-9_\\-])*)*$" := by decide
theorem metricNameRE : Gen.metricNameRE = "^([a-zA-Z_]|(\\$\\{?\\d+\\}?))([a-zA-Z0-9_]|(\\$\\{?\\d+\\}?))*$" := by decide
theorem labelNameRE : Gen.labelNameRE = "^[a-zA-Z_][a-zA-Z0-9_]+$" := by decide
/-- the formatter's reference syntax is `regexp.Expand`'s (`substRefs` scans with `rxExtractU`, the model of `regexp`'s own
    `extract`): `$$`, `${name}`, `$name` with name = letters, digits, underscore -/
theorem templateReplaceCaptureRE :
    Gen.templateReplaceCaptureRE = "\\$\\$|\\$\\{([\\p{L}\\p{Nd}_]+)\\}|\\$([\\p{L}\\p{Nd}_]+)" := by decide
theorem defaultQuantiles : Gen.defaultQuantiles = [("0.5", "0.05"), ("0.9", "0.01"), ("0.99", "0.001")] := by decide
/-- the loader's lower limit for a summary's stream duration (`max_age / age_buckets`, repair 2eac18a) is the model's
    `minStreamDuration`: one millisecond, in nanoseconds -/
theorem minSummaryStreamDuration : Gen.minSummaryStreamDuration = "time.Millisecond" ∧ minStreamDuration = 1000000 := by decide

end SE.Gen.Tie
