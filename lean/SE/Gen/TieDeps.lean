import SE.Gen.Facts
import SE.Model.Registry
import SE.Model.Listener
/-
Facts about the DEPENDENCIES the hand-written models encode, regenerated on every run from the sources the
build actually uses (client_golang in the module cache at the version go.mod requires; bufio in GOROOT).
A dependency bump that changes one of them breaks the obligation instead of silently invalidating the model.
-/
namespace SE.Gen.Tie
open SE

/-- the client_golang version the Registry model was written against -/
theorem clientGolangVersion : Gen.clientGolangVersion = "v1.22.0" := by decide

/-- `prometheus.DefBuckets` (the loader's default histogram buckets; `SE.Driver.defBuckets`) -/
theorem defBuckets : Gen.defBuckets = [".005", ".01", ".025", ".05", ".1", ".25", ".5", "1", "2.5", "5", "10"] := by decide

/-- summary defaults: 10 minutes / 5 age buckets (the stream duration of `SE.Reg.getOrCreate`, `summaryOptsOk`) -/
theorem summaryDefaults : Gen.defMaxAge = "10*time.Minute" ∧ Gen.defAgeBuckets = "5" := by decide

/-- `histogram.findBucket` searches linearly below 35 bounds (`SE.bucketIndex`) -/
theorem findBucketThreshold : Gen.findBucketLinearBelow = "35" := by decide

/-- bufio's default buffer size, which bounds a TCP line (`SE.bufSize`) -/
theorem bufioBufSize : Gen.bufioDefaultBufSize = toString SE.bufSize := by decide

end SE.Gen.Tie
