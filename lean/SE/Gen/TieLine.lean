import SE.Gen.Facts
import SE.Model.Line
import SE.Model.Exporter
/-
Ties between facts regenerated from the source text (SE.Gen, written by /verif/extract on every run)
and what the hand-written models assume. Each theorem is closed by `decide`/`rfl`: if the source
changes the fact, the proof obligation breaks.
-/
namespace SE.Gen.Tie
open SE

/-- `buildEvent`'s switch: exactly the stat types the model's `statTypeOf`/`buildEvent` know -/
theorem statTypes : Gen.statTypeCases = [["c"], ["g"], ["ms"], ["h", "d"], ["s"], ["<default>"]] := by decide

theorem statTypes_model :
    [statTypeOf (strBytes "c"), statTypeOf (strBytes "g"), statTypeOf (strBytes "ms"), statTypeOf (strBytes "h"),
     statTypeOf (strBytes "d"), statTypeOf (strBytes "s"), statTypeOf (strBytes "x")]
      = [.c, .g, .ms, .h, .d, .s, .bad] := by decide

/-- the extended-aggregation switch accepts exactly ms, h, d (`isExtAggType`) -/
theorem extAggTypes : Gen.extAggTypeCases = [["ms", "h", "d"]] := by decide

-- (the `reason` label strings of the error counters are regenerated into SE.Gen as well, but no property depends on
-- their spelling, so no obligation is attached to them)

end SE.Gen.Tie
