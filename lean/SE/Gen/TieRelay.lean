import SE.Gen.Facts
import SE.Model.Relay
namespace SE.Gen.Tie
open SE

/-- the relay's buffer channel has 100 slots -/
theorem relayChanCap : Gen.relayChanCap = toString SE.relayChanCap := by decide

end SE.Gen.Tie
