import SE.Gen.Facts
/-
The atomicity assumptions of the interleaving theorems, as facts regenerated from the source:
C14 (`racing_lookup_old_or_new`) treats `GetMapping` and the configuration swap of
`InitFromYAMLString` as atomic steps; C16 treats `Queue`/`Flush` as holding the queue's mutex for the whole
call, also across the channel send.
-/
namespace SE.Gen.Tie
open SE.Gen

def rowsOf (ty method : String) : List Access := Gen.accessTable.filter fun a => a.ty == ty && a.method == method

def swapLocs : List String :=
  ["MetricMapper.Defaults", "MetricMapper.Mappings", "MetricMapper.FSM", "MetricMapper.doFSM", "MetricMapper.doRegex",
   "MetricMapper.cache", "MetricMapper.cache.Reset()"]

def lookupLocs : List String :=
  ["MetricMapper.Mappings", "MetricMapper.FSM.GetMapping()", "MetricMapper.doFSM", "MetricMapper.doRegex",
   "MetricMapper.cache", "MetricMapper.cache.Get()", "MetricMapper.cache.Add()"]

/-- every part of the swap (the five fields and the cache reset) is touched by `InitFromYAMLString`, and only
    while it holds the mapper's mutex exclusively -/
theorem reload_swap_is_one_write_locked_region :
    (swapLocs.all fun l => (rowsOf "MetricMapper" "InitFromYAMLString").any fun a => a.loc == l) = true ∧
    ((rowsOf "MetricMapper" "InitFromYAMLString").all fun a => !swapLocs.contains a.loc || a.locks == [("mutex", true)]) = true := by
  decide +kernel

/-- `GetMapping` reads configuration and cache only under the mapper's read lock -/
theorem lookup_is_one_read_locked_region :
    (lookupLocs.all fun l => (rowsOf "MetricMapper" "GetMapping").any fun a => a.loc == l) = true ∧
    ((rowsOf "MetricMapper" "GetMapping").all fun a => !lookupLocs.contains a.loc || a.locks == [("mutex", false)]) = true := by
  decide +kernel

/-- `Queue` and `Flush` hold the queue's mutex for every access to `q`, and for the channel send -/
theorem queue_mutex_held_across_send :
    ((rowsOf "EventQueue" "Queue" ++ rowsOf "EventQueue" "Flush").all fun a =>
      !(a.loc == "EventQueue.q" || a.loc == "EventQueue.C") || a.locks == [("m", true)]) = true ∧
    ((rowsOf "EventQueue" "Queue").any fun a => a.loc == "EventQueue.C") = true := by
  decide +kernel

/-- the listener objects carry no mutable state of their own: no method of the three listener types other than the
    set-up-time `SetEventHandler` assigns to a field of its receiver, so packets and TCP connections handled by the same listener share nothing through it
    (C18: a datagram is unaffected by later ones, an over-long line affects only its own connection) — what they share
    are the counters, the event queue and the relay, each synchronised internally -/
theorem listeners_keep_no_state :
    (Gen.accessTable.filter fun a =>
      (a.ty == "StatsDUDPListener" || a.ty == "StatsDTCPListener" || a.ty == "StatsDUnixgramListener") && a.write && a.method != "SetEventHandler") = [] ∧
    -- (non-vacuity: the three types are in the table, with reads)
    (["StatsDUDPListener", "StatsDTCPListener", "StatsDUnixgramListener"].all fun t =>
      Gen.accessTable.any fun a => a.ty == t && !a.write) = true := by
  decide +kernel

end SE.Gen.Tie
