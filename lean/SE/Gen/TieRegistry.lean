import SE.Gen.Facts
import SE.Model.Registry
import SE.Model.Exporter
namespace SE.Gen.Tie
open SE

/-- `checkHistogramNameCollision`'s suffix list is the model's -/
theorem histogramSuffixes : Gen.histogramSuffixes.map strBytes = [sfxBucket, sfxCount, sfxSum] := by decide

/-- the exporter sweeps stale series once per second, the relay flushes once per second -/
theorem tickerPeriods : Gen.tickerPeriods.filter (·.1 != "event") = [("exporter", "time.Second"), ("relay", "1*time.Second")] := by decide

/-- the help text of unmapped / help-less metrics -/
theorem defaultHelp : strBytes Gen.defaultHelp = SE.defaultHelp := by decide

end SE.Gen.Tie
