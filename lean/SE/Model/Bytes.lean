import SE.Util
/-
Byte-string helpers that mirror the Go `strings` functions the code uses, on `Bytes`.
All separators in the modelled code are single ASCII bytes. For a valid UTF-8 string,
finding an ASCII *rune* (`for i, c := range s`, strings.IndexRune) is the same as finding
the ASCII *byte*, because bytes of multi-byte sequences are all ≥ 0x80.
-/
namespace SE

/-- `strings.Split(s, sep)` for a one-byte separator: always at least one piece -/
def splitOn (sep : UInt8) : Bytes → List Bytes
  | [] => [[]]
  | b :: bs =>
    if b == sep then [] :: splitOn sep bs
    else match splitOn sep bs with
      | [] => [[b]]            -- unreachable: splitOn never returns []
      | p :: ps => (b :: p) :: ps

/-- split at the first occurrence of `sep` (`strings.Cut` / `SplitN(s, sep, 2)`); `none` if absent -/
def cut (sep : UInt8) : Bytes → Option (Bytes × Bytes)
  | [] => none
  | b :: bs =>
    if b == sep then some ([], bs)
    else match cut sep bs with
      | none => none
      | some (l, r) => some (b :: l, r)

/-- `strings.IndexByte` -/
def indexOf (c : UInt8) : Bytes → Option Nat
  | [] => none
  | b :: bs => if b == c then some 0 else (indexOf c bs).map (· + 1)

def containsByte (c : UInt8) (bs : Bytes) : Bool := bs.any (· == c)

/-- `strings.Contains(s, sub)` -/
def containsSub (sub : Bytes) : Bytes → Bool
  | [] => sub.isEmpty
  | b :: bs => sub.isPrefixOf (b :: bs) || containsSub sub bs

def joinWith (sep : UInt8) : List Bytes → Bytes
  | [] => []
  | [p] => p
  | p :: ps => p ++ sep :: joinWith sep ps

/-- `strings.SplitN(s, sep, 3)` -/
def splitN3 (sep : UInt8) (s : Bytes) : List Bytes :=
  match cut sep s with
  | none => [s]
  | some (a, r) =>
    match cut sep r with
    | none => [a, r]
    | some (b, c) => [a, b, c]

def hasSuffix (suf s : Bytes) : Bool := suf.isSuffixOf s

end SE
