import SE.Util
namespace SE

/-- a Go `map[string]string`: association list, unique keys, order of first insertion
    (the order is never observable: outputs are sorted by key, equality of label *sets* is `Labels.same`) -/
abbrev Labels := List (Bytes × Bytes)

def Labels.set : Labels → Bytes → Bytes → Labels
  | [], k, v => [(k, v)]
  | (k', v') :: rest, k, v => if k' == k then (k', v) :: rest else (k', v') :: Labels.set rest k v

def Labels.get? : Labels → Bytes → Option Bytes
  | [], _ => none
  | (k', v') :: rest, k => if k' == k then some v' else Labels.get? rest k

def Labels.has (l : Labels) (k : Bytes) : Bool := (l.get? k).isSome

def Labels.erase : Labels → Bytes → Labels
  | [], _ => []
  | (k', v') :: rest, k => if k' == k then rest else (k', v') :: Labels.erase rest k

def bytesLt : Bytes → Bytes → Bool
  | [], [] => false
  | [], _ :: _ => true
  | _ :: _, [] => false
  | a :: as, b :: bs => a < b || (a == b && bytesLt as bs)

def insertSorted (kv : Bytes × Bytes) : Labels → Labels
  | [] => [kv]
  | x :: xs => if bytesLt kv.1 x.1 then kv :: x :: xs else x :: insertSorted kv xs

/-- canonical (sorted by key) form, as `sort.Strings(labelNames)` produces -/
def Labels.sorted (l : Labels) : Labels := l.foldr insertSorted []

end SE
