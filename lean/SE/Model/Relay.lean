import SE.Model.Bytes
/-
Model of pkg/relay/relay.go: `RelayLine` (called by the listener goroutines) and the sender
goroutine `relayOutput` with its `select` between the one-second ticker and the 100-slot buffer
channel, as a small-step machine. Go picks among ready `select` cases at random and schedules the
goroutines freely: theorems quantify over every schedule (list of labels). The outcome of each
UDP send is an oracle bit carried by the label.
-/
namespace SE

def relayChanCap : Nat := 100

structure RelaySt where
  pktLen : Nat
  chan : List Bytes := []        -- bufferChannel, oldest first
  buffer : Bytes := []
  sent : List Bytes := []        -- datagrams the socket accepted, in order
  lost : List Bytes := []        -- datagrams whose send failed
  packets : Nat := 0             -- statsd_exporter_relay_packets_total
  longLines : Nat := 0           -- …_long_lines_total
  relayed : Nat := 0             -- …_lines_relayed_total
  deriving Repr

inductive RelayLabel
  | line (l : Bytes)             -- a listener goroutine calls RelayLine(l)
  | deq (sendOk : Bool)          -- the sender takes the next line from the channel
  | tick (sendOk : Bool)         -- the sender takes a tick
  deriving Repr

def newline : UInt8 := 10

/-- `sendPacket`: an empty buffer is not sent and not counted -/
def RelaySt.sendPacket (s : RelaySt) (ok : Bool) : RelaySt :=
  if s.buffer.isEmpty then s
  else if ok then { s with sent := s.sent ++ [s.buffer], packets := s.packets + 1 }
  else { s with lost := s.lost ++ [s.buffer], packets := s.packets + 1 }

/-- what `RelayLine` does with a line before the channel send: `none` = nothing to enqueue -/
def relayAccept (pktLen : Nat) (l : Bytes) : Option Bytes :=
  if l.isEmpty then none
  else if l.length > pktLen - 1 then none
  else some (if l.getLast? == some newline then l else l ++ [newline])

/-- one atomic step; `none` = not enabled (RelayLine blocks while the channel is full) -/
def relayStep (s : RelaySt) : RelayLabel → Option RelaySt
  | .line l =>
    if l.isEmpty then some s
    else if l.length > s.pktLen - 1 then some { s with longLines := s.longLines + 1 }
    else
      if s.chan.length < relayChanCap then
        some { s with chan := s.chan ++ [if l.getLast? == some newline then l else l ++ [newline]], relayed := s.relayed + 1 }
      else none
  | .deq ok =>
    match s.chan with
    | [] => none
    | b :: rest =>
      let s := { s with chan := rest }
      if b.length + s.buffer.length > s.pktLen then
        -- flush, then seed the new buffer with the line (a failed send still resets the buffer)
        some { s.sendPacket ok with buffer := b }
      else some { s with buffer := s.buffer ++ b }
  | .tick ok => some { s.sendPacket ok with buffer := [] }

def relayRun (s : RelaySt) : List RelayLabel → Option RelaySt
  | [] => some s
  | l :: ls => (relayStep s l).bind (relayRun · ls)

end SE
