import SE.Util
/-
Model of pkg/event/event.go `EventQueue`: `Queue`, `Flush`, `FlushUnlocked`, the flush-ticker
goroutine, the mutex `m` and the bounded channel `C`, as a small-step machine. Every step is one
atomic action of one goroutine; a *schedule* is a list of step labels. Go's runtime decides which
enabled step happens next — theorems quantify over all schedules.

  Queue(events):  acquire m; for each e: { append e to q; if len(q) >= threshold: send q on C, q := [] }; release m
  ticker:         on each tick: acquire m; send q on C (even if empty), q := []; release m
  consumer:       receive one batch from C

A send is enabled only while the channel holds fewer than `cap` batches (cap = 0, the rendezvous
channel, is modelled as capacity 0 plus a direct hand-over step `sendRecv`).
-/
namespace SE

/-- program counter of a goroutine that calls into the queue -/
inductive QPc (E : Type)
  | idle                          -- not inside Queue/Flush
  | holding (rest : List E)       -- mutex held, `rest` still to append
  | sending (rest : List E)       -- mutex held, threshold reached (or tick): must send `q` next
  deriving Repr

structure QProd (E : Type) where
  todo : List (List E)            -- the Queue(...) calls this producer will still make
  pc : QPc E := .idle

structure QSt (E : Type) where
  thr : Nat
  cap : Nat
  q : List E := []
  chan : List (List E) := []        -- oldest first
  delivered : List (List E) := []   -- what the consumer has received, in order
  locked : Bool := false
  prods : List (QProd E)
  ticks : Nat                       -- ticks still to fire
  tickPc : QPc E := .idle

inductive QLabel
  | acquire (p : Nat)     -- producer p starts its next Queue call
  | append (p : Nat)
  | send (p : Nat)
  | release (p : Nat)
  | tAcquire | tSend | tRelease
  | recv
  deriving Repr, DecidableEq

variable {E : Type}

def setProd (s : QSt E) (i : Nat) (p : QProd E) : QSt E := { s with prods := s.prods.set i p }

def canSend (s : QSt E) : Bool := s.chan.length < s.cap

/-- one atomic step; `none` = the step is not enabled in this state -/
def qStep (s : QSt E) : QLabel → Option (QSt E)
  | .acquire i =>
    match s.prods[i]? with
    | some ⟨batch :: todo, .idle⟩ =>
      if s.locked then none else some { setProd s i ⟨todo, .holding batch⟩ with locked := true }
    | _ => none
  | .append i =>
    match s.prods[i]? with
    | some ⟨todo, .holding (e :: rest)⟩ =>
      let q := s.q ++ [e]
      if q.length ≥ s.thr then some { setProd s i ⟨todo, .sending rest⟩ with q := q }
      else some { setProd s i ⟨todo, .holding rest⟩ with q := q }
    | _ => none
  | .send i =>
    match s.prods[i]? with
    | some ⟨todo, .sending rest⟩ =>
      if canSend s then some { setProd s i ⟨todo, .holding rest⟩ with chan := s.chan ++ [s.q], q := [] } else none
    | _ => none
  | .release i =>
    match s.prods[i]? with
    | some ⟨todo, .holding []⟩ => some { setProd s i ⟨todo, .idle⟩ with locked := false }
    | _ => none
  | .tAcquire =>
    match s.tickPc with
    | .idle => if s.locked || s.ticks == 0 then none else some { s with locked := true, ticks := s.ticks - 1, tickPc := .sending [] }
    | _ => none
  | .tSend =>
    match s.tickPc with
    | .sending _ => if canSend s then some { s with chan := s.chan ++ [s.q], q := [], tickPc := .holding [] } else none
    | _ => none
  | .tRelease =>
    match s.tickPc with
    | .holding _ => some { s with locked := false, tickPc := .idle }
    | _ => none
  | .recv =>
    match s.chan with
    | b :: rest => some { s with chan := rest, delivered := s.delivered ++ [b] }
    | [] => none

/-- run a schedule; `none` if some step of it is not enabled -/
def qRun (s : QSt E) : List QLabel → Option (QSt E)
  | [] => some s
  | l :: ls => (qStep s l).bind (qRun · ls)

def qInit (thr cap : Nat) (programs : List (List (List E))) (ticks : Nat) : QSt E :=
  { thr := thr, cap := cap, prods := programs.map fun t => ⟨t, .idle⟩, ticks := ticks }

/-! ### the call-level (sequential) semantics the deterministic harness exercises -/

/-- `Queue(events)` run to completion by a single goroutine (never blocked: unbounded channel) -/
def queueCall (thr : Nat) : List E → List E → List (List E) → List E × List (List E)
  | q, [], out => (q, out)
  | q, e :: rest, out =>
    let q' := q ++ [e]
    if q'.length ≥ thr then queueCall thr [] rest (out ++ [q']) else queueCall thr q' rest out

end SE
