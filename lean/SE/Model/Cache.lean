import SE.Model.Mapper
/-
Model of the mapping caches (pkg/mappercache/lru on groupcache's lru.Cache, and
pkg/mappercache/randomreplacement) and of `GetMapping`'s use of them.
Random replacement deletes "the first key of a Go map iteration": an oracle number.
-/
namespace SE

/-- cache key: `string(metricType) + "." + metricName` — kept as a pair, see `formatKey_injective` -/
abbrev CKey := Nat × Bytes

/-- `formatKey` -/
def formatKey (k : CKey) : Bytes :=
  (match k.1 with | 0 => strCounter | 1 => strGauge | _ => strObserver) ++ 46 :: k.2

structure Cache (A : Type) where
  kind : Nat                 -- 0 none, 1 lru, 2 random replacement
  size : Nat
  items : List (CKey × A)    -- lru: most recently used first; rr: unordered

variable {A : Type}

def Cache.get (c : Cache A) (k : CKey) : Cache A × Option A :=
  match c.kind with
  | 0 => (c, none)
  | 1 =>
    match c.items.find? (·.1 == k) with
    | some kv => ({ c with items := kv :: c.items.filter (·.1 != k) }, some kv.2)   -- MoveToFront
    | none => (c, none)
  | _ => (c, (c.items.find? (·.1 == k)).map (·.2))

/-- `choice` picks the victim of a random-replacement eviction -/
def Cache.add (c : Cache A) (k : CKey) (a : A) (choice : Nat) : Cache A :=
  match c.kind with
  | 0 => c
  | 1 =>
    if c.items.any (·.1 == k) then { c with items := (k, a) :: c.items.filter (·.1 != k) }
    else
      let items := (k, a) :: c.items
      { c with items := if items.length > c.size then items.dropLast else items }
  | _ =>
    let items := (k, a) :: c.items.filter (·.1 != k)
    { c with items := if items.length > c.size then items.eraseIdx (choice % items.length) else items }

def Cache.reset (c : Cache A) : Cache A := { c with items := [] }

variable {V : Type}

structure CachedMapper (V : Type) where
  st : MState V
  cache : Cache (Option Mapped)

/-- `GetMapping` with the cache in front (hits, misses and negative results are all cached) -/
def CachedMapper.lookup (m : CachedMapper V) (rx : Rx) (name : Bytes) (ty : Nat) (choice : Nat) :
    CachedMapper V × Option Mapped :=
  let k : CKey := (ty, name)
  let (c1, hit) := m.cache.get k
  match hit with
  | some r => ({ m with cache := c1 }, r)
  | none =>
    let r := m.st.lookup rx name ty
    ({ m with cache := c1.add k r choice }, r)

/-- a successful reload swaps the configuration and resets the cache; a failing one changes nothing -/
def CachedMapper.reload (m : CachedMapper V) (loaded : Except LoadErr (Config V)) : CachedMapper V :=
  match loaded with
  | .error _ => m
  | .ok n => { st := m.st.swap n, cache := m.cache.reset }

end SE
