import SE.Gen.Facts
/-
Lock / ownership discipline for C20 over the access table that /verif/extract regenerates from the
current source (SE.Gen.accessTable: method, receiver-field location, read/write, receiver mutexes
held with their mode).

What is *not* extracted is written down here, by hand, and is part of the trusted base:
 * `listedRoles`/`exemptMethod`: which goroutine roles execute a method, and whether several goroutines of that role can
   run it at once (read off main.go and the package APIs); methods in neither table default to "any number of callers";
 * `canon`: under which canonical name an extracted location is tracked (every plain receiver field is, by default), and what
   a call into third-party code does to it (`lru.Cache.Get` reorders its list, i.e. writes; prometheus
   collectors, channels and slog loggers synchronise internally and are not tracked).
-/
namespace SE
open SE.Gen

structure Role where
  name : String
  multi : Bool         -- several goroutines of this role may run concurrently
  deriving DecidableEq, Repr

/-- goroutine roles per method, as read off main.go and the package APIs -/
def listedRoles (ty method : String) : List Role :=
  let exporter : Role := ⟨"exporter", false⟩
  let lookup : List Role := [exporter, ⟨"library-lookup", true⟩]    -- GetMapping: the exporter goroutine and any library caller
  let reloader : Role := ⟨"reloader", true⟩                         -- the SIGHUP goroutine and one goroutine per POST /-/reload (main.go): reloads can overlap
  let listener : Role := ⟨"listener", true⟩                         -- UDP processor, Unixgram, every TCP connection
  let tracker : Role := ⟨"cache-length-tracker", true⟩              -- `go m.trackCacheLength()`
  if ty == "MetricMapper" then
    if method == "GetMapping" || method == "GetDefaults" then lookup
    else if method == "InitFromYAMLString" || method == "InitFromFile" then [reloader]
    else []
  else if ty == "lruCache" || ty == "metricMapperLRUCache" || ty == "metricMapperRRCache" then
    if method == "Get" || method == "Add" then lookup
    else if method == "Clear" || method == "Reset" then [reloader]
    else if method == "Len" || method == "trackCacheLength" || method == "Add$go" then [tracker]
    else []
  else if ty == "EventQueue" then
    if method == "Queue" then [listener]
    else if method == "Flush" then [⟨"queue-ticker", false⟩]
    else if method == "Len" then [⟨"observer", true⟩]
    else []
  else if ty == "Relay" then
    if method == "RelayLine" then [listener]
    else if method == "relayOutput" || method == "sendPacket" then [⟨"relay-sender", false⟩]
    else []
  else if ty == "Registry" || ty == "Exporter" then [exporter]
  -- every listener method runs in listener goroutines (reader, packet processor, one goroutine per TCP connection)
  -- (`SetEventHandler` is called by main.go before the goroutines are started)
  else if ty == "StatsDUDPListener" || ty == "StatsDTCPListener" || ty == "StatsDUnixgramListener" then
    if method == "SetEventHandler" then [] else [listener]
  else []

/-- methods that are known not to run concurrently with anything that matters: value types that are event-local or
    private to the loader (all their methods), and set-up calls main.go makes before the goroutines start;
    `FlushUnlocked` is only reachable through `Queue`/`Flush` (inlined there by the extractor, with their lock) -/
def exemptMethod (ty method : String) : Bool :=
  ["CounterEvent", "GaugeEvent", "ObserverEvent", "MultiObserverEvent", "MapperConfigDefaults", "MaybeFloat64",
   "MetricMapping", "UnbufferedEventHandler", "uncheckedCollector"].contains ty ||
  [("EventQueue", "FlushUnlocked"), ("MetricMapper", "UseCache"), ("StatsDTCPListener", "SetEventHandler"),
   ("StatsDUDPListener", "SetEventHandler"), ("StatsDUnixgramListener", "SetEventHandler")].contains (ty, method)

/-- exported (callable from anywhere) or spawned with `go` (the extractor's `…$go` pseudo-methods) -/
def exportedOrSpawned (method : String) : Bool :=
  (match method.toList.head? with | some c => c.isUpper | none => false) ||
  (method.toList.reverse.take 3 == ['o', 'g', '$'])

/-- goroutine roles per method: the listed ones; any other exported or spawned method of an extracted type that is not
    exempt counts as callable by several goroutines at once — so a method added to the source is covered by the
    discipline without touching these tables (and a renamed one does not silently drop out of it). Unexported helpers
    are covered where they are called: the extractor inlines them into their callers with the locks held there. -/
def rolesOf (ty method : String) : List Role :=
  let r := listedRoles ty method
  if !r.isEmpty then r
  else if exemptMethod ty method then []
  else if exportedOrSpawned method then [⟨"unlisted-caller", true⟩]
  else []

/-- `T.f`: exactly one dot and no call suffix -/
def isPlainField (loc : String) : Bool :=
  (loc.toList.filter (· == '.')).length == 1 && !loc.toList.contains '('

/-- canonical shared location of an extracted location and whether the access writes it;
    `none` = not shared mutable state (immutable after construction, internally synchronised, or goroutine-local) -/
def canon (loc : String) (write : Bool) : Option (String × Bool) :=
  if loc == "MetricMapper.Defaults" || loc == "MetricMapper.Mappings" || loc == "MetricMapper.FSM"
     || loc == "MetricMapper.doFSM" || loc == "MetricMapper.doRegex" || loc == "MetricMapper.cache" then some (loc, write)
  else if loc == "MetricMapper.FSM.GetMapping()" then some ("MetricMapper.FSM", false)
  else if loc == "Exporter.Mapper.Defaults" || loc == "Registry.Mapper.Defaults" then some ("MetricMapper.Defaults", write)
  -- groupcache lru.Cache: Get moves the entry to the front of its list
  else if loc == "lruCache.cache.Get()" || loc == "lruCache.cache.Add()" || loc == "lruCache.cache.Clear()" then some ("lru.Cache", true)
  else if loc == "lruCache.cache.Len()" then some ("lru.Cache", false)
  else if loc == "metricMapperRRCache.items" then some (loc, write)
  else if loc == "EventQueue.q" then some (loc, write)
  else none

structure Acc where
  fn : String
  role : Role
  loc : String
  write : Bool
  locks : List (String × Bool)      -- ("Type.lock", held exclusively?)
  deriving DecidableEq, Repr

/-- plain receiver fields `T.f` that some goroutine method (one with a role) writes -/
def writtenFields (tbl : List Access) : List String :=
  ((tbl.filter fun a => a.write && isPlainField a.loc && !(rolesOf a.ty a.method).isEmpty).map (·.loc)).eraseDups

/-- `canon`, and by default: any other plain field `T.f` that a goroutine method writes counts as shared state under
    its own name and has to obey the discipline (so a field added to the source is covered without touching `canon`;
    a field that is only read after construction cannot conflict and is left out) -/
def canonIn (written : List String) (loc : String) (write : Bool) : Option (String × Bool) :=
  match canon loc write with
  | some r => some r
  | none => if written.contains loc then some (loc, write) else none

/-- the discipline rows derived from the extracted table -/
def accRows (tbl : List Access) : List Acc :=
  let written := writtenFields tbl
  tbl.flatMap fun a =>
    match canonIn written a.loc a.write with
    | none => []
    | some (loc, w) => (rolesOf a.ty a.method).map fun r =>
        -- lock names are per type: qualify them
        ⟨a.ty ++ "." ++ a.method, r, loc, w, a.locks.map fun (l, x) => (a.ty ++ "." ++ l, x)⟩

def concurrent (a b : Role) : Bool := a != b || a.multi

/-- two accesses are ordered by a common lock: some lock is held by both, exclusively by every writer -/
def protectedPair (a b : Acc) : Bool :=
  a.locks.any fun la => b.locks.any fun lb =>
    la.1 == lb.1 && (!a.write || la.2) && (!b.write || lb.2)

def conflicting (a b : Acc) : Bool := a.loc == b.loc && (a.write || b.write) && concurrent a.role b.role

/-- the pairs that violate the discipline -/
def violations (rows : List Acc) : List (Acc × Acc) :=
  rows.flatMap fun a => (rows.filter fun b => conflicting a b && !protectedPair a b).map fun b => (a, b)

/-- locations with an unprotected conflicting pair -/
def racyLocations (tbl : List Access) : List String :=
  ((violations (accRows tbl)).map (·.1.loc)).eraseDups

/-- `Discipline tbl exceptions`: every conflicting pair is protected, except on the listed locations -/
def Discipline (tbl : List Access) (exceptions : List String) : Prop :=
  ∀ l ∈ racyLocations tbl, l ∈ exceptions

instance (tbl : List Access) (ex : List String) : Decidable (Discipline tbl ex) := by
  unfold Discipline; infer_instance

end SE
