import SE.Model.Labels
/-
Model of `Registry.HashLabels` up to the hash function: the byte strings that are fed to FNV-64a for the
label *names* and for the label *values*. The registry identifies vectors by the names hash and series by
the values hash; the models identify them by the label names / the label set. That abstraction is sound iff
these encodings are injective (and FNV-64a does not collide, which is assumed).

The hash function itself (`hash/fnv`'s `New64a`: offset basis, then per byte xor and multiply by the
FNV prime, modulo 2^64) is modelled too, so that the correspondence stream `hashlabels` compares the two
64-bit hashes of the implementation with the model's bit for bit; what the theorems can say about it is
in SE/Proofs/HashFnv.lean (each step is a bijection of the state; the values hash continues the names
hash; inputs that differ in one byte never collide).
-/
namespace SE

def sepByte : UInt8 := 0xFF      -- model.SeparatorByte

/-- `NameBuf`: every sorted label name followed by the separator -/
def nameBuf (l : Labels) : Bytes := l.sorted.flatMap fun kv => kv.1 ++ [sepByte]

/-- `ValueBuf`: a separator, then every value (in name order) followed by the separator -/
def valueBuf (l : Labels) : Bytes := sepByte :: l.sorted.flatMap fun kv => kv.2 ++ [sepByte]

/-- input of the names hash -/
def namesHashInput (l : Labels) : Bytes := nameBuf l
/-- input of the values hash (the hasher is not reset in between) -/
def valuesHashInput (l : Labels) : Bytes := nameBuf l ++ valueBuf l

/-! ### FNV-64a (`hash/fnv`, `sum64a.Write`) -/

def fnvOffset : BitVec 64 := 14695981039346656037#64    -- offset64
def fnvPrime : BitVec 64 := 1099511628211#64             -- prime64

/-- `hash ^= uint64(c); hash *= prime64` -/
def fnvStep (h : BitVec 64) (c : UInt8) : BitVec 64 := (h ^^^ BitVec.ofNat 64 c.toNat) * fnvPrime

/-- `Write` on a hasher whose state is `h` -/
def fnvFrom (h : BitVec 64) (bs : Bytes) : BitVec 64 := bs.foldl fnvStep h

/-- `Reset` followed by one `Write` and `Sum64` -/
def fnv64a (bs : Bytes) : BitVec 64 := fnvFrom fnvOffset bs

/-- `lh.Names`: the hasher is reset, then fed `NameBuf` -/
def namesHash (l : Labels) : BitVec 64 := fnv64a (nameBuf l)
/-- `lh.Values`: the same hasher, NOT reset, is then fed `ValueBuf` -/
def valuesHash (l : Labels) : BitVec 64 := fnvFrom (namesHash l) (valueBuf l)

end SE
