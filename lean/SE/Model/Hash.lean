import SE.Model.Labels
/-
Model of `Registry.HashLabels` up to the hash function: the byte strings that are fed to FNV-64a for the
label *names* and for the label *values*. The registry identifies vectors by the names hash and series by
the values hash; the models identify them by the label names / the label set. That abstraction is sound iff
these encodings are injective (and FNV-64a does not collide, which is assumed).
-/
namespace SE

def sepByte : UInt8 := 0xFF      -- model.SeparatorByte

/-- `NameBuf`: every sorted label name followed by the separator -/
def nameBuf (l : Labels) : Bytes := l.sorted.flatMap fun kv => kv.1 ++ [sepByte]

/-- `ValueBuf`: a separator, then every value (in name order) followed by the separator -/
def valueBuf (l : Labels) : Bytes := sepByte :: l.sorted.flatMap fun kv => kv.2 ++ [sepByte]

/-- input of the names hash -/
def namesHashInput (l : Labels) : Bytes := nameBuf l
/-- input of the values hash (the hasher is not reset in between) -/
def valuesHashInput (l : Labels) : Bytes := nameBuf l ++ valueBuf l

end SE
