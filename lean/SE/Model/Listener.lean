import SE.Model.Bytes
/-
Model of pkg/listener/listener.go framing:
 * datagram transports (UDP, Unixgram): `HandlePacket` = `strings.Split(packet, "\n")`, every piece is a line;
 * UDP: `EnqueueUdpPacket` copies `buf[:n]` out of the *shared* read buffer into the bounded packet queue
   or counts a drop; `ProcessUdpPacketQueue` handles queued packets in order;
 * TCP: `HandleConn` = `bufio.Reader.ReadLine` (4096-byte buffer) until EOF or an over-long line
   (`isPrefix`), modelled at the level of the reader's buffer and the chunks the kernel returns per Read.
bufio is part of Go's standard library: modelled from its source, tied by correspondence.
-/
namespace SE

def lf : UInt8 := 10
def cr : UInt8 := 13
def bufSize : Nat := 4096

/-- lines of one datagram (UDP and Unixgram): every piece counts, also empty ones -/
def datagramLines (p : Bytes) : List Bytes := splitOn lf p

/-- the `RelayLine` calls `HandlePacket`/`HandleConn` make for the lines of one packet or connection when a relay is
    attached: `if l.Relay != nil && len(line) > 0 { l.Relay.RelayLine(line) }`, in line order, before the line is parsed -/
def relayCallsOf (lines : List Bytes) : List Bytes := lines.filter (!·.isEmpty)

/-! ### UDP packet queue -/

structure UdpQ where
  cap : Nat
  queue : List Bytes := []     -- copies, oldest first
  packets : Nat := 0           -- udp_packets_total
  drops : Nat := 0             -- udp_packet_drops_total
  handled : List Bytes := []   -- lines handed to relay/parser, in order

/-- `EnqueueUdpPacket(buf, n)`: the queue keeps a *copy* of `buf[:n]` -/
def UdpQ.enqueue (s : UdpQ) (buf : Bytes) (n : Nat) : UdpQ :=
  let s := { s with packets := s.packets + 1 }
  if s.queue.length < s.cap then { s with queue := s.queue ++ [buf.take n] }
  else { s with drops := s.drops + 1 }

/-- one iteration of `ProcessUdpPacketQueue` (not enabled on an empty queue) -/
def UdpQ.process (s : UdpQ) : Option UdpQ :=
  match s.queue with
  | [] => none
  | p :: rest => some { s with queue := rest, handled := s.handled ++ datagramLines p }

/-! ### The UDP `Listen` loop with its processing goroutine held back

`Listen` starts `ProcessUdpPacketQueue` and then reads datagrams; the processing goroutine takes a packet off the queue
and is inside `HandlePacket` (here: held on the packet's first line by the test rig, in production: busy) while further
datagrams arrive. So besides the `cap` packets in the channel there is one packet *in flight*. -/

structure UdpL where
  cap : Nat
  inflight : Option Bytes := none  -- the packet the processing goroutine holds
  queue : List Bytes := []         -- the channel, oldest first
  packets : Nat := 0
  drops : Nat := 0
  handled : List Bytes := []

/-- a datagram arrives: an idle processing goroutine takes it at once (through the channel), otherwise it waits in the
    channel if there is room, otherwise it is dropped and counted -/
def UdpL.recv (s : UdpL) (buf : Bytes) (n : Nat) : UdpL :=
  let s := { s with packets := s.packets + 1 }
  match s.inflight with
  | none => if s.queue.isEmpty then { s with inflight := some (buf.take n) }
            else if s.queue.length < s.cap then { s with queue := s.queue ++ [buf.take n] }
            else { s with drops := s.drops + 1 }
  | some _ => if s.queue.length < s.cap then { s with queue := s.queue ++ [buf.take n] }
              else { s with drops := s.drops + 1 }

/-- the held packet is let through: its lines are handed on, and the goroutine takes the next packet off the channel -/
def UdpL.release (s : UdpL) : Option UdpL :=
  match s.inflight with
  | none => none
  | some p =>
    match s.queue with
    | [] => some { s with inflight := none, handled := s.handled ++ datagramLines p }
    | q :: rest => some { s with inflight := some q, queue := rest, handled := s.handled ++ datagramLines p }

/-- the abstraction: the packet in flight is the head of the longer queue -/
def UdpL.abs (s : UdpL) : UdpQ :=
  { cap := s.cap + 1, queue := s.inflight.toList ++ s.queue, packets := s.packets, drops := s.drops, handled := s.handled }

/-- an idle processing goroutine leaves nothing in the channel -/
def UdpL.Inv (s : UdpL) : Prop := s.inflight = none → s.queue = []

/-! ### TCP: bufio.Reader.ReadLine over chunks -/

structure RdSt where
  buf : Bytes                  -- unread bytes in the reader's buffer (`b.buf[b.r:b.w]`), at most 4096
  chunks : List Bytes          -- what the connection will still deliver, one element per successful Read
  deriving Repr

/-- `b.fill()`: one Read into the free space of the buffer. `none` = EOF (no more chunks). -/
def RdSt.fill (s : RdSt) : Option RdSt :=
  match s.chunks with
  | [] => none
  | c :: rest =>
    let k := min c.length (bufSize - s.buf.length)
    let rest' := if k < c.length then c.drop k :: rest else rest
    some { buf := s.buf ++ c.take k, chunks := rest' }

inductive RdOut
  | line (l : Bytes)           -- a complete line (terminator stripped) or the unterminated tail at EOF
  | prefix                     -- `isPrefix = true`: the buffer filled up without a newline
  | eof
  deriving Repr, DecidableEq

def stripCR (l : Bytes) : Bytes := if l.getLast? == some cr then l.dropLast else l

/-- `ReadLine()` (via `ReadSlice('\n')`); fuel bounds the number of fills -/
def RdSt.readLine : Nat → RdSt → RdOut × RdSt
  | 0, s => (.eof, s)
  | fuel + 1, s =>
    match indexOf lf s.buf with
    | some i => (.line (stripCR (s.buf.take i)), { s with buf := s.buf.drop (i + 1) })
    | none =>
      if s.buf.length ≥ bufSize then (.prefix, s)      -- ErrBufferFull
      else match s.fill with
        | some s' =>
          -- a zero-length chunk makes no progress but is a legal Read result
          RdSt.readLine fuel s'
        | none => if s.buf.isEmpty then (.eof, s) else (.line s.buf, { s with buf := [] })

structure TcpOut where
  lines : List Bytes := []
  tooLong : Bool := false

/-- `HandleConn`: read lines until EOF or an over-long line -/
def tcpConn : Nat → RdSt → TcpOut → TcpOut
  | 0, _, o => o
  | fuel + 1, s, o =>
    match RdSt.readLine (s.chunks.length + 2) s with
    | (.line l, s') => tcpConn fuel s' { o with lines := o.lines ++ [l] }
    | (.prefix, _) => { o with tooLong := true }
    | (.eof, _) => o

def tcpLinesOfChunks (chunks : List Bytes) : TcpOut :=
  tcpConn ((chunks.map (·.length)).sum + chunks.length + 2) { buf := [], chunks := chunks } {}

end SE
