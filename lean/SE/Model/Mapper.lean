import SE.Model.Glob
import SE.Model.Template
import SE.Model.Labels
import SE.Model.Num
/-
Model of pkg/mapper: the configuration as `yaml.Unmarshal` leaves it (`RawConfig`: enum fields
still strings, legacy and new options side by side, `none` = key absent), the loader
`InitFromYAMLString` (`load`, including the `UnmarshalYAML` hooks of the enum types and of the
defaults), and `GetMapping` (`lookup`).

Go's `regexp` is external: whether a pattern compiles and what it matches are oracle
arguments (`rxOk`, `Rx`), supplied by the harness from the real `regexp` package.
-/
namespace SE

structure RawSummaryOpts (V : Type) where
  quantiles : List (V × V) := []
  maxAge : Int := 0
  ageBuckets : Nat := 0
  bufCap : Nat := 0

structure RawHistOpts (V : Type) where
  buckets : List V := []
  -- native histogram fields are not modelled

structure RawRule (V : Type) where
  matchStr : Bytes
  name : Bytes
  labels : Labels := []                  -- label name ↦ template (a Go map: unique keys)
  honorLabels : Bool := false
  observerType : Option Bytes := none    -- raw yaml strings; none = key absent
  timerType : Option Bytes := none
  legacyBuckets : Option (List V) := none
  legacyQuantiles : Option (List (V × V)) := none
  matchType : Option Bytes := none
  help : Bytes := []
  action : Option Bytes := none
  matchMetricType : Option Bytes := none
  ttl : Int := 0
  summaryOpts : Option (Option (List (V × V)) × Int × Nat × Nat) := none   -- (quantiles or nil, max_age, age_buckets, buf_cap)
  histOpts : Option (Option (List V)) := none                               -- buckets or nil
  scale : Option V := none

structure RawDefaults (V : Type) where
  observerType : Option Bytes := none
  timerType : Option Bytes := none
  legacyBuckets : List V := []
  legacyQuantiles : List (V × V) := []
  matchType : Option Bytes := none
  globDisableOrdering : Bool := false
  ttl : Int := 0
  summaryOpts : RawSummaryOpts V := {}
  histBuckets : List V := []

structure RawConfig (V : Type) where
  defaults : RawDefaults V := {}
  rules : List (RawRule V) := []

inductive ObsTy | histogram | summary | dflt deriving DecidableEq, Repr
inductive MatchTy | glob | regex deriving DecidableEq, Repr
inductive Action | map | drop deriving DecidableEq, Repr

/-- a mapping after `InitFromYAMLString` -/
structure Rule (V : Type) where
  matchStr : Bytes
  name : Bytes
  labels : Labels
  honorLabels : Bool
  observerType : ObsTy
  matchType : MatchTy
  help : Bytes
  action : Action
  matchMetricType : Option Nat        -- 0 counter 1 gauge 2 observer
  ttl : Int
  scale : Option V
  buckets : List V                    -- effective HistogramOptions.Buckets ([] when HistogramOptions == nil)
  hasHistOpts : Bool
  quantiles : List (V × V)            -- effective SummaryOptions.Quantiles
  hasSummaryOpts : Bool
  maxAge : Int
  ageBuckets : Nat
  bufCap : Nat
  pat : Pat                           -- split match (glob rules)
  captureCount : Nat

structure Config (V : Type) where
  rules : List (Rule V)
  dObserverType : ObsTy
  dTtl : Int
  dBuckets : List V
  dQuantiles : List (V × V)
  dMaxAge : Int
  dAgeBuckets : Nat
  dBufCap : Nat
  orderingDisabled : Bool
  doFSM : Bool                        -- some rule is a glob rule

inductive LoadErr
  | badEnum | badLabelKey | emptyName | badName | badMatch | badRegex
  | quantilesBoth | bucketsBoth | histWithSummaryOpts | summaryWithHistOpts
  | badBuckets | badSummaryOpts
  deriving DecidableEq, Repr

def strCounter := strBytes "counter"
def strGauge := strBytes "gauge"
def strObserver := strBytes "observer"
def strTimer := strBytes "timer"

/-- `MetricType.UnmarshalYAML` -/
def decMetricType (s : Bytes) : Except LoadErr Nat :=
  if s == strCounter then .ok 0 else if s == strGauge then .ok 1
  else if s == strObserver || s == strTimer then .ok 2 else .error .badEnum

/-- `ObserverType.UnmarshalYAML` (the explicit empty string becomes `summary`) -/
def decObserverType (s : Bytes) : Except LoadErr ObsTy :=
  if s == strBytes "histogram" then .ok .histogram
  else if s == strBytes "summary" || s == [] then .ok .summary else .error .badEnum

/-- `MatchType.UnmarshalYAML` (the explicit empty string becomes `glob`) -/
def decMatchType (s : Bytes) : Except LoadErr MatchTy :=
  if s == strBytes "regex" then .ok .regex
  else if s == strBytes "glob" || s == [] then .ok .glob else .error .badEnum

/-- `ActionType.UnmarshalYAML` -/
def decAction (s : Bytes) : Except LoadErr Action :=
  if s == strBytes "drop" then .ok .drop
  else if s == strBytes "map" || s == [] then .ok .map else .error .badEnum

def optDec {α} (f : Bytes → Except LoadErr α) : Option Bytes → Except LoadErr (Option α)
  | none => .ok none
  | some s => (f s).map some

def isAlpha_ (b : UInt8) : Bool := (97 ≤ b && b ≤ 122) || (65 ≤ b && b ≤ 90) || b == 95

/-- `labelNameRE = ^[a-zA-Z_][a-zA-Z0-9_]+$` (at least two characters) -/
def labelNameOk : Bytes → Bool
  | b :: rest => isAlpha_ b && !rest.isEmpty && rest.all isWordByte
  | [] => false

/-- one alternative of `templateReplaceRE = (\$\{?\d+\}?)` at the head: remaining input -/
def stripTemplateRef : Bytes → Option Bytes
  | b :: rest =>
    if b != cDollar then none else
    let r1 := match rest with
      | c :: r => if c == cLBrace then r else rest
      | [] => []
    let ds := r1.takeWhile isDigitB
    if ds.isEmpty then none else
    let r2 := r1.drop ds.length
    match r2 with
    | c :: r3 => if c == cRBrace then some r3 else some r2
    | [] => some []
  | [] => none

/-- `metricNameRE = ^([a-zA-Z_]|(\$\{?\d+\}?))([a-zA-Z0-9_]|(\$\{?\d+\}?))*$`.
    Greedy choices never need backtracking here: after `\d+` a `}` can only be consumed by `\}?`
    (it is in no other alternative), and a digit is better consumed by `\d+` than left over
    (a leftover digit is itself a legal tail character, so both ways succeed or fail together). -/
def metricNameTail : Nat → Bytes → Bool
  | 0, s => s.isEmpty
  | _, [] => true
  | fuel + 1, b :: rest =>
    if isWordByte b then metricNameTail fuel rest
    else match stripTemplateRef (b :: rest) with
      | some r => metricNameTail fuel r
      | none => false

def metricNameOk (s : Bytes) : Bool :=
  match s with
  | [] => false
  | b :: rest =>
    if isAlpha_ b then metricNameTail rest.length rest
    else match stripTemplateRef s with
      | some r => metricNameTail r.length r
      | none => false

def isSegByte (b : UInt8) : Bool := isWordByte b || b == 45

/-- `metricLineRE = ^(\*|[a-zA-Z_][a-zA-Z0-9_\-]*)(\.\*|\.[a-zA-Z0-9_][a-zA-Z0-9_\-]*)*$` on the split fields -/
def matchLineOk (fields : Pat) : Bool :=
  match fields with
  | [] => false
  | f0 :: rest =>
    (f0 == starB || (match f0 with | b :: r => isAlpha_ b && r.all isSegByte | [] => false)) &&
    rest.all (fun f => f == starB || (match f with | b :: r => isWordByte b && r.all isSegByte | [] => false))

variable {V : Type}

/-- `minSummaryStreamDuration` (one millisecond, in nanoseconds) -/
def minStreamDuration : Int := 1000000

/-- `validateSummaryOptions`: quantile ranks in [0, 1], max_age not negative, and max_age / age_buckets at least
    `minSummaryStreamDuration` (max_age 0 means the client library's default of ten minutes, age_buckets 0 its
    default of 5) -/
def summaryOptsOk [NumOps V] (quantiles : List (V × V)) (maxAge : Int) (ageBuckets : Nat) : Bool :=
  quantiles.all (fun q => NumOps.ge q.1 NumOps.zero && NumOps.le q.1 NumOps.one) &&
  !(maxAge < 0) &&
  !((if maxAge == 0 then 600000000000 else maxAge) / ((if ageBuckets == 0 then 5 else ageBuckets : Nat) : Int) < minStreamDuration)

def countStars (p : Pat) : Nat := (p.filter (· == starB)).length

/-- the per-mapping part of `InitFromYAMLString`; `rxOk` = `regexp.Compile(match)` succeeds -/
def loadRule [NumOps V] (rxOk : Bytes → Bool) (dMatch : MatchTy) (dObs : ObsTy) (dTtl : Int)
    (dBuckets : List V) (dQuant : List (V × V)) (dMaxAge : Int) (dAgeB dBufCap : Nat)
    (r : RawRule V) : Except LoadErr (Rule V) := do
  -- UnmarshalYAML hooks run first (any bad enum fails the whole decode)
  let obs0 ← optDec decObserverType r.observerType
  let tim0 ← optDec decObserverType r.timerType
  let mt0 ← optDec decMatchType r.matchType
  let act0 ← optDec decAction r.action
  let mmt ← optDec decMetricType r.matchMetricType
  -- `if tmp.ObserverType == "" { m.ObserverType = tmp.TimerType }` ("" = absent)
  let obsRaw : Option ObsTy := match obs0 with | some o => some o | none => tim0
  if !(r.labels.all fun kv => labelNameOk kv.1) then throw .badLabelKey
  if r.name.isEmpty then throw .emptyName
  if !metricNameOk r.name then throw .badName
  let matchType := mt0.getD dMatch
  let action := act0.getD .map
  let pat := splitOn 46 r.matchStr
  if matchType == .glob then
    if !matchLineOk pat then throw .badMatch
  else
    if !rxOk r.matchStr then throw .badRegex
  let observerType : ObsTy := match obsRaw with | some o => o | none => dObs
  -- legacy / new option conflicts
  let sumQuantSet : Bool := match r.summaryOpts with | some (some _, _) => true | _ => false
  let histBucketsSet : Bool := match r.histOpts with | some (some _) => true | _ => false
  if r.summaryOpts.isSome && r.legacyQuantiles.isSome && sumQuantSet then throw .quantilesBoth
  if r.histOpts.isSome && r.legacyBuckets.isSome && histBucketsSet then throw .bucketsBoth
  let mut hasHist := r.histOpts.isSome
  let mut buckets : List V := match r.histOpts with | some (some b) => b | _ => []
  let mut hasSum := r.summaryOpts.isSome
  let mut quantiles : List (V × V) := match r.summaryOpts with | some (some q, _) => q | _ => []
  let mut maxAge : Int := match r.summaryOpts with | some (_, a, _, _) => a | none => 0
  let mut ageB : Nat := match r.summaryOpts with | some (_, _, a, _) => a | none => 0
  let mut bufCap : Nat := match r.summaryOpts with | some (_, _, _, a) => a | none => 0
  if observerType == .histogram then
    if hasSum then throw .histWithSummaryOpts
    hasHist := true
    match r.legacyBuckets with
    | some lb => if !lb.isEmpty then buckets := lb
    | none => pure ()
    if buckets.isEmpty then buckets := dBuckets
  if observerType == .summary then
    if hasHist then throw .summaryWithHistOpts
    hasSum := true
    match r.legacyQuantiles with
    | some lq => if !lq.isEmpty then quantiles := lq
    | none => pure ()
    if quantiles.isEmpty then quantiles := dQuant
    if maxAge == 0 then maxAge := dMaxAge
    if ageB == 0 then ageB := dAgeB
    if bufCap == 0 then bufCap := dBufCap
  -- `validateBuckets` / `validateSummaryOptions` on the effective per-rule options
  if hasHist && !strictlyIncreasing buckets then throw .badBuckets
  if hasSum && !summaryOptsOk quantiles maxAge ageB then throw .badSummaryOpts
  let ttl := if r.ttl == 0 && dTtl > 0 then dTtl else r.ttl
  return { matchStr := r.matchStr, name := r.name, labels := r.labels, honorLabels := r.honorLabels,
           observerType := observerType, matchType := matchType, help := r.help, action := action,
           matchMetricType := mmt, ttl := ttl, scale := r.scale, buckets := buckets, hasHistOpts := hasHist,
           quantiles := quantiles, hasSummaryOpts := hasSum, maxAge := maxAge, ageBuckets := ageB, bufCap := bufCap,
           pat := pat, captureCount := countStars pat }

/-- `InitFromYAMLString` up to (not including) the swap under the lock. `defBuckets`/`defQuantiles`
    are `prometheus.DefBuckets` and `defaultQuantiles` (regenerated facts). -/
def load [NumOps V] (rxOk : Bytes → Bool) (defBuckets : List V) (defQuantiles : List (V × V)) (raw : RawConfig V) :
    Except LoadErr (Config V) := do
  let d := raw.defaults
  -- MapperConfigDefaults.UnmarshalYAML
  let obs0 ← optDec decObserverType d.observerType
  let tim0 ← optDec decObserverType d.timerType
  let mt0 ← optDec decMatchType d.matchType
  let dObs : ObsTy := match obs0 with | some o => o | none => (tim0.getD .dflt)
  let sumOpts : RawSummaryOpts V :=
    if d.summaryOpts.quantiles.isEmpty && !d.legacyQuantiles.isEmpty then { quantiles := d.legacyQuantiles } else d.summaryOpts
  let histB : List V := if d.histBuckets.isEmpty && !d.legacyBuckets.isEmpty then d.legacyBuckets else d.histBuckets
  -- InitFromYAMLString
  let dBuckets := if histB.isEmpty then defBuckets else histB
  let dQuant := if sumOpts.quantiles.isEmpty then defQuantiles else sumOpts.quantiles
  let dMatch := mt0.getD .glob
  -- the effective defaults are validated first
  if !strictlyIncreasing dBuckets then throw .badBuckets
  if !summaryOptsOk dQuant sumOpts.maxAge sumOpts.ageBuckets then throw .badSummaryOpts
  let rules ← raw.rules.mapM (loadRule rxOk dMatch dObs d.ttl dBuckets dQuant sumOpts.maxAge sumOpts.ageBuckets sumOpts.bufCap)
  return { rules := rules, dObserverType := dObs, dTtl := d.ttl, dBuckets := dBuckets, dQuantiles := dQuant,
           dMaxAge := sumOpts.maxAge, dAgeBuckets := sumOpts.ageBuckets, dBufCap := sumOpts.bufCap,
           orderingDisabled := d.globDisableOrdering,
           doFSM := rules.any (·.matchType == .glob) }

/-! ### GetMapping -/

/-- result of one regex rule on one metric name: `none` = no match -/
abbrev Rx := Nat → Bytes → Option RxMatch     -- rule index (in `Config.rules`) → name → submatches

structure Mapped where
  ruleIdx : Nat
  name : Option Bytes          -- expanded name; none = outside the modelled fragment (glob: Sprintf verbs; regex: name runes)
  labels : List (Bytes × Option Bytes)
  deriving Repr, DecidableEq

/-- the glob rules in order, with their index in `rules` -/
def globRules (cfg : Config V) : List (Nat × Rule V) :=
  (cfg.rules.zipIdx.filter (fun (r, _) => r.matchType == .glob)).map (fun (r, i) => (i, r))

def toGRules (cfg : Config V) : List GRule :=
  (globRules cfg).map fun (_, r) => ⟨r.pat, r.matchMetricType⟩

def lookupGlob (cfg : Config V) (name : Bytes) (ty : Nat) : Option Mapped :=
  match globLookup (toGRules cfg) cfg.orderingDisabled (splitOn 46 name) ty with
  | none => none
  | some f =>
    match (globRules cfg)[f.rule]? with
    | none => none
    | some (i, r) =>
      some { ruleIdx := i,
             name := (compileTemplate r.name r.captureCount).format f.caps,
             labels := r.labels.map fun (k, t) => (k, (compileTemplate t r.captureCount).format f.caps) }

def lookupRegex (cfg : Config V) (rx : Rx) (name : Bytes) (ty : Nat) : Option Mapped :=
  (cfg.rules.zipIdx.findSome? fun (r, i) =>
    if r.matchType != .regex then none else
    match rx i name with
    | none => none
    | some m =>
      if (match r.matchMetricType with | some t => t != ty | none => false) then none else
      some { ruleIdx := i, name := rxExpand m r.name.length r.name,
             labels := r.labels.map fun (k, t) => (k, rxExpand m t.length t) })

/-- which machinery `GetMapping` consults. `fsmLive`/`regexLive` are the mapper's `doFSM`/`doRegex`
    fields; after a (re)load they are `cfg.doFSM` and — only meaningful when `doFSM` —
    "some rule is a regex rule". -/
def lookup (cfg : Config V) (rx : Rx) (name : Bytes) (ty : Nat) : Option Mapped :=
  if cfg.doFSM then
    match lookupGlob cfg name ty with
    | some m => some m
    | none =>
      if cfg.rules.any (·.matchType == .regex) then lookupRegex cfg rx name ty else none
  else lookupRegex cfg rx name ty

end SE

namespace SE
variable {V : Type}

/-! ### the mapper object across reloads (C14) -/

/-- `MetricMapper` as far as `GetMapping` reads it. `fsm` is the configuration the current `m.FSM`
    was built from: a reload whose new configuration has no glob rule leaves `m.FSM` and `m.doRegex`
    untouched (stale). -/
structure MState (V : Type) where
  cfg : Config V
  fsm : Config V
  doFSM : Bool
  doRegex : Bool

def hasRegex (cfg : Config V) : Bool := cfg.rules.any (·.matchType == .regex)

def MState.fresh (n : Config V) : MState V :=
  { cfg := n, fsm := n, doFSM := n.doFSM, doRegex := hasRegex n }

/-- the assignments `InitFromYAMLString` makes under the write lock -/
def MState.swap (st : MState V) (n : Config V) : MState V :=
  { cfg := n,
    fsm := if n.doFSM then n else st.fsm,
    doRegex := if n.doFSM then hasRegex n else st.doRegex,
    doFSM := n.doFSM }

/-- `GetMapping` without cache, on the mapper object -/
def MState.lookup (st : MState V) (rx : Rx) (name : Bytes) (ty : Nat) : Option Mapped :=
  if st.doFSM then
    match lookupGlob st.fsm name ty with
    | some m => some m
    | none => if st.doRegex then lookupRegex st.cfg rx name ty else none
  else lookupRegex st.cfg rx name ty

end SE
