import SE.Model.Bytes
/-
Model of pkg/mapper/fsm/fsm.go: `AddState`, `GetMapping`, `TestIfNeedBacktracking`.

The trie is not built as a nested data structure: a node *is* its path from the per-type
root, and every node attribute is a function of "the rules (of that type root) whose pattern
has this path as a prefix", in the order the rules were added:
  * the node exists iff some rule runs through it;
  * min/maxRemainingLength = min/max over those rules of (rule length − depth);
  * Result / ResultPriority belong to the *first* rule that ends exactly here (AddState after
    the repair "the first rule ending in a state owns it").
`dfs` is `GetMapping`'s loop pair (depth-only search + backtrack stack) as structural
recursion on the remaining fields; it returns the final states in the order the real search
reaches them.
-/
namespace SE

abbrev Pat := List Bytes

def starB : Bytes := [42]

structure GRule where
  pat : Pat
  ty  : Option Nat     -- match_metric_type: none = all three roots; 0 counter, 1 gauge, 2 observer
  deriving Repr, DecidableEq

/-- rules of one type root: (glob index = `statesCount` when added, fields), in add order -/
abbrev TRules := List (Nat × Pat)

def rulesFor (rules : List GRule) (ty : Nat) : TRules :=
  (rules.zipIdx.filter (fun (r, _) => r.ty.isNone || r.ty == some ty)).map (fun (r, i) => (i, r.pat))

def through (rs : TRules) (p : Pat) : TRules := rs.filter (fun r => p.isPrefixOf r.2)

def nodeExists (rs : TRules) (p : Pat) : Bool := !(through rs p).isEmpty
def hasChildren (rs : TRules) (p : Pat) : Bool := (through rs p).any (fun r => r.2.length > p.length)
def minRem (rs : TRules) (p : Pat) : Nat :=
  match (through rs p).map (fun r => r.2.length - p.length) with
  | [] => 0
  | x :: xs => xs.foldl min x
def maxRem (rs : TRules) (p : Pat) : Nat :=
  ((through rs p).map (fun r => r.2.length - p.length)).foldl max 0

/-- `Result` (and `ResultPriority`): the first rule that ends exactly at this node -/
def result (rs : TRules) (p : Pat) : Option Nat :=
  (rs.find? (fun r => r.2 == p)).map (·.1)

def okChild (rs : TRules) (p : Pat) (f : Bytes) (left : Nat) : Bool :=
  let q := p ++ [f]
  nodeExists rs q && minRem rs q ≤ left && left ≤ maxRem rs q

structure Found where
  rule : Nat            -- glob index of the rule = its priority
  caps : List Bytes
  deriving Repr, DecidableEq

/-- all final states in the order the search reaches them. `bt` = BacktrackingNeeded;
    `p` = current node, `caps` = captures so far, third argument = remaining fields. -/
def dfs (rs : TRules) (bt : Bool) : Pat → List Bytes → List Bytes → List Found
  | _, _, [] => []
  | p, caps, f :: rest =>
    if !hasChildren rs p then [] else
    let left := rest.length
    let visit (q : Pat) (caps' : List Bytes) : List Found :=
      match rest with
      | [] => match result rs q with
        | some r => [⟨r, caps'⟩]
        | none => []
      | _ :: _ => dfs rs bt q caps' rest
    -- (a field that is literally `*` is not taken for the literal transition: repair 0275669)
    if f != starB && okChild rs p f left then
      visit (p ++ [f]) caps ++
        (if bt && okChild rs p starB left then visit (p ++ [starB]) (caps ++ [f]) else [])
    else if okChild rs p starB left then visit (p ++ [starB]) (caps ++ [f])
    else []

/-- ordered: lowest priority number wins, the earlier-found on a tie; unordered: first found -/
def pick (ordered : Bool) (fs : List Found) : Option Found :=
  if !ordered then fs.head? else
  fs.foldl (fun best f => match best with
    | none => some f
    | some b => if b.rule > f.rule then some f else some b) none

/-- regex `^r1$` (dots escaped, `*` ↦ `([^.]*)`) matches the *text* of r2; both of one length group -/
def globText (r1 r2 : Pat) : Bool :=
  r1.length == r2.length && (r1.zip r2).all (fun (a, b) => a == starB || a == b)

def patText (r : Pat) : Bytes := joinWith 46 r

/-- the texts `r[:index]` for every byte index at which the rule text has a `*` -/
def prefixesBeforeStars (r : Pat) : List Bytes :=
  let s := patText r
  (List.range s.length).filterMap (fun i => if s[i]? == some 42 then some (s.take i) else none)

/-- `TestIfNeedBacktracking` -/
def needBT (pats : List Pat) (orderingDisabled : Bool) : Bool :=
  let lens := (pats.map (·.length)).eraseDups
  let groupNeeds (l : Nat) : Bool :=
    let rules := pats.filter (·.length == l)
    if rules.length == 1 then false else
    rules.zipIdx.any (fun (r1, i1) =>
      if !r1.contains starB then false else
      let others := (rules.zipIdx.filter (fun (_, i2) => i2 != i1)).map (·.1)
      let c1 := (prefixesBeforeStars r1).any (fun pre => others.any (fun r2 => pre.isPrefixOf (patText r2)))
      let c2 := others.any (fun r2 => globText r1 r2)
      let c3 := others.any (fun r2 => globText r2 r1)
      c1 && !c2 && !c3)
  !orderingDisabled || lens.any groupNeeds

/-- some node of the type root's trie has the wildcard child together with a literal child: rule `r1` has `*` as its
    `k`-th field and another rule goes through the same node (`r1.take k`) with a literal `k`-th field -/
def ambiguousAt (rs : TRules) : Bool :=
  rs.any fun r1 => (List.range r1.2.length).any fun k =>
    r1.2[k]? == some starB &&
      rs.any fun r2 => (r1.2.take k).isPrefixOf r2.2 && k < r2.2.length && r2.2[k]? != some starB

/-- `FSM.HasAmbiguousTransitions` (added by the repair of the unordered-mode defect): some state of the FSM — under
    any of the type roots — can be left both through `*` and through a literal transition.
    The loader only produces the types 0, 1, 2 (= the FSM's three roots); the model's rule type is an arbitrary
    `Nat`, so every type occurring in the rules counts as a root. For loaded configurations it is the same
    disjunction over the three roots. -/
def ambiguous (rules : List GRule) : Bool :=
  ([0, 1, 2] ++ rules.filterMap GRule.ty).any fun ty => ambiguousAt (rulesFor rules ty)

/-- `BacktrackingNeeded` as mapper.go computes it: `TestIfNeedBacktracking(...) || FSM.HasAmbiguousTransitions()` -/
def backtracking (rules : List GRule) (orderingDisabled : Bool) : Bool :=
  needBT (rules.map (·.pat)) orderingDisabled || ambiguous rules

/-- `FSM.GetMapping` on the FSM built from `rules` -/
def globLookup (rules : List GRule) (orderingDisabled : Bool) (name : Pat) (ty : Nat) : Option Found :=
  let rs := rulesFor rules ty
  let bt := backtracking rules orderingDisabled
  pick (!orderingDisabled) (dfs rs bt [] [] name)

end SE
