import SE.Model.Utf8
/-
Model of `mapper.EscapeMetricName` (pkg/mapper/escape.go), statement by statement:
the lazy `escaped`/`offset` bookkeeping, the `metricName[offset:i]` slice expression
(which panics when `offset > i` — modelled as `none`) and the `continue` that leaves
`prevChar` untouched. One `stepTok` is one iteration of `for i, c := range metricName`.
-/
namespace SE

inductive Cls | ok | dash | other deriving DecidableEq, Repr

def isNameByte (b : UInt8) : Bool :=
  (97 ≤ b && b ≤ 122) || (65 ≤ b && b ≤ 90) || (48 ≤ b && b ≤ 57) || b == 95

def isDigit (b : UInt8) : Bool := 48 ≤ b && b ≤ 57

def us : UInt8 := 95
def dashB : UInt8 := 45

/-- which branch of the loop body the rune takes -/
def Tok.cls (t : Tok) : Cls :=
  match t.bytes with
  | [b] => if isNameByte b then .ok else if b == dashB then .dash else .other
  | _ => .other

def Tok.w (t : Tok) : Nat := t.bytes.length

/-- Go slice expression `s[a:b]`; `none` is the run-time panic -/
def slice (inp : Bytes) (a b : Nat) : Option Bytes :=
  if a ≤ b ∧ b ≤ inp.length then some ((inp.drop a).take (b - a)) else none

structure EscSt where
  offset   : Nat
  i        : Nat
  escaped  : Bool
  sb       : Bytes
  prevDash : Bool      -- `prevChar == '-'`

def stepTok (inp : Bytes) (s : EscSt) (t : Tok) : Option EscSt :=
  match t.cls with
  | .ok => some { s with i := s.i + t.w, prevDash := false }
  | c =>
    if c = .dash ∧ s.prevDash then
      -- `offset = i + utf8.RuneLen('-'); continue` (prevChar stays '-')
      some { s with offset := s.i + 1, i := s.i + t.w }
    else
      match slice inp s.offset s.i with
      | none => none
      | some chunk =>
        -- `_, width := utf8.DecodeRuneInString(metricName[i:]); offset = i + width`
        some { offset := s.i + t.w, i := s.i + t.w, escaped := true,
               sb := s.sb ++ chunk ++ [us], prevDash := (c = .dash) }

def runToks (inp : Bytes) : EscSt → List Tok → Option EscSt
  | s, [] => some s
  | s, t :: ts => (stepTok inp s t).bind (runToks inp · ts)

def escapeToks (inp : Bytes) (ts : List Tok) : Option Bytes :=
  match inp with
  | [] => some []
  | b0 :: _ =>
    let s0 : EscSt := { offset := 0, i := 0, escaped := isDigit b0,
                        sb := if isDigit b0 then [us] else [], prevDash := false }
    match runToks inp s0 ts with
    | none => none
    | some s =>
      if !s.escaped then some inp
      else if s.offset < inp.length then some (s.sb ++ inp.drop s.offset) else some s.sb

/-- `EscapeMetricName`; `none` = panic -/
def escape (inp : Bytes) : Option Bytes := escapeToks inp (tokens inp)

end SE
