import SE.Model.Listener
import SE.Model.Utf8
import SE.Spec.Listener
import SE.Spec.PipeHistory
/-
The ingest path composed: listener (framing) → line parser → event queue (order preserving, C16) → exporter.
What a listener goroutine does with one line is `lineOp`; a datagram or a TCP connection contributes the operations of
its lines in order. The pipeline streams of the correspondence check (`pipe`, `binary`) execute exactly this composition:
the driver applies `lineToEvents` and then `handleEvents` per line.
-/
namespace SE
variable {V : Type} [NumOps V]

/-- parse one line and hand its events (with the line's tags) to the exporter -/
def lineOp (fl : ParserFlags) (pf : Pf V) (l : Bytes) : PipeOp V :=
  let o := lineToEvents fl pf (validUtf8 l) l
  .line o.labels o.events

/-- a UDP or Unixgram datagram -/
def datagramOps (fl : ParserFlags) (pf : Pf V) (d : Bytes) : List (PipeOp V) := (datagramLines d).map (lineOp fl pf)

/-- a TCP connection that delivers the byte stream `stream` (any segmentation: `SE.Props.C18.tcp_segmentation_irrelevant`) -/
def tcpOps (fl : ParserFlags) (pf : Pf V) (stream : Bytes) : List (PipeOp V) :=
  (tcpLinesOfStream stream).lines.map (lineOp fl pf)

end SE
