import SE.Model.Bytes
import SE.Model.Labels
import SE.Model.Num
import SE.Spec.Escape
/-
Model of pkg/line/line.go: `LineToEvents` with `parseNameAndTags`, `parseNameTags`,
`ParseDogStatsDTags`, `parseTag`, `buildEvent`, and the five counters it moves.
`EscapeMetricName` is represented by `specEscape`, which `SE.Props.C15.escape_eq_spec`
proves equal to the loop model for every input.

All events of a line share one Go map; the model therefore returns the *final* label map once
(`labels`) and every event of the line carries exactly that map.
-/
namespace SE

structure ParserFlags where
  dogstatsd : Bool
  influxdb  : Bool
  librato   : Bool
  signalfx  : Bool
  deriving Repr, DecidableEq

inductive EvKind | counter | gauge | observer deriving DecidableEq, Repr

structure Ev (V : Type) where
  kind     : EvKind
  name     : Bytes
  value    : V
  relative : Bool          -- only meaningful for gauges
  deriving Repr

inductive Reason
  | malformedLine | mixedTaggingStyles | notEnoughParts | invalidExtAggType
  | malformedComponent | malformedValue | invalidSampleFactor | illegalEvent
  deriving DecidableEq, Repr

structure ParseOut (V : Type) where
  events  : List (Ev V) := []
  labels  : Labels := []            -- the one map shared by all events of the line
  errs    : List Reason := []       -- increments of `sampleErrors`, in order
  samples : Nat := 0                -- `samplesReceived`
  tagErrs : Nat := 0                -- `tagErrors`
  tagsRecv : Nat := 0               -- `tagsReceived`

def cColon : UInt8 := 58
def cPipe : UInt8 := 124
def cHash : UInt8 := 35
def cComma : UInt8 := 44
def cEq : UInt8 := 61
def cAt : UInt8 := 64
def cLBr : UInt8 := 91
def cRBr : UInt8 := 93
def cPlus : UInt8 := 43
def cMinus : UInt8 := 45

/-- `parseTag`: returns the new map and the number of tag errors (0 or 1) -/
def parseTag (tag : Bytes) (sep : UInt8) (labels : Labels) : Labels × Nat :=
  if tag.isEmpty then (labels, 1)
  else match cut sep tag with
    | none => (labels, 1)
    | some (k, v) =>
      if k.isEmpty || v.isEmpty then (labels, 1)
      else (labels.set (specEscape k) v, 0)

/-- the shared shape of `parseNameTags` and `ParseDogStatsDTags`: every comma-terminated piece is
    a tag (also an empty one); the piece after the last comma only if it is non-empty -/
def parseTagPieces (trim : Bytes → Bytes) (sep : UInt8) : List Bytes → Labels → Nat → Labels × Nat
  | [], labels, e => (labels, e)
  | [last], labels, e =>
    if last.isEmpty then (labels, e)
    else let (l, n) := parseTag (trim last) sep labels; (l, e + n)
  | p :: ps, labels, e =>
    let (l, n) := parseTag (trim p) sep labels
    parseTagPieces trim sep ps l (e + n)

def parseNameTags (component : Bytes) (labels : Labels) : Labels × Nat :=
  parseTagPieces id cEq (splitOn cComma component) labels 0

def trimLeftHash : Bytes → Bytes
  | b :: bs => if b == cHash then bs else b :: bs
  | [] => []

def parseDogStatsDTags (fl : ParserFlags) (component : Bytes) (labels : Labels) : Labels × Nat :=
  if fl.dogstatsd then parseTagPieces trimLeftHash cColon (splitOn cComma component) labels 0
  else (labels, 0)

/-- position of the first `#` (Librato) or `,` (InfluxDB) that is enabled -/
def firstNameTagSep (fl : ParserFlags) : Bytes → Option Nat
  | [] => none
  | b :: bs =>
    if (b == cHash && fl.librato) || (b == cComma && fl.influxdb) then some 0
    else (firstNameTagSep fl bs).map (· + 1)

/-- `parseNameAndTags`: metric name, labels, tag errors -/
def parseNameAndTags (fl : ParserFlags) (name : Bytes) : Bytes × Labels × Nat :=
  let plain : Bytes × Labels × Nat :=
    match firstNameTagSep fl name with
    | some i => let (l, e) := parseNameTags (name.drop (i + 1)) []; (name.take i, l, e)
    | none => (name, [], 0)
  if fl.signalfx then
    match indexOf cLBr name, indexOf cRBr name with
    | some s, some e =>
      if s < e then
        let (l, n) := parseNameTags ((name.drop (s + 1)).take (e - s - 1)) []
        (name.take s ++ name.drop (e + 1), l, n)
      else (name, [], 1)
    | some _, none => (name, [], 1)
    | none, some _ => (name, [], 1)
    | none, none => plain
  else plain

inductive StatType | c | g | ms | h | d | s | bad deriving DecidableEq, Repr

def statTypeOf (b : Bytes) : StatType :=
  if b == [99] then .c else if b == [103] then .g else if b == [109, 115] then .ms
  else if b == [104] then .h else if b == [100] then .d else if b == [115] then .s else .bad

variable {V : Type} [NumOps V]

/-- `buildEvent` -/
def buildEvent (st : StatType) (metric : Bytes) (value : V) (relative : Bool) : Option (Ev V) :=
  match st with
  | .c => some ⟨.counter, metric, value, false⟩
  | .g => some ⟨.gauge, metric, value, relative⟩
  | .ms => some ⟨.observer, metric, NumOps.div value NumOps.thousand, false⟩
  | .h => some ⟨.observer, metric, value, false⟩
  | .d => some ⟨.observer, metric, value, false⟩
  | .s => none
  | .bad => none

/-- state threaded through the `|@…`/`|#…` components of one sample -/
structure CompSt (V : Type) where
  value : V
  mult : Int
  labels : Labels
  errs : List Reason
  tagErrs : Nat

def stepComponent (fl : ParserFlags) (pf : Pf V) (st : StatType) (s : CompSt V) (comp : Bytes) : CompSt V :=
  match comp with
  | [] => s                                       -- excluded by the caller (empty component ⇒ sample skipped)
  | b :: rest =>
    if b == cAt then
      let (sf0, err) := pf rest
      let s := if err != .ok then { s with errs := s.errs ++ [Reason.invalidSampleFactor] } else s
      let sf := if NumOps.isZero sf0 then NumOps.one else sf0
      match st with
      | .g => s
      | .c => { s with value := NumOps.div s.value sf }
      | .ms => { s with mult := NumOps.recipInt sf }
      | .h => { s with mult := NumOps.recipInt sf }
      | .d => { s with mult := NumOps.recipInt sf }
      | _ => s
    else if b == cHash then
      let (l, n) := parseDogStatsDTags fl rest s.labels
      { s with labels := l, tagErrs := s.tagErrs + n }
    else { s with errs := s.errs ++ [Reason.invalidSampleFactor] }

/-- one iteration of the `samples:` loop -/
def parseSample (fl : ParserFlags) (pf : Pf V) (metric : Bytes) (o : ParseOut V) (sample : Bytes) : ParseOut V :=
  let o := { o with samples := o.samples + 1 }
  let components := splitOn cPipe sample
  match components with
  | valueStr :: stBytes :: extra =>
    if extra.length > 2 then { o with errs := o.errs ++ [Reason.malformedComponent] } else
    let relative := match valueStr with
      | b :: _ => b == cPlus || b == cMinus
      | [] => false
    let (value, err) := pf valueStr
    if err != .ok then { o with errs := o.errs ++ [Reason.malformedValue] } else
    if extra.any (·.isEmpty) then { o with errs := o.errs ++ [Reason.malformedComponent] } else
    let st := statTypeOf stBytes
    let cs := extra.foldl (stepComponent fl pf st) ⟨value, 1, o.labels, [], 0⟩
    let o := { o with labels := cs.labels, errs := o.errs ++ cs.errs, tagErrs := o.tagErrs + cs.tagErrs }
    let o := if cs.labels.isEmpty then o else { o with tagsRecv := o.tagsRecv + 1 }
    let n := cs.mult.toNat
    match buildEvent st metric cs.value relative with
    | some ev => { o with events := o.events ++ List.replicate n ev }
    | none => { o with errs := o.errs ++ List.replicate n Reason.illegalEvent }
  | _ => { o with errs := o.errs ++ [Reason.malformedComponent] }

def isExtAggType (b : Bytes) : Bool := b == [109, 115] || b == [104] || b == [100]

/-- `LineToEvents` for a line that passed `utf8.ValidString`; `valid` is that test's result -/
def lineToEvents (fl : ParserFlags) (pf : Pf V) (valid : Bool) (line : Bytes) : ParseOut V :=
  if line.isEmpty then {} else
  match cut cColon line with
  | none => { errs := [.malformedLine] }
  | some (e0, e1) =>
    if e0.isEmpty || !valid then { errs := [.malformedLine] } else
    let (metric, labels, tagErrs) := parseNameAndTags fl e0
    let usingDog := containsSub [cPipe, cHash] e1
    if usingDog && !labels.isEmpty then { errs := [.mixedTaggingStyles], tagErrs := tagErrs } else
    let lineParts := splitN3 cPipe e1
    match lineParts with
    | p0 :: p1 :: _ =>
      let start : ParseOut V := { labels := labels, tagErrs := tagErrs }
      if containsByte cColon p0 then
        if isExtAggType p1 then
          let suffix := match cut cPipe e1 with | some (_, r) => r | none => []
          let samples := (splitOn cColon p0).map fun v => v ++ cPipe :: suffix
          samples.foldl (parseSample fl pf metric) start
        else { errs := [.invalidExtAggType], tagErrs := tagErrs }
      else if usingDog then parseSample fl pf metric start e1
      else (splitOn cColon e1).foldl (parseSample fl pf metric) start
    | _ => { errs := [.notEnoughParts], tagErrs := tagErrs }

end SE
