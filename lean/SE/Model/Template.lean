import SE.Model.Bytes
/-
Model of pkg/mapper/fsm/formatter.go (`NewTemplateFormatter`, `Format`) and of the template
syntax of Go's `regexp.Expand` (the latter is third-party: modelled from its source, tied by
correspondence).

`fmt.Sprintf` is modelled only for the verbs the formatter itself can produce or that are
harmless (`%s`, `%%`); any other `%` sequence makes the result `none` ("unmodelled"), never a
guess.
-/
namespace SE

def cDollar : UInt8 := 36
def cLBrace : UInt8 := 123
def cRBrace : UInt8 := 125
def cPct : UInt8 := 37

def isWordByte (b : UInt8) : Bool :=
  (97 ≤ b && b ≤ 122) || (65 ≤ b && b ≤ 90) || (48 ≤ b && b ≤ 57) || b == 95

/-- character class `[a-zA-Z0-9_]` of `templateReplaceCaptureRE` -/
def isRefByte (b : UInt8) : Bool := isWordByte b

/-- one match of `\$\{?([a-zA-Z0-9_]+)\}?` anchored at a `$` whose tail is `rest`:
    (whole match text without the leading `$`, group 1, remaining input) -/
def refMatchAt (rest : Bytes) : Option (Bytes × Bytes × Bytes) :=
  let (brace, r1) := match rest with
    | b :: r => if b == cLBrace then (true, r) else (false, rest)
    | [] => (false, [])
  let grp := r1.takeWhile isRefByte
  if grp.isEmpty then none        -- with `{` taken there is no class byte either way: `{` itself is not in the class
  else
    let r2 := r1.drop grp.length
    let pre : Bytes := if brace then [cLBrace] else []
    match r2 with
    | b :: r3 => if b == cRBrace then some (pre ++ grp ++ [cRBrace], grp, r3) else some (pre ++ grp, grp, r2)
    | [] => some (pre ++ grp, grp, [])

/-- `FindAllStringSubmatch`: leftmost, non-overlapping; returns (match[0], match[1]) pairs -/
def findRefs : Nat → Bytes → List (Bytes × Bytes)
  | 0, _ => []
  | _, [] => []
  | fuel + 1, b :: rest =>
    if b == cDollar then
      match refMatchAt rest with
      | some (m, g, r) => (cDollar :: m, g) :: findRefs fuel r
      | none => findRefs fuel rest
    else findRefs fuel rest

/-- `strings.ReplaceAll(s, old, new)` for non-empty `old` -/
def replaceAll (old new : Bytes) : Nat → Bytes → Bytes
  | 0, s => s
  | _, [] => []
  | fuel + 1, b :: rest =>
    if old.isPrefixOf (b :: rest) && !old.isEmpty then new ++ replaceAll old new fuel ((b :: rest).drop old.length)
    else b :: replaceAll old new fuel rest

/-- (formerly used by the formatter; now only by the driver's classification of templates) `strconv.Atoi` on a group (bytes of the class only): digits only; `none` also stands for overflow,
    which is indistinguishable here because both lead to "replace by the empty string" -/
def atoiDigits (g : Bytes) : Option Nat :=
  if g.all (fun b => 48 ≤ b && b ≤ 57) && !g.isEmpty then
    some (g.foldl (fun n b => n * 10 + (b.toNat - 48)) 0)
  else none

def missingStr : Bytes := strBytes "%!s(MISSING)"

/-- `fmt.Sprintf(format, args...)` with string arguments, restricted to `%s` and `%%` -/
def sprintfS : Bytes → List Bytes → Option Bytes
  | [], [] => some []
  | [], extra => some (strBytes "%!(EXTRA " ++ joinExtra extra ++ strBytes ")")
  | b :: rest, args =>
    if b == cPct then
      match rest with
      | c :: rest' =>
        if c == 115 then
          match args with
          | a :: as => (sprintfS rest' as).map (a ++ ·)
          | [] => (sprintfS rest' []).map (missingStr ++ ·)
        else if c == cPct then (sprintfS rest' args).map (cPct :: ·)
        else none
      | [] => none
    else (sprintfS rest args).map (b :: ·)
where
  joinExtra : List Bytes → Bytes
    | [] => []
    | [a] => strBytes "string=" ++ a
    | a :: as => strBytes "string=" ++ a ++ strBytes ", " ++ joinExtra as

/-! ### `regexp.Expand` template syntax -/

def isDigitB (b : UInt8) : Bool := 48 ≤ b && b ≤ 57

/-- the ASCII name syntax of the specification (`expandSpec`, `refNames`): (name, rest) or none when
    malformed; a name is the longest run of `[A-Za-z0-9_]`. (The *model* of Go's `extract`, which scans
    the name rune by rune, is `rxExtractU` below.) -/
def rxExtract (s : Bytes) : Option (Bytes × Bytes) :=
  let (brace, s1) := match s with
    | b :: r => if b == cLBrace then (true, r) else (false, s)
    | [] => (false, [])
  let name := s1.takeWhile isWordByte
  if name.isEmpty then none else
  let r := s1.drop name.length
  if brace then
    match r with
    | b :: r' => if b == cRBrace then some (name, r') else none
    | [] => none
  else some (name, r)

/-- `unicode.IsLetter r || unicode.IsDigit r` for a rune in U+0080..U+027F (Latin-1 Supplement,
    Latin Extended-A/B, the head of IPA Extensions): `ª µ º`, `À..Ö`, `Ø..ö`, `ø..ɿ`. There is no
    non-ASCII decimal digit below U+0660. -/
def isLetterLatin (r : Nat) : Bool :=
  r == 0xAA || r == 0xB5 || r == 0xBA || (0xC0 ≤ r && r ≤ 0xD6) || (0xD8 ≤ r && r ≤ 0xF6) ||
  (0xF8 ≤ r && r ≤ 0x27F)

/-- Go's `utf8.DecodeRune` on the head of `s` followed by `unicode.IsLetter r || unicode.IsDigit r || r == '_'`, as far as
    it is modelled: `some (w, b)` — the rune is `w` bytes wide and is (`b = true`) or is not a name rune; `none` — not
    modelled (lead bytes 0xCA..0xF4). An invalid encoding decodes to `RuneError` of width 1, which is not a name rune;
    the empty input to width 0. -/
def nameRune : Bytes → Option (Nat × Bool)
  | [] => some (0, false)
  | b :: rest =>
    if b < 0x80 then some (1, isWordByte b)
    else if 0xC2 ≤ b && b ≤ 0xC9 then
      match rest with
      | c :: _ =>
        if 0x80 ≤ c && c ≤ 0xBF then some (2, isLetterLatin ((b.toNat - 0xC0) * 64 + (c.toNat - 0x80)))
        else some (1, false)
      | [] => some (1, false)
    else if 0xCA ≤ b && b ≤ 0xF4 then none
    else some (1, false)

/-- length in bytes of the longest prefix of name runes; `none` when an unmodelled rune is met before the name ends
    (or the fuel runs out: `s.length + 1` suffices) -/
def nameLenU : Nat → Bytes → Option Nat
  | 0, _ => none
  | fuel + 1, s =>
    match nameRune s with
    | none => none
    | some (_, false) => some 0
    | some (w, true) => (nameLenU fuel (s.drop w)).map (w + ·)

/-- Go's `extract` (regexp/regexp.go), which scans the name rune by rune (`unicode.IsLetter`/`IsDigit`/`_`):
    `none` = not modelled (a rune outside `nameRune`'s fragment is met while scanning the name);
    `some none` = malformed (Go's `ok = false`: empty name, or `${name` without the closing brace);
    `some (some (name, rest))` as in `rxExtract`. -/
def rxExtractU (s : Bytes) : Option (Option (Bytes × Bytes)) :=
  let (brace, s1) := match s with
    | b :: r => if b == cLBrace then (true, r) else (false, s)
    | [] => (false, [])
  match nameLenU (s1.length + 1) s1 with
  | none => none
  | some n =>
    let name := s1.take n
    if name.isEmpty then some none else
    let r := s1.drop n
    if brace then
      match r with
      | b :: r' => if b == cRBrace then some (some (name, r')) else some none
      | [] => some none
    else some (some (name, r))

/-- the numeric value of a reference name, `none` if it is a (non-numeric) group name -/
def rxNum (name : Bytes) : Option Nat :=
  if name.all isDigitB && !(name.head? == some 48 && name.length > 1) && name.length ≤ 8 then
    some (name.foldl (fun n b => n * 10 + (b.toNat - 48)) 0)
  else none

/-! ### `NewTemplateFormatter` / `Format` (pkg/mapper/fsm/formatter.go) -/

structure Formatter where
  indexes : List Nat
  fmtStr  : Bytes
  /-- the template has no reference at all: `fmtStr` is the result -/
  literal : Bool := false
  /-- a reference name of the template contains a rune outside `nameRune`'s fragment: nothing is claimed -/
  unmodelled : Bool := false
  deriving Repr, DecidableEq

/-- `strings.ReplaceAll(template, "%", "%%")` -/
def escapePct (s : Bytes) : Bytes := s.flatMap fun b => if b == cPct then [cPct, cPct] else [b]

/-- `templateReplaceCaptureRE.ReplaceAllStringFunc(escaped, …)` with the reference syntax of `regexp.Expand`
    (since the repair: ``\$\$|\$\{([\p{L}\p{Nd}_]+)\}|\$([\p{L}\p{Nd}_]+)``): ONE left-to-right pass; `$$` becomes `$`;
    a well-formed reference (`rxExtractU`, the model of `regexp`'s own `extract`) whose name is a usable group number
    (`rxNum`, 1..captureCount) becomes `%s` and contributes its index, any other well-formed reference becomes the empty
    string; a `$` that starts no reference and every other byte are copied. Result: format string, indexes in match
    order, "some reference or `$$` was seen"; `none` = a name contains an unmodelled rune. -/
def substRefs (captureCount : Nat) : Nat → Bytes → Option (Bytes × List Nat × Bool)
  | 0, s => some (s, [], false)
  | _, [] => some ([], [], false)
  | fuel + 1, b :: rest =>
    if b == cDollar then
      match rest with
      | c :: rest' =>
        if c == cDollar then (substRefs captureCount fuel rest').map fun o => (cDollar :: o.1, o.2.1, true)
        else match rxExtractU rest with
          | none => none
          | some none => (substRefs captureCount fuel rest).map fun o => (b :: o.1, o.2.1, o.2.2)
          | some (some (name, r)) =>
            (substRefs captureCount fuel r).map fun o =>
              match rxNum name with
              | some idx =>
                if idx > captureCount || idx < 1 then (o.1, o.2.1, true)
                else ([cPct, 115] ++ o.1, (idx - 1) :: o.2.1, true)
              | none => (o.1, o.2.1, true)
      | [] => some ([b], [], false)
    else (substRefs captureCount fuel rest).map fun o => (b :: o.1, o.2.1, o.2.2)

/-- `NewTemplateFormatter` (`%` escaped, references in `regexp.Expand`'s syntax substituted in a single pass; a template
    without any reference is kept as it is) -/
def compileTemplate (tmpl : Bytes) (captureCount : Nat) : Formatter :=
  let e := escapePct tmpl
  match substRefs captureCount e.length e with
  | none => ⟨[], tmpl, false, true⟩
  | some o => if o.2.2 then ⟨o.2.1, o.1, false, false⟩ else ⟨[], tmpl, true, false⟩

/-- `TemplateFormatter.Format`; `none` = outside the modelled fragment -/
def Formatter.format (f : Formatter) (caps : List Bytes) : Option Bytes :=
  if f.unmodelled then none
  else if f.literal then some f.fmtStr
  else sprintfS f.fmtStr (f.indexes.map fun i => caps.getD i [])

/-- submatches of one regex match: group i ↦ (subexp name, captured text or none if the group did not participate) -/
abbrev RxMatch := List (Bytes × Option Bytes)

/-- `regexp.Expand`; `none` = the template is outside the modelled fragment (some reference name on the scan path
    contains a rune `nameRune` does not model) -/
def rxExpand (m : RxMatch) : Nat → Bytes → Option Bytes
  | 0, t => some t
  | _, [] => some []
  | fuel + 1, b :: rest =>
    if b == cDollar then
      match rest with
      | c :: rest' =>
        if c == cDollar then (rxExpand m fuel rest').map (cDollar :: ·)
        else match rxExtractU rest with
          | none => none
          | some none => (rxExpand m fuel rest).map (cDollar :: ·)
          | some (some (name, r)) =>
            let sub : Bytes := match rxNum name with
              | some n => match m[n]? with
                | some (_, some t) => t
                | _ => []
              | none => match m.find? (fun g => g.1 == name && g.2.isSome) with
                | some (_, some t) => t
                | _ => []
            (rxExpand m fuel r).map (sub ++ ·)
      | [] => some [cDollar]
    else (rxExpand m fuel rest).map (b :: ·)

end SE
