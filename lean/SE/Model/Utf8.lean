import SE.Util
/-
Go's UTF-8 decoding as used by `for i, c := range s` and `utf8.DecodeRuneInString`:
an ill-formed sequence yields (U+FFFD, width 1). Only the *width* and, for ASCII,
the byte matter to the code that is modelled, so a token carries its bytes and whether
it was well-formed.
-/
namespace SE

def isCont (b : UInt8) : Bool := 0x80 ≤ b && b ≤ 0xBF

def ok3 (b0 b1 b2 : UInt8) : Bool :=
  (if b0 == 0xE0 then 0xA0 else 0x80) ≤ b1 && b1 ≤ (if b0 == 0xED then 0x9F else 0xBF) && isCont b2

def ok4 (b0 b1 b2 b3 : UInt8) : Bool :=
  (if b0 == 0xF0 then 0x90 else 0x80) ≤ b1 && b1 ≤ (if b0 == 0xF4 then 0x8F else 0xBF) && isCont b2 && isCont b3

/-- width of the rune Go decodes at the head of a non-empty byte string, and whether it is well-formed -/
def runeWidth : Bytes → Nat × Bool
  | [] => (0, false)
  | b0 :: rest =>
    if b0 < 0x80 then (1, true)
    else if 0xC2 ≤ b0 && b0 ≤ 0xDF then
      match rest with
      | b1 :: _ => if isCont b1 then (2, true) else (1, false)
      | _ => (1, false)
    else if 0xE0 ≤ b0 && b0 ≤ 0xEF then
      match rest with
      | b1 :: b2 :: _ => if ok3 b0 b1 b2 then (3, true) else (1, false)
      | _ => (1, false)
    else if 0xF0 ≤ b0 && b0 ≤ 0xF4 then
      match rest with
      | b1 :: b2 :: b3 :: _ => if ok4 b0 b1 b2 b3 then (4, true) else (1, false)
      | _ => (1, false)
    else (1, false)

theorem runeWidth_pos (b : UInt8) (bs : Bytes) : 1 ≤ (runeWidth (b :: bs)).1 := by
  unfold runeWidth
  repeat' split
  all_goals simp_all

theorem runeWidth_le (bs : Bytes) : (runeWidth bs).1 ≤ bs.length := by
  unfold runeWidth
  repeat' split
  all_goals simp

structure Tok where
  bytes : Bytes
  valid : Bool
  deriving Repr, DecidableEq

def tokensFuel : Nat → Bytes → List Tok
  | 0, _ => []
  | _, [] => []
  | fuel + 1, b :: bs =>
    let w := (runeWidth (b :: bs)).1
    ⟨(b :: bs).take w, (runeWidth (b :: bs)).2⟩ :: tokensFuel fuel ((b :: bs).drop w)

/-- the sequence of runes Go's `range` yields over a string -/
def tokens (bs : Bytes) : List Tok := tokensFuel bs.length bs

def flat (ts : List Tok) : Bytes := ts.flatMap (·.bytes)

theorem flat_tokensFuel : ∀ (fuel : Nat) (bs : Bytes), bs.length ≤ fuel → flat (tokensFuel fuel bs) = bs := by
  intro fuel
  induction fuel with
  | zero => intro bs h; cases bs <;> simp_all [tokensFuel, flat]
  | succ n ih =>
    intro bs h
    cases bs with
    | nil => simp [tokensFuel, flat]
    | cons b bs =>
      have hp := runeWidth_pos b bs
      have hl := runeWidth_le (b :: bs)
      have := ih ((b :: bs).drop (runeWidth (b :: bs)).1) (by simp at h hl ⊢; omega)
      simp only [tokensFuel, flat, List.flatMap_cons] at this ⊢
      rw [this, List.take_append_drop]

theorem flat_tokens (bs : Bytes) : flat (tokens bs) = bs := flat_tokensFuel _ _ (Nat.le_refl _)

/-- `utf8.ValidString` -/
def validUtf8 (bs : Bytes) : Bool := (tokens bs).all (·.valid)

end SE
