import SE.Util
/-
Numbers. Lean's `Float` is opaque to the kernel, so the models are generic in the value type
`V`; the driver instantiates `V := Float` (IEEE double, as Go's float64 on amd64).
`strconv.ParseFloat` is never re-implemented: it is the parameter `Pf`, and the harness ships
Go's own results with each operation.
-/
namespace SE

inductive PfErr | ok | syntax | range deriving DecidableEq, Repr

/-- `strconv.ParseFloat(s, 64)`: value and error kind (a range error still returns ±Inf, a syntax error 0) -/
abbrev Pf (V : Type) := Bytes → V × PfErr

class NumOps (V : Type) where
  zero : V
  one : V
  thousand : V
  add : V → V → V
  mul : V → V → V
  div : V → V → V
  /-- `x == 0` (true for -0, false for NaN) -/
  isZero : V → Bool
  /-- `x < 0.0` -/
  ltZero : V → Bool
  isNaN : V → Bool
  /-- `x <= y` -/
  le : V → V → Bool
  /-- Go `int(1 / x)` on amd64: truncation when representable, otherwise -2^63 -/
  recipInt : V → Int
  /-- `float64(n)` for a small natural number (bucket counts etc.) -/
  ofNat : Nat → V

end SE
