import SE.Util
/-
Numbers. Lean's `Float` is opaque to the kernel, so the models are generic in the value type
`V`; the driver instantiates `V := Float` (IEEE double, as Go's float64 on amd64).
`strconv.ParseFloat` is never re-implemented: it is the parameter `Pf`, and the harness ships
Go's own results with each operation.
-/
namespace SE

inductive PfErr | ok | syntax | range deriving DecidableEq, Repr

/-- `strconv.ParseFloat(s, 64)`: value and error kind (a range error still returns ±Inf, a syntax error 0) -/
abbrev Pf (V : Type) := Bytes → V × PfErr

class NumOps (V : Type) where
  zero : V
  one : V
  thousand : V
  add : V → V → V
  mul : V → V → V
  div : V → V → V
  /-- `x == 0` (true for -0, false for NaN) -/
  isZero : V → Bool
  /-- `x < 0.0` -/
  ltZero : V → Bool
  isNaN : V → Bool
  /-- `x <= y` -/
  le : V → V → Bool
  /-- Go `int(1 / x)` on amd64: truncation when representable, otherwise -2^63 -/
  recipInt : V → Int
  /-- `float64(n)` for a natural number (round to nearest) -/
  ofNat : Nat → V
  /-- `x < y` (false when either is NaN) -/
  lt : V → V → Bool
  /-- `x >= y` (false when either is NaN) -/
  ge : V → V → Bool
  isPosInf : V → Bool
  /-- client_golang `counter.Add`'s fast path: `ival := uint64(v); float64(ival) == v`.
      `some n` iff `v` is integer-valued with 0 ≤ v < 2^64 (then n = v) -/
  toUInt64Exact : V → Option Nat
  /-- Go `int(math.Ceil(float64(l) * q))` (NaN or out of range ↦ -2^63) -/
  ceilMul : Nat → V → Int

/-- client_golang's bucket check (`upperBound >= next` panics), which the loader now applies as well -/
def strictlyIncreasing {V : Type} [NumOps V] : List V → Bool
  | a :: b :: rest => !(NumOps.ge a b) && strictlyIncreasing (b :: rest)
  | _ => true

end SE
