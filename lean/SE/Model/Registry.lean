import SE.Model.Mapper
import SE.Spec.Escape
/-
Model of pkg/registry/registry.go together with the slice of client_golang v1.22.0 it drives
(vector constructors, child creation incl. its panics, counter/gauge/histogram/summary updates,
`Delete`, and `Registry.Gather`'s family consistency checks). client_golang is third-party code:
modelled by hand from its source, tied only by correspondence.

FNV-64 label hashes are represented by the label sets themselves (collisions are assumed away,
see DESIGN.md section 3). Summary quantile estimation and native-histogram fields are not modelled.
-/
namespace SE

inductive MType | counter | gauge | histogram | summary deriving DecidableEq, Repr

structure Series (V : Type) where
  labels : Labels        -- sorted by key: the label set (values hash) and what `Delete` is called with
  ttl : Int
  last : Int             -- LastRegisteredAt (ns)
  f : V                  -- counter: float accumulator; gauge: value; observers: sum
  n : Nat                -- counter: uint64 accumulator (wraps mod 2^64); observers: count
  bk : List Nat          -- histogram: non-cumulative bucket counts, one per bound plus +Inf

structure VecM (V : Type) where
  names : List Bytes     -- sorted label names (the names hash)
  help : Bytes
  bounds : List V        -- histogram upper bounds as handed to NewHistogramVec
  maxAge : Int := 0      -- SummaryOpts.MaxAge as handed to NewSummaryVec
  ageBuckets : Nat := 0  -- SummaryOpts.AgeBuckets
  objectives : List V := []  -- summary: the quantile ranks of SummaryOpts.Objectives

structure MetricM (V : Type) where
  name : Bytes
  ty : MType
  vecs : List (VecM V)
  series : List (Series V)

structure Reg (V : Type) where
  metrics : List (MetricM V) := []
  /-- families exposed by collectors that were registered before (the exporter's own metrics, Go runtime …):
      name, type, help -/
  pre : List (Bytes × MType × Bytes) := []

inductive RegErr | conflict | reservedLabel deriving DecidableEq, Repr
/-- ways the exporter goroutine dies. `summaryHang` is not a panic but an endless loop inside
    client_golang (`summary.swapBufs` with a zero stream duration); the goroutine never returns. -/
inductive Panic | bucketsNotIncreasing | negativeMaxAge | summaryHang | sliceBounds | counterNegative deriving DecidableEq, Repr

variable {V : Type} [NumOps V]

def Reg.find (r : Reg V) (name : Bytes) : Option (MetricM V) := r.metrics.find? (·.name == name)

/-- `MetricConflicts` -/
def Reg.conflicts (r : Reg V) (name : Bytes) (ty : MType) : Bool :=
  match r.find name with
  | none => false
  | some m => m.ty != ty

/-- a metric of this name is registered (`_, ok := r.Metrics[name]`) -/
def Reg.taken (r : Reg V) (name : Bytes) : Bool := (r.find name).isSome

def sfxBucket := strBytes "_bucket"
def sfxCount := strBytes "_count"
def sfxSum := strBytes "_sum"

def trimSuffix (suf s : Bytes) : Bytes := if suf.isSuffixOf s then s.take (s.length - suf.length) else s

/-- `checkHistogramNameCollision` (note the hard-coded CounterMetricType) -/
def Reg.histNameCollision (r : Reg V) (name : Bytes) : Bool :=
  [sfxBucket, sfxCount, sfxSum].any fun suf =>
    suf.isSuffixOf name && r.conflicts (trimSuffix suf name) .counter

def reservedPrefix := strBytes "__"

/-- `checkLabelNames` (added by the repair of the reserved-label defect) -/
def labelNamesBad (names : List Bytes) (reserved : Bytes) : Bool :=
  names.any fun n => reservedPrefix.isPrefixOf n || (!reserved.isEmpty && n == reserved)

def updateMetric (r : Reg V) (name : Bytes) (f : MetricM V → MetricM V) : Reg V :=
  { r with metrics := r.metrics.map fun m => if m.name == name then f m else m }

/-- what a getter needs to know about the sample -/
structure GetArgs (V : Type) where
  name : Bytes
  labels : Labels          -- sorted
  help : Bytes
  ttl : Int
  bounds : List V := []    -- effective buckets (histogram)
  maxAge : Int := 0        -- summary
  ageBuckets : Nat := 0    -- summary
  objectives : List V := []  -- summary

/-- the bounds client_golang keeps: a trailing +Inf is implicit -/
def effBounds (bs : List V) : List V :=
  match bs.getLast? with
  | some l => if NumOps.isPosInf l then bs.dropLast else bs
  | none => bs

/-- the common path of GetCounter/GetGauge/GetHistogram/GetSummary.
    Returns the updated registry and, on success, nothing else: the caller then updates the series
    addressed by (name, labels). `now` = clock.Now(). -/
def Reg.getOrCreate (r : Reg V) (ty : MType) (a : GetArgs V) (now : Int) : Except Panic (Except RegErr (Reg V)) :=
  let names := a.labels.map (·.1)
  let hit : Bool := match r.find a.name with
    | some m => m.ty == ty && m.series.any (·.labels == a.labels)
    | none => false
  if hit then
    -- `Get` refreshes LastRegisteredAt, `refreshTTL` the ttl
    .ok (.ok (updateMetric r a.name fun m =>
      { m with series := m.series.map fun s => if s.labels == a.labels then { s with last := now, ttl := a.ttl } else s }))
  else
  if r.conflicts a.name ty then .ok (.error .conflict) else
  let companion : Bool := match ty with
    | .counter => r.histNameCollision a.name
    | .gauge => r.histNameCollision a.name
    -- `checkObserverNameCollision`: a companion name that is taken at all (whatever its type), or the name being a
    -- companion name of a registered metric (the same base-name check as for counters and gauges)
    | .histogram => r.taken (a.name ++ sfxSum) || r.taken (a.name ++ sfxCount) || r.taken (a.name ++ sfxBucket) || r.histNameCollision a.name
    | .summary => r.taken (a.name ++ sfxSum) || r.taken (a.name ++ sfxCount) || r.histNameCollision a.name
  if companion then .ok (.error .conflict) else
  let reserved : Bytes := match ty with
    | .histogram => strBytes "le"
    | .summary => strBytes "quantile"
    | _ => []
  if labelNamesBad names reserved then .ok (.error .reservedLabel) else
  -- vector: reuse the one with these label names, else create it (help and buckets are fixed at creation)
  let existingVec : Option (VecM V) := (r.find a.name).bind fun m => if m.ty == ty then m.vecs.find? (·.names == names) else none
  -- `helpFor`: the help string of the first vector ever created for this name wins (vectors are never removed)
  let help : Bytes := (((r.find a.name).bind (·.vecs.head?)).map (·.help)).getD a.help
  let vec : VecM V := existingVec.getD { names := names, help := help, bounds := a.bounds, maxAge := a.maxAge, ageBuckets := a.ageBuckets, objectives := a.objectives }
  -- child creation (`GetMetricWith`) runs the constructor checks of client_golang
  if ty == .histogram && !strictlyIncreasing vec.bounds then .error .bucketsNotIncreasing else
  if ty == .summary && vec.maxAge < 0 then .error .negativeMaxAge else
  -- streamDuration = MaxAge / AgeBuckets (defaults 10 min / 5); zero ⇒ the first Observe never returns
  if ty == .summary && (if vec.maxAge == 0 then 600000000000 else vec.maxAge) / ((if vec.ageBuckets == 0 then 5 else vec.ageBuckets) : Int) == 0
  then .error .summaryHang else
  let nb := if ty == .histogram then (effBounds vec.bounds).length + 1 else 0
  let ser : Series V := { labels := a.labels, ttl := a.ttl, last := now, f := NumOps.zero, n := 0, bk := List.replicate nb 0 }
  -- `Store`
  let r1 : Reg V := if (r.find a.name).isSome then r else { r with metrics := r.metrics ++ [{ name := a.name, ty := ty, vecs := [], series := [] }] }
  .ok (.ok (updateMetric r1 a.name fun m =>
    { m with vecs := if existingVec.isSome then m.vecs else m.vecs ++ [vec], series := m.series ++ [ser] }))

def updateSeries (r : Reg V) (name : Bytes) (labels : Labels) (f : VecM V → Series V → Series V) : Reg V :=
  updateMetric r name fun m =>
    { m with series := m.series.map fun s =>
        if s.labels == labels then
          match m.vecs.find? (·.names == labels.map (·.1)) with
          | some v => f v s
          | none => s
        else s }

def two64 : Nat := 18446744073709551616

/-- `counter.Add(v)` for v ≥ 0, not NaN -/
def counterAdd (s : Series V) (v : V) : Series V :=
  match NumOps.toUInt64Exact v with
  | some k => { s with n := (s.n + k) % two64 }
  | none => { s with f := NumOps.add s.f v }

/-- `sort.Search(n, f)`: binary search exactly as the Go library does it (the result is only the
    "first index with f" when f is monotone, which unsorted or NaN bounds break) -/
def goSearch (f : Nat → Bool) : Nat → Nat → Nat → Nat
  | 0, i, _ => i
  | fuel + 1, i, j =>
    if i < j then
      let h := (i + j) / 2
      if !f h then goSearch f fuel (h + 1) j else goSearch f fuel i h
    else i

/-- client_golang `histogram.findBucket(v)`: index of the bucket `Observe(v)` increments
    (`len` = the +Inf bucket): two early exits, linear search below 35 bounds, else `sort.SearchFloat64s` -/
def bucketIndex (bounds : List V) (v : V) : Nat :=
  match bounds.head?, bounds.getLast? with
  | some first, some last =>
    if NumOps.le v first then 0
    else if NumOps.lt last v then bounds.length
    else if bounds.length < 35 then
      match bounds.findIdx? (fun b => NumOps.le v b) with
      | some i => i
      | none => bounds.length
    else goSearch (fun h => match bounds[h]? with | some b => NumOps.ge b v | none => true) (bounds.length + 1) 0 bounds.length
  | _, _ => 0

def bumpAt : List Nat → Nat → List Nat
  | [], _ => []
  | x :: xs, 0 => (x + 1) :: xs
  | x :: xs, i + 1 => x :: bumpAt xs i

def observe (v : VecM V) (isHist : Bool) (s : Series V) (x : V) : Series V :=
  { s with f := NumOps.add s.f x, n := s.n + 1,
           bk := if isHist then bumpAt s.bk (bucketIndex (effBounds v.bounds) x) else s.bk }

/-- `RemoveStaleMetrics` at time `now`: `rm.TTL != 0 && LastRegisteredAt + TTL < now` -/
def Reg.sweep (r : Reg V) (now : Int) : Reg V :=
  { r with metrics := r.metrics.map fun m =>
      { m with series := m.series.filter fun s => !(s.ttl != 0 && s.last + s.ttl < now) } }

/-! ### Gather -/

structure Family (V : Type) where
  name : Bytes
  ty : MType
  help : Bytes
  series : List (Labels × Series V × List V)   -- labels, state, histogram bounds

/-- families a scrape collects from the statsd series (a vector without children yields nothing) -/
def Reg.families (r : Reg V) : List (Family V) :=
  r.metrics.filterMap fun m =>
    if m.series.isEmpty then none else
    let help := match m.series.head? with
      | some s => ((m.vecs.find? (·.names == s.labels.map (·.1))).map (·.help)).getD []
      | none => []
    some { name := m.name, ty := m.ty, help := help,
           series := m.series.map fun s =>
             (s.labels, s, ((m.vecs.find? (·.names == s.labels.map (·.1))).map (fun v => effBounds v.bounds)).getD []) }

/-- one help string per family: all vectors of the family that currently have children agree -/
def helpConsistent (m : MetricM V) : Bool :=
  let helps := m.series.filterMap fun s => (m.vecs.find? (·.names == s.labels.map (·.1))).map (·.help)
  match helps with
  | [] => true
  | h :: rest => rest.all (· == h)

/-- `checkSuffixCollisions` over the set of live family (name, type) pairs -/
def suffixCollision (fams : List (Bytes × MType)) : Bool :=
  fams.any fun (n, t) =>
    match t with
    | .histogram => fams.any fun (n', _) => n' == n ++ sfxCount || n' == n ++ sfxSum || n' == n ++ sfxBucket
    | .summary => fams.any fun (n', _) => n' == n ++ sfxCount || n' == n ++ sfxSum
    | _ => false

/-- perks `Stream.Query(q)` on its unflushed fast path (fewer than 500 samples in the head stream, no
    age rotation yet): `i := int(ceil(l*q)); if i > 0 { i-- }; b[i]` — an index panic for q > 1, NaN,
    or sufficiently negative q. The panic leaves the summary's mutex locked. -/
def queryPanics (l : Nat) (q : V) : Bool :=
  let i0 := NumOps.ceilMul l q
  let i := if i0 > 0 then i0 - 1 else i0
  l > 0 && (i < 0 || i ≥ (l : Int))

/-- does collecting the summaries panic inside `Gather`? (loader-accepted objectives outside [0,1]) -/
def Reg.gatherPanics (r : Reg V) : Bool :=
  r.metrics.any fun m => m.ty == .summary && m.series.any fun s =>
    match m.vecs.find? (·.names == s.labels.map (·.1)) with
    | some v => v.objectives.any fun q => queryPanics s.n q
    | none => false

/-- does `Gather` succeed? -/
def Reg.gatherOk (r : Reg V) : Bool :=
  let live := r.metrics.filter (!·.series.isEmpty)
  let fams : List (Bytes × MType) := live.map (fun m => (m.name, m.ty)) ++ r.pre.map (fun p => (p.1, p.2.1))
  live.all helpConsistent &&
  -- a statsd family that shares its name with a pre-registered family must agree in type and help
  live.all (fun m => r.pre.all fun p => p.1 != m.name ||
    (p.2.1 == m.ty && m.series.all fun s => ((m.vecs.find? (·.names == s.labels.map (·.1))).map (·.help)) == some p.2.2)) &&
  !suffixCollision fams

end SE
