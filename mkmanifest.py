#!/usr/bin/env python3
"""Regenerates MANIFEST.json from checklib/props.py and the claim texts below."""
import json, sys, os
ROOT = os.path.dirname(os.path.abspath(__file__))
sys.path.insert(0, ROOT)
from checklib import props as P
from checklib import claims as C

props = [json.loads(l) for l in open(os.path.join(ROOT, 'properties.jsonl'))]
m = {
    "version": 1,
    "setup_cmd": "./setup.sh",
    "hooks": {"guard": "verif",
              "enable": "go build -tags verif (files *_verif.go with //go:build verif in /repo; the harness module /verif/harness replaces the statsd_exporter module by /repo)",
              "baseline_off_cmd": "cd /repo && GOFLAGS=-mod=mod GOPROXY=off GOSUMDB=off GOTOOLCHAIN=local go test -json -vet=off -count=1 -timeout 25m ./...",
              "source_commits": C.HOOK_COMMITS, "add_only": True},
    "engines": [{"name": "lean-proof+correspondence", "path": "/verif/check", "serves_properties": sorted(P.PROPS.keys()),
                 "kind_free_text": "Lean 4 theorems about an executable model (lean/SE), tied to /repo by a differential correspondence run (Go harness in-process vs. compiled model driver, plus executable Lean specification notes) and regenerated source facts"}],
    "checks": [],
    "notes": "See DESIGN.md. Every check is `./check <id>`; VERIF_SEED and VERIF_TIER are honoured. known_findings.json lists open and fixed findings.",
    "not_applicable": [],
}
for p in props:
    pid = p['id']
    if pid in P.PROPS:
        c = C.CLAIMS[pid]
        m["checks"].append({
            "property_id": pid,
            "quick_cmd": "./check %s --tier quick" % pid,
            "thorough_cmd": "./check %s --tier thorough" % pid,
            "evidence_file": "/verif/evidence/%s.json" % pid,
            "replay_cmd_template": "./check %s --replay {path}" % pid,
            "engine": "lean-proof+correspondence",
            "level_claimed": {"category": P.PROPS[pid]['level'], "text": c['text'], "design_ref": c.get('ref', 'DESIGN.md section 5, ' + pid)},
            "level_note": c['note'],
            "technique": c['technique'],
        })
    else:
        m["not_applicable"].append({"property_id": pid, "reason": C.NOT_CLAIMED.get(pid, "check not built yet in this round (model and proof planned, see DESIGN.md section 5); not claimed until its check exists")})
json.dump(m, open(os.path.join(ROOT, 'MANIFEST.json'), 'w'), indent=1)
print('checks:', [c['property_id'] for c in m['checks']])
