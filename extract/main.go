// Command extract regenerates lean/SE/Gen/Facts.lean from the *current source text* of
// prometheus/statsd_exporter (go/parser + go/ast only; no type checking is needed for these facts):
//
//   - constants the models rely on (channel capacities, ticker periods, suffix lists, the stat-type
//     and extended-aggregation switches, the error-reason strings, validation regex literals,
//     default quantiles, default help text);
//   - the lock/access table of the concurrently used types: for every method, every access to a
//     field of its receiver with the set of receiver mutexes held at that point and their mode.
//
// SE/Gen/Tie.lean proves that the facts equal what the hand-written models assume (by rfl/decide);
// if the source changes a fact, that proof obligation breaks.
package main

import (
	"fmt"
	"go/ast"
	"go/parser"
	"go/token"
	"os"
	"os/exec"
	"path/filepath"
	"sort"
	"strconv"
	"strings"
)

var fset = token.NewFileSet()

func parseDir(dir string) []*ast.File {
	var out []*ast.File
	ents, err := os.ReadDir(dir)
	if err != nil {
		fatal(err)
	}
	for _, e := range ents {
		n := e.Name()
		if e.IsDir() || !strings.HasSuffix(n, ".go") || strings.HasSuffix(n, "_test.go") || strings.HasSuffix(n, "_verif.go") {
			continue
		}
		f, err := parser.ParseFile(fset, filepath.Join(dir, n), nil, parser.ParseComments)
		if err != nil {
			fatal(err)
		}
		out = append(out, f)
	}
	return out
}

func fatal(err error) {
	fmt.Fprintln(os.Stderr, "extract:", err)
	os.Exit(1)
}

func leanStr(s string) string {
	var sb strings.Builder
	sb.WriteByte('"')
	for _, c := range s {
		switch c {
		case '"':
			sb.WriteString("\\\"")
		case '\\':
			sb.WriteString("\\\\")
		case '\n':
			sb.WriteString("\\n")
		default:
			sb.WriteRune(c)
		}
	}
	sb.WriteByte('"')
	return sb.String()
}

func leanStrList(xs []string) string {
	var o []string
	for _, x := range xs {
		o = append(o, leanStr(x))
	}
	return "[" + strings.Join(o, ", ") + "]"
}

func unq(l *ast.BasicLit) string {
	s, err := strconv.Unquote(l.Value)
	if err != nil {
		return l.Value
	}
	return s
}

// string literals of the case clauses of the switch statements of a function whose tag is `tagIdent`
func switchCases(files []*ast.File, fn string, tag func(ast.Expr) bool) [][]string {
	var out [][]string
	for _, f := range files {
		for _, d := range f.Decls {
			fd, ok := d.(*ast.FuncDecl)
			if !ok || fd.Name.Name != fn || fd.Body == nil {
				continue
			}
			ast.Inspect(fd.Body, func(n ast.Node) bool {
				sw, ok := n.(*ast.SwitchStmt)
				if !ok || sw.Tag == nil || !tag(sw.Tag) {
					return true
				}
				for _, c := range sw.Body.List {
					cc := c.(*ast.CaseClause)
					var lits []string
					for _, e := range cc.List {
						if bl, ok := e.(*ast.BasicLit); ok && bl.Kind == token.STRING {
							lits = append(lits, unq(bl))
						}
					}
					if cc.List == nil {
						lits = []string{"<default>"}
					}
					out = append(out, lits)
				}
				return true
			})
		}
	}
	return out
}

func isIdent(name string) func(ast.Expr) bool {
	return func(e ast.Expr) bool { id, ok := e.(*ast.Ident); return ok && id.Name == name }
}

// all string literals passed as the single argument of `<x>.WithLabelValues("…")` in a function
func labelValues(files []*ast.File, fn string, recvField string) []string {
	set := map[string]bool{}
	for _, f := range files {
		for _, d := range f.Decls {
			fd, ok := d.(*ast.FuncDecl)
			if !ok || (fn != "" && fd.Name.Name != fn) || fd.Body == nil {
				continue
			}
			ast.Inspect(fd.Body, func(n ast.Node) bool {
				ce, ok := n.(*ast.CallExpr)
				if !ok {
					return true
				}
				se, ok := ce.Fun.(*ast.SelectorExpr)
				if !ok || se.Sel.Name != "WithLabelValues" || len(ce.Args) != 1 {
					return true
				}
				if !strings.HasSuffix(exprStr(se.X), recvField) {
					return true
				}
				if bl, ok := ce.Args[0].(*ast.BasicLit); ok {
					set[unq(bl)] = true
				}
				return true
			})
		}
	}
	var out []string
	for k := range set {
		out = append(out, k)
	}
	sort.Strings(out)
	return out
}

func exprStr(e ast.Expr) string {
	switch x := e.(type) {
	case *ast.Ident:
		return x.Name
	case *ast.SelectorExpr:
		return exprStr(x.X) + "." + x.Sel.Name
	case *ast.StarExpr:
		return exprStr(x.X)
	case *ast.ParenExpr:
		return exprStr(x.X)
	case *ast.IndexExpr:
		return exprStr(x.X) + "[]"
	case *ast.CallExpr:
		return exprStr(x.Fun) + "()"
	case *ast.BasicLit:
		return x.Value
	case *ast.UnaryExpr:
		return x.Op.String() + exprStr(x.X)
	case *ast.BinaryExpr:
		return exprStr(x.X) + x.Op.String() + exprStr(x.Y)
	}
	return "?"
}

// value of a package-level `var name = "literal"` or `name = `…“ possibly concatenated with other such vars
func pkgStrings(files []*ast.File) map[string]string {
	m := map[string]string{}
	var eval func(e ast.Expr) (string, bool)
	eval = func(e ast.Expr) (string, bool) {
		switch x := e.(type) {
		case *ast.BasicLit:
			if x.Kind == token.STRING {
				return unq(x), true
			}
		case *ast.Ident:
			v, ok := m[x.Name]
			return v, ok
		case *ast.BinaryExpr:
			if x.Op == token.ADD {
				a, ok1 := eval(x.X)
				b, ok2 := eval(x.Y)
				return a + b, ok1 && ok2
			}
		case *ast.ParenExpr:
			return eval(x.X)
		case *ast.CallExpr: // regexp.MustCompile(<string expr>)
			if se, ok := x.Fun.(*ast.SelectorExpr); ok && se.Sel.Name == "MustCompile" && len(x.Args) == 1 {
				return eval(x.Args[0])
			}
		}
		return "", false
	}
	for pass := 0; pass < 3; pass++ {
		for _, f := range files {
			for _, d := range f.Decls {
				gd, ok := d.(*ast.GenDecl)
				if !ok || (gd.Tok != token.VAR && gd.Tok != token.CONST) {
					continue
				}
				for _, sp := range gd.Specs {
					vs := sp.(*ast.ValueSpec)
					for i, n := range vs.Names {
						if i < len(vs.Values) {
							if v, ok := eval(vs.Values[i]); ok {
								m[n.Name] = v
							}
						}
					}
				}
			}
		}
	}
	return m
}

// ---------------------------------------------------------------- lock / access table

type access struct {
	fn, loc string
	write   bool
	locks   []string // "name:R" / "name:W", sorted
}

type methodInfo struct {
	recvName, typeName string
	body               *ast.BlockStmt
}

func collectMethods(files []*ast.File) map[string]*methodInfo {
	out := map[string]*methodInfo{}
	for _, f := range files {
		for _, d := range f.Decls {
			fd, ok := d.(*ast.FuncDecl)
			if !ok || fd.Recv == nil || fd.Body == nil || len(fd.Recv.List) != 1 || len(fd.Recv.List[0].Names) != 1 {
				continue
			}
			tn := exprStr(fd.Recv.List[0].Type)
			out[tn+"."+fd.Name.Name] = &methodInfo{fd.Recv.List[0].Names[0].Name, tn, fd.Body}
		}
	}
	return out
}

type walker struct {
	methods   map[string]*methodInfo
	out       []access
	irregular []string
}

func lockNames(ls map[string]string) []string {
	var o []string
	for k, v := range ls {
		o = append(o, k+":"+v)
	}
	sort.Strings(o)
	return o
}

// fields of the receiver that are mutexes are recognised by the method called on them
var lockMethods = map[string]string{"Lock": "W", "RLock": "R"}
var unlockMethods = map[string]bool{"Unlock": true, "RUnlock": true}

func (w *walker) method(key, asFn string, locks map[string]string, depth int) {
	mi := w.methods[key]
	if mi == nil {
		return
	}
	held := map[string]string{}
	for k, v := range locks {
		held[k] = v
	}
	w.block(mi, asFn, mi.body.List, held, depth, true)
}

func (w *walker) block(mi *methodInfo, fn string, stmts []ast.Stmt, held map[string]string, depth int, top bool) {
	for _, st := range stmts {
		// lock operations on receiver fields, as statements
		if es, ok := st.(*ast.ExprStmt); ok {
			if name, op, ok := w.lockCall(mi, es.X); ok {
				if !top {
					w.irregular = append(w.irregular, fn+": lock operation inside a nested block")
				}
				if mode, isLock := lockMethods[op]; isLock {
					held[name] = mode
				} else {
					delete(held, name)
				}
				continue
			}
		}
		if ds, ok := st.(*ast.DeferStmt); ok {
			if _, op, ok := w.lockCall(mi, ds.Call); ok && unlockMethods[op] {
				continue // held until return
			}
		}
		w.stmt(mi, fn, st, held, depth)
	}
}

func (w *walker) lockCall(mi *methodInfo, e ast.Expr) (string, string, bool) {
	ce, ok := e.(*ast.CallExpr)
	if !ok {
		return "", "", false
	}
	se, ok := ce.Fun.(*ast.SelectorExpr)
	if !ok {
		return "", "", false
	}
	if _, isLock := lockMethods[se.Sel.Name]; !isLock && !unlockMethods[se.Sel.Name] {
		return "", "", false
	}
	inner, ok := se.X.(*ast.SelectorExpr)
	if !ok {
		return "", "", false
	}
	if id, ok := inner.X.(*ast.Ident); ok && id.Name == mi.recvName {
		return inner.Sel.Name, se.Sel.Name, true
	}
	return "", "", false
}

func (w *walker) stmt(mi *methodInfo, fn string, st ast.Stmt, held map[string]string, depth int) {
	switch s := st.(type) {
	case *ast.BlockStmt:
		w.block(mi, fn, s.List, held, depth, false)
	case *ast.IfStmt:
		if s.Init != nil {
			w.stmt(mi, fn, s.Init, held, depth)
		}
		w.expr(mi, fn, s.Cond, false, held, depth)
		w.block(mi, fn, s.Body.List, held, depth, false)
		if s.Else != nil {
			w.stmt(mi, fn, s.Else, held, depth)
		}
	case *ast.ForStmt:
		if s.Init != nil {
			w.stmt(mi, fn, s.Init, held, depth)
		}
		if s.Cond != nil {
			w.expr(mi, fn, s.Cond, false, held, depth)
		}
		if s.Post != nil {
			w.stmt(mi, fn, s.Post, held, depth)
		}
		w.block(mi, fn, s.Body.List, held, depth, false)
	case *ast.RangeStmt:
		w.expr(mi, fn, s.X, false, held, depth)
		w.block(mi, fn, s.Body.List, held, depth, false)
	case *ast.SwitchStmt:
		if s.Init != nil {
			w.stmt(mi, fn, s.Init, held, depth)
		}
		if s.Tag != nil {
			w.expr(mi, fn, s.Tag, false, held, depth)
		}
		for _, c := range s.Body.List {
			cc := c.(*ast.CaseClause)
			for _, e := range cc.List {
				w.expr(mi, fn, e, false, held, depth)
			}
			w.block(mi, fn, cc.Body, held, depth, false)
		}
	case *ast.TypeSwitchStmt:
		for _, c := range s.Body.List {
			w.block(mi, fn, c.(*ast.CaseClause).Body, held, depth, false)
		}
	case *ast.SelectStmt:
		for _, c := range s.Body.List {
			cc := c.(*ast.CommClause)
			if cc.Comm != nil {
				w.stmt(mi, fn, cc.Comm, held, depth)
			}
			w.block(mi, fn, cc.Body, held, depth, false)
		}
	case *ast.AssignStmt:
		for _, l := range s.Lhs {
			w.expr(mi, fn, l, true, held, depth)
		}
		for _, r := range s.Rhs {
			w.expr(mi, fn, r, false, held, depth)
		}
	case *ast.IncDecStmt:
		w.expr(mi, fn, s.X, true, held, depth)
	case *ast.ExprStmt:
		w.expr(mi, fn, s.X, false, held, depth)
	case *ast.ReturnStmt:
		for _, r := range s.Results {
			w.expr(mi, fn, r, false, held, depth)
		}
	case *ast.SendStmt:
		w.expr(mi, fn, s.Chan, false, held, depth)
		w.expr(mi, fn, s.Value, false, held, depth)
	case *ast.GoStmt:
		// a spawned goroutine does not inherit the locks
		w.exprIn(mi, fn+"$go", s.Call, false, map[string]string{}, depth)
	case *ast.DeferStmt:
		w.expr(mi, fn, s.Call, false, held, depth)
	case *ast.DeclStmt:
		if gd, ok := s.Decl.(*ast.GenDecl); ok {
			for _, sp := range gd.Specs {
				if vs, ok := sp.(*ast.ValueSpec); ok {
					for _, v := range vs.Values {
						w.expr(mi, fn, v, false, held, depth)
					}
				}
			}
		}
	case *ast.LabeledStmt:
		w.stmt(mi, fn, s.Stmt, held, depth)
	}
}

func (w *walker) expr(mi *methodInfo, fn string, e ast.Expr, write bool, held map[string]string, depth int) {
	w.exprIn(mi, fn, e, write, held, depth)
}

func (w *walker) exprIn(mi *methodInfo, fn string, e ast.Expr, write bool, held map[string]string, depth int) {
	switch x := e.(type) {
	case nil:
	case *ast.SelectorExpr:
		if id, ok := x.X.(*ast.Ident); ok && id.Name == mi.recvName {
			w.out = append(w.out, access{fn, mi.typeName + "." + x.Sel.Name, write, lockNames(held)})
			return
		}
		// deeper chain: recv.a.b — an access to recv.a (read); the path recv.a.b is recorded too, so that
		// accesses to another object's field through a pointer held by the receiver are visible
		if inner, ok := x.X.(*ast.SelectorExpr); ok {
			if id, ok := inner.X.(*ast.Ident); ok && id.Name == mi.recvName {
				w.out = append(w.out, access{fn, mi.typeName + "." + inner.Sel.Name + "." + x.Sel.Name, write, lockNames(held)})
			}
		}
		w.exprIn(mi, fn, x.X, false, held, depth)
	case *ast.IndexExpr:
		w.exprIn(mi, fn, x.X, write, held, depth)
		w.exprIn(mi, fn, x.Index, false, held, depth)
	case *ast.StarExpr:
		w.exprIn(mi, fn, x.X, write, held, depth)
	case *ast.ParenExpr:
		w.exprIn(mi, fn, x.X, write, held, depth)
	case *ast.UnaryExpr:
		w.exprIn(mi, fn, x.X, false, held, depth)
	case *ast.BinaryExpr:
		w.exprIn(mi, fn, x.X, false, held, depth)
		w.exprIn(mi, fn, x.Y, false, held, depth)
	case *ast.KeyValueExpr:
		w.exprIn(mi, fn, x.Value, false, held, depth)
	case *ast.CompositeLit:
		for _, el := range x.Elts {
			w.exprIn(mi, fn, el, false, held, depth)
		}
	case *ast.TypeAssertExpr:
		w.exprIn(mi, fn, x.X, false, held, depth)
	case *ast.SliceExpr:
		w.exprIn(mi, fn, x.X, false, held, depth)
	case *ast.FuncLit:
		w.block(mi, fn+"$closure", x.Body.List, map[string]string{}, depth, false)
	case *ast.CallExpr:
		// builtin delete(recv.m, k) writes recv.m
		if id, ok := x.Fun.(*ast.Ident); ok && id.Name == "delete" && len(x.Args) == 2 {
			w.exprIn(mi, fn, x.Args[0], true, held, depth)
			w.exprIn(mi, fn, x.Args[1], false, held, depth)
			return
		}
		if se, ok := x.Fun.(*ast.SelectorExpr); ok {
			// call of another method of the same receiver: inline it with the locks held here
			if id, ok := se.X.(*ast.Ident); ok && id.Name == mi.recvName {
				key := mi.typeName + "." + se.Sel.Name
				if _, isMethod := w.methods[key]; isMethod && depth < 3 {
					w.method(key, fn, held, depth+1)
					for _, a := range x.Args {
						w.exprIn(mi, fn, a, false, held, depth)
					}
					return
				}
			}
			// method call on a field of the receiver: recv.f.M(args) — recorded as location "T.f" with the
			// callee name, so that the discipline can annotate what the callee does to the object
			if inner, ok := se.X.(*ast.SelectorExpr); ok {
				if id, ok := inner.X.(*ast.Ident); ok && id.Name == mi.recvName {
					w.out = append(w.out, access{fn, mi.typeName + "." + inner.Sel.Name + "." + se.Sel.Name + "()", false, lockNames(held)})
					for _, a := range x.Args {
						w.exprIn(mi, fn, a, false, held, depth)
					}
					return
				}
			}
			w.exprIn(mi, fn, se.X, false, held, depth)
		}
		for _, a := range x.Args {
			w.exprIn(mi, fn, a, false, held, depth)
		}
	}
}

func main() {
	if len(os.Args) < 2 {
		fatal(fmt.Errorf("usage: extract <repo>"))
	}
	repo := os.Args[1]
	p := func(parts ...string) []*ast.File { return parseDir(filepath.Join(append([]string{repo}, parts...)...)) }
	lineF, exporterF, registryF := p("pkg", "line"), p("pkg", "exporter"), p("pkg", "registry")
	mapperF, fsmF := p("pkg", "mapper"), p("pkg", "mapper", "fsm")
	relayF, eventF, listenerF := p("pkg", "relay"), p("pkg", "event"), p("pkg", "listener")
	lruF, rrF := p("pkg", "mappercache", "lru"), p("pkg", "mappercache", "randomreplacement")

	var b strings.Builder
	b.WriteString("/- GENERATED by /verif/extract from /repo's current source — do not edit. -/\nnamespace SE.Gen\n\n")
	def := func(name, ty, val string) { fmt.Fprintf(&b, "def %s : %s := %s\n", name, ty, val) }

	// line.go
	def("statTypeCases", "List (List String)", listOfLists(switchCases(lineF, "buildEvent", isIdent("statType"))))
	def("extAggTypeCases", "List (List String)", listOfLists(switchCases(lineF, "LineToEvents", func(e ast.Expr) bool { return strings.HasPrefix(exprStr(e), "lineParts") })))
	def("sampleErrorReasons", "List String", leanStrList(labelValues(lineF, "LineToEvents", "sampleErrors")))
	// exporter.go
	def("exporterErrorReasons", "List String", leanStrList(labelValues(exporterF, "handleEvent", "ErrorEventStats")))
	ps := pkgStrings(exporterF)
	def("defaultHelp", "String", leanStr(ps["defaultHelp"]))
	// registry.go
	def("histogramSuffixes", "List String", leanStrList(stringSliceLit(registryF, "checkHistogramNameCollision", "histogramSuffixes")))
	// mapper.go
	ms := pkgStrings(mapperF)
	def("metricLineRE", "String", leanStr(ms["metricLineRE"]))
	def("metricNameRE", "String", leanStr(ms["metricNameRE"]))
	def("labelNameRE", "String", leanStr(ms["labelNameRE"]))
	def("defaultQuantiles", "List (String × String)", quantLits(mapperF))
	def("minSummaryStreamDuration", "String", leanStr(pkgConstExprs(mapperF)["minSummaryStreamDuration"]))
	fs := pkgStrings(fsmF)
	def("templateReplaceCaptureRE", "String", leanStr(fs["templateReplaceCaptureRE"]))
	// relay.go / event.go / exporter.go: capacities and periods
	def("relayChanCap", "String", leanStr(makeChanCap(relayF, "NewRelay")))
	def("tickerPeriods", "List (String × String)", tickerPeriods(map[string][]*ast.File{"relay": relayF, "exporter": exporterF, "event": eventF}))

	// dependency facts (read from the sources the build actually uses: the module cache and GOROOT)
	depVersion, depDir := moduleDir(repo, "github.com/prometheus/client_golang")
	def("clientGolangVersion", "String", leanStr(depVersion))
	if depDir != "" {
		promF := parseDir(filepath.Join(depDir, "prometheus"))
		def("defBuckets", "List String", leanStrList(floatSliceVar(promF, "DefBuckets")))
		consts := pkgConstExprs(promF)
		def("defMaxAge", "String", leanStr(consts["DefMaxAge"]))
		def("defAgeBuckets", "String", leanStr(consts["DefAgeBuckets"]))
		def("findBucketLinearBelow", "String", leanStr(findBucketThreshold(promF)))
	}
	goroot := strings.TrimSpace(runOut("go", "env", "GOROOT"))
	if goroot != "" {
		bufioF := parseDir(filepath.Join(goroot, "src", "bufio"))
		def("bufioDefaultBufSize", "String", leanStr(pkgConstExprs(bufioF)["defaultBufSize"]))
	}

	// lock / access table
	w := &walker{methods: map[string]*methodInfo{}}
	for _, fl := range [][]*ast.File{mapperF, lruF, rrF, eventF, relayF, exporterF, registryF, listenerF} {
		for k, v := range collectMethods(fl) {
			w.methods[k] = v
		}
	}
	var keys []string
	for k := range w.methods {
		keys = append(keys, k)
	}
	sort.Strings(keys)
	for _, k := range keys {
		w.method(k, k, map[string]string{}, 0)
	}
	// dedupe
	seen := map[string]bool{}
	b.WriteString("\nstructure Access where\n  ty : String\n  method : String\n  loc : String\n  write : Bool\n  locks : List (String × Bool)   -- receiver mutex held, exclusively?\n  deriving Repr, DecidableEq\n\n")
	b.WriteString("def accessTable : List Access := [\n")
	var rows []string
	for _, a := range w.out {
		ty, method, _ := strings.Cut(a.fn, ".")
		var ls []string
		for _, l := range a.locks {
			name, mode, _ := strings.Cut(l, ":")
			ls = append(ls, fmt.Sprintf("(%s, %v)", leanStr(name), mode == "W"))
		}
		row := fmt.Sprintf("  ⟨%s, %s, %s, %v, [%s]⟩", leanStr(ty), leanStr(method), leanStr(a.loc), a.write, strings.Join(ls, ", "))
		if !seen[row] {
			seen[row] = true
			rows = append(rows, row)
		}
	}
	sort.Strings(rows)
	b.WriteString(strings.Join(rows, ",\n"))
	b.WriteString("\n]\n\n")
	sort.Strings(w.irregular)
	def("irregularLocking", "List String", leanStrList(w.irregular))
	// object pools: memory recycled through a sync.Pool changes owner without any access to a receiver field, which
	// the lock/access table cannot see; every mention of the type in the concurrently used packages is reported
	var pools []string
	for _, fl := range [][]*ast.File{mapperF, fsmF, lruF, rrF, eventF, relayF, exporterF, registryF, listenerF, lineF} {
		for _, f := range fl {
			ast.Inspect(f, func(n ast.Node) bool {
				if se, ok := n.(*ast.SelectorExpr); ok && se.Sel.Name == "Pool" {
					if id, ok := se.X.(*ast.Ident); ok && id.Name == "sync" {
						pools = append(pools, fmt.Sprintf("%s:%d", filepath.Base(fset.Position(se.Pos()).Filename), fset.Position(se.Pos()).Line))
					}
				}
				return true
			})
		}
	}
	sort.Strings(pools)
	def("syncPools", "List String", leanStrList(pools))
	// package-level mutable state: a package variable that holds a channel / map / made container (a free list, a cache,
	// a registry; a read-only lookup table written as a map literal does not count) or that some function assigns to, deletes from or sends on is shared by every goroutine that enters the package, with no receiver
	// field for the access table to see (seeded change X18: a channel-based free list of datagram buffers)
	var pkgState []string
	for _, fl := range [][]*ast.File{mapperF, fsmF, lruF, rrF, eventF, relayF, exporterF, registryF, listenerF, lineF} {
		vars := map[string]bool{}
		for _, f := range fl {
			for _, d := range f.Decls {
				gd, ok := d.(*ast.GenDecl)
				if !ok || gd.Tok != token.VAR {
					continue
				}
				for _, sp := range gd.Specs {
					vs := sp.(*ast.ValueSpec)
					for i, nm := range vs.Names {
						vars[nm.Name] = true
						container := false
						switch vs.Type.(type) {
						case *ast.ChanType, *ast.MapType:
							container = true
						}
						if i < len(vs.Values) {
							if ce, ok := vs.Values[i].(*ast.CallExpr); ok {
								if id, ok := ce.Fun.(*ast.Ident); ok && (id.Name == "make" || id.Name == "new") {
									container = true
								}
							}
						}
						if container {
							pkgState = append(pkgState, fmt.Sprintf("%s:%s:container", filepath.Base(fset.Position(nm.Pos()).Filename), nm.Name))
						}
					}
				}
			}
		}
		rootIdent := func(e ast.Expr) *ast.Ident {
			for {
				switch x := e.(type) {
				case *ast.Ident:
					return x
				case *ast.SelectorExpr:
					e = x.X
				case *ast.IndexExpr:
					e = x.X
				case *ast.StarExpr:
					e = x.X
				case *ast.ParenExpr:
					e = x.X
				default:
					return nil
				}
			}
		}
		isPkgVar := func(id *ast.Ident) bool {
			if id == nil || !vars[id.Name] {
				return false
			}
			if id.Obj == nil {
				return true // resolved in another file of the package
			}
			if vs, ok := id.Obj.Decl.(*ast.ValueSpec); ok {
				for _, f := range fl {
					for _, d := range f.Decls {
						if gd, ok := d.(*ast.GenDecl); ok {
							for _, sp := range gd.Specs {
								if sp == ast.Spec(vs) {
									return true
								}
							}
						}
					}
				}
			}
			return false
		}
		for _, f := range fl {
			for _, d := range f.Decls {
				fd, ok := d.(*ast.FuncDecl)
				if !ok || fd.Body == nil {
					continue
				}
				ast.Inspect(fd.Body, func(n ast.Node) bool {
					switch st := n.(type) {
					case *ast.AssignStmt:
						if st.Tok == token.DEFINE {
							return true
						}
						for _, lhs := range st.Lhs {
							if id := rootIdent(lhs); isPkgVar(id) {
								pkgState = append(pkgState, fmt.Sprintf("%s:%s:written in %s", filepath.Base(fset.Position(st.Pos()).Filename), id.Name, fd.Name.Name))
							}
						}
					case *ast.CallExpr: // delete(pkgMap, k)
						if fn, ok := st.Fun.(*ast.Ident); ok && fn.Name == "delete" && len(st.Args) > 0 {
							if id := rootIdent(st.Args[0]); isPkgVar(id) {
								pkgState = append(pkgState, fmt.Sprintf("%s:%s:written in %s", filepath.Base(fset.Position(st.Pos()).Filename), id.Name, fd.Name.Name))
							}
						}
					case *ast.SendStmt: // pkgChan <- v
						if id := rootIdent(st.Chan); isPkgVar(id) {
							pkgState = append(pkgState, fmt.Sprintf("%s:%s:written in %s", filepath.Base(fset.Position(st.Pos()).Filename), id.Name, fd.Name.Name))
						}
					case *ast.IncDecStmt:
						if id := rootIdent(st.X); isPkgVar(id) {
							pkgState = append(pkgState, fmt.Sprintf("%s:%s:written in %s", filepath.Base(fset.Position(st.Pos()).Filename), id.Name, fd.Name.Name))
						}
					}
					return true
				})
			}
		}
	}
	sort.Strings(pkgState)
	def("packageLevelState", "List String", leanStrList(pkgState))
	b.WriteString("\nend SE.Gen\n")
	fmt.Print(b.String())
}

func listOfLists(xs [][]string) string {
	var o []string
	for _, x := range xs {
		o = append(o, leanStrList(x))
	}
	return "[" + strings.Join(o, ", ") + "]"
}

func stringSliceLit(files []*ast.File, fn, varName string) []string {
	var out []string
	for _, f := range files {
		for _, d := range f.Decls {
			fd, ok := d.(*ast.FuncDecl)
			if !ok || fd.Name.Name != fn || fd.Body == nil {
				continue
			}
			ast.Inspect(fd.Body, func(n ast.Node) bool {
				as, ok := n.(*ast.AssignStmt)
				if !ok || len(as.Lhs) != 1 || exprStr(as.Lhs[0]) != varName {
					return true
				}
				if cl, ok := as.Rhs[0].(*ast.CompositeLit); ok {
					for _, el := range cl.Elts {
						if bl, ok := el.(*ast.BasicLit); ok {
							out = append(out, unq(bl))
						}
					}
				}
				return true
			})
		}
	}
	return out
}

func quantLits(files []*ast.File) string {
	var o []string
	for _, f := range files {
		for _, d := range f.Decls {
			gd, ok := d.(*ast.GenDecl)
			if !ok {
				continue
			}
			for _, sp := range gd.Specs {
				vs, ok := sp.(*ast.ValueSpec)
				if !ok || len(vs.Names) != 1 || vs.Names[0].Name != "defaultQuantiles" || len(vs.Values) != 1 {
					continue
				}
				cl, ok := vs.Values[0].(*ast.CompositeLit)
				if !ok {
					continue
				}
				for _, el := range cl.Elts {
					inner := el.(*ast.CompositeLit)
					q, e := "", ""
					for _, kv := range inner.Elts {
						k := kv.(*ast.KeyValueExpr)
						if exprStr(k.Key) == "Quantile" {
							q = exprStr(k.Value)
						} else {
							e = exprStr(k.Value)
						}
					}
					o = append(o, fmt.Sprintf("(%s, %s)", leanStr(q), leanStr(e)))
				}
			}
		}
	}
	return "[" + strings.Join(o, ", ") + "]"
}

func makeChanCap(files []*ast.File, fn string) string {
	res := "?"
	for _, f := range files {
		for _, d := range f.Decls {
			fd, ok := d.(*ast.FuncDecl)
			if !ok || fd.Name.Name != fn || fd.Body == nil {
				continue
			}
			ast.Inspect(fd.Body, func(n ast.Node) bool {
				ce, ok := n.(*ast.CallExpr)
				if ok && exprStr(ce.Fun) == "make" && len(ce.Args) == 2 {
					if _, isChan := ce.Args[0].(*ast.ChanType); isChan {
						res = exprStr(ce.Args[1])
					}
				}
				return true
			})
		}
	}
	return res
}

func tickerPeriods(pk map[string][]*ast.File) string {
	var names []string
	for k := range pk {
		names = append(names, k)
	}
	sort.Strings(names)
	var o []string
	for _, name := range names {
		for _, f := range pk[name] {
			ast.Inspect(f, func(n ast.Node) bool {
				ce, ok := n.(*ast.CallExpr)
				if ok && exprStr(ce.Fun) == "clock.NewTicker" && len(ce.Args) == 1 {
					o = append(o, fmt.Sprintf("(%s, %s)", leanStr(name), leanStr(exprStr(ce.Args[0]))))
				}
				return true
			})
		}
	}
	sort.Strings(o)
	return "[" + strings.Join(o, ", ") + "]"
}

func runOut(name string, args ...string) string {
	out, err := exec.Command(name, args...).Output()
	if err != nil {
		return ""
	}
	return string(out)
}

// version and directory (in the module cache) of a required module, from the repository's go.mod
func moduleDir(repo, mod string) (string, string) {
	b, err := os.ReadFile(filepath.Join(repo, "go.mod"))
	if err != nil {
		return "", ""
	}
	for _, l := range strings.Split(string(b), "\n") {
		f := strings.Fields(l)
		if len(f) >= 2 && f[0] == mod {
			cache := strings.TrimSpace(runOut("go", "env", "GOMODCACHE"))
			dir := filepath.Join(cache, mod+"@"+f[1])
			if _, err := os.Stat(dir); err != nil {
				return f[1], ""
			}
			return f[1], dir
		}
	}
	return "", ""
}

func floatSliceVar(files []*ast.File, name string) []string {
	var out []string
	for _, f := range files {
		for _, d := range f.Decls {
			gd, ok := d.(*ast.GenDecl)
			if !ok {
				continue
			}
			for _, sp := range gd.Specs {
				vs, ok := sp.(*ast.ValueSpec)
				if !ok || len(vs.Names) != 1 || vs.Names[0].Name != name || len(vs.Values) != 1 {
					continue
				}
				if cl, ok := vs.Values[0].(*ast.CompositeLit); ok {
					for _, el := range cl.Elts {
						out = append(out, exprStr(el))
					}
				}
			}
		}
	}
	return out
}

// source text of package-level constant/variable initialisers
func pkgConstExprs(files []*ast.File) map[string]string {
	m := map[string]string{}
	for _, f := range files {
		for _, d := range f.Decls {
			gd, ok := d.(*ast.GenDecl)
			if !ok {
				continue
			}
			for _, sp := range gd.Specs {
				vs, ok := sp.(*ast.ValueSpec)
				if !ok {
					continue
				}
				for i, n := range vs.Names {
					if i < len(vs.Values) {
						m[n.Name] = exprStr(vs.Values[i])
					}
				}
			}
		}
	}
	return m
}

// the `if n < K` threshold below which histogram.findBucket searches linearly
func findBucketThreshold(files []*ast.File) string {
	res := "?"
	for _, f := range files {
		for _, d := range f.Decls {
			fd, ok := d.(*ast.FuncDecl)
			if !ok || fd.Name.Name != "findBucket" || fd.Body == nil {
				continue
			}
			ast.Inspect(fd.Body, func(n ast.Node) bool {
				is, ok := n.(*ast.IfStmt)
				if !ok {
					return true
				}
				if be, ok := is.Cond.(*ast.BinaryExpr); ok && exprStr(be.X) == "n" && be.Op == token.LSS {
					res = exprStr(be.Y)
				}
				return true
			})
		}
	}
	return res
}
