#!/bin/sh
# Builds the framework offline from files on disk: the Lean models, theorems and driver, and the Go harness.
set -e
cd "$(dirname "$0")"
export GOFLAGS=-mod=mod GOPROXY=off GOSUMDB=off GOTOOLCHAIN=local
mkdir -p .build .work evidence replays
cp /repo/go.sum harness/go.sum
(cd harness && go build -tags verif -o ../.build/harness .)
(cd /repo && go build -o /verif/.build/statsd_exporter .)
if [ -d extract ]; then
  cp /repo/go.sum extract/go.sum
  (cd extract && go build -o ../.build/extract . && ../.build/extract /repo > ../lean/SE/Gen/Facts.lean.new && \
    (cmp -s ../lean/SE/Gen/Facts.lean.new ../lean/SE/Gen/Facts.lean || mv ../lean/SE/Gen/Facts.lean.new ../lean/SE/Gen/Facts.lean); rm -f ../lean/SE/Gen/Facts.lean.new)
fi
(cd lean && lake build)
echo setup done
