#!/usr/bin/env python3
"""cmp.py <prefix>: compare <prefix>.impl and <prefix>.model (strict part; `?` in the model is a wildcard)"""
import sys, re
def strict(l): return l.rstrip('\n').split('\t')[0]
def eq(i, m):
    if i == m: return True
    if '?' not in m: return False
    pat = re.escape(m).replace(r'\?', r'[^ ,\];]*')
    return re.fullmatch(pat, i) is not None
if __name__ == '__main__':
    p = sys.argv[1]
    n = bad = 0
    for op, i, m in zip(open(p + '.ops'), open(p + '.impl'), open(p + '.model')):
        n += 1
        si, sm = strict(i), strict(m)
        if not eq(si, sm):
            bad += 1
            if bad <= int(sys.argv[2]) if len(sys.argv) > 2 else bad <= 3:
                # show the first differing sub-result
                a, b = si.split(' ; '), sm.split(' ; ')
                k = next((j for j in range(min(len(a), len(b))) if not eq(a[j], b[j])), None)
                print('line', n, 'sub', k)
                if k is not None:
                    subs = op.split(' | ', 1)[1].split(' ; ') if ' | ' in op else [op]
                    print('  head', op.split(' | ')[0])
                    print('  load', subs[0][:600])
                    print('  sub ', subs[k][:300] if k < len(subs) else None)
                    print('  impl', a[k]); print('  modl', b[k])
                else:
                    print(' impl', si[:300]); print(' modl', sm[:300])
    print(p, n, 'ops', bad, 'mismatches')
