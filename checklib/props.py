"""Property table of ./check: which theorem modules, which correspondence streams, which level."""

GLOBAL_TRUSTED_BASE = [
    "Lean 4.33.0 kernel (thorough tier: re-checked by leanchecker); axioms propext, Classical.choice, Quot.sound only (audited per theorem on every run)",
    "Lean compiler/runtime for the model driver `sedriver` (it executes the definitions the theorems are about)",
    "the Go harness /verif/harness, the fact extractor /verif/extract and this check script (unverified)",
    "all Go code is modelled, not verified: the tie between SE.Model and /repo is the differential correspondence run (sampling + the exhaustive small scopes named in `rule`) plus the regenerated facts",
]
GLOBAL_ASSUMPTIONS = [
    "the harness really exercises /repo's working tree (go.mod replace directive) and encodes what it observed faithfully",
]

import re as _re

def _rule_only(s):
    """projection for C04/C12: which rule answered (or none); names and labels are C11's business"""
    return _re.sub(r'r(\d+|\?\S*) \S+ \[[^\]]*\]', r'r\1', s)

def _qjudge(op, impl):
    f = op.split()
    # qconc <seed> <thr> <cap> <nprod> <programs…>  +  observed batches
    return 'qjudge %s %s %s => %s' % (f[2], f[4], ' '.join(f[5:]), impl)

_TV_NOTE = "no property theorems yet for this id (proofs in progress): claimed as translation validation — the implementation is compared op by op with the executable Lean model AND the model with the executable Lean specification on the same ops"

PROPS = {
    'C15': {
        'modules': ['SE.Props.C15'],
        'streams': [{'component': 'escape'}],
        'level': 'proof',
        'trusted_base': ["Go's UTF-8 decoding (`range` over a string, utf8.DecodeRuneInString) as modelled in SE/Model/Utf8.lean — tied exhaustively on all 1- and 2-byte strings and on the symbol-class strings"],
        'assumptions': [],
    },
    'C04': {
        'modules': ['SE.Props.C04'],
        'streams': [{'component': 'mapper_c04', 'project': _rule_only, 'note_kinds': {'rule'}}],
        'level': 'proof',
        'trusted_base': ["Go regexp (RE2) semantics: match results of regex rules are supplied by the harness from the real regexp package (oracle `rx`)", "yaml.v2 decodes the rendered configuration to the intended fields"],
        'assumptions': [],
    },
    'C12': {
        'modules': ['SE.Props.C12'],
        'streams': [{'component': 'mapper_c12', 'project': _rule_only, 'note_kinds': {'rule'}}],
        'level': 'proof',
        'trusted_base': ["yaml.v2 decodes the rendered configuration to the intended fields"],
        'assumptions': [],
    },
    'C11': {
        'modules': ['SE.Props.C11', 'SE.Gen.TieMapper'],
        'streams': [{'component': 'mapper_c11', 'note_kinds': {'tmpl'}}, {'component': 'namerune'}],
        'level': 'proof',
        'trusted_base': ["fmt.Sprintf is modelled for %s and %% only (SE.Props.C11.format_total: the formatter never produces anything else)", "regexp.Expand's template syntax (its unexported `extract`) modelled from the Go source; unicode.IsLetter/IsDigit modelled for U+0000..U+027F and tied exhaustively by the namerune stream, reference names with other runes are 'not modelled' (`?`, compared by nobody)", "Go regexp matching (which groups matched what) via the rx oracle shipped by the harness"],
        'assumptions': [],
    },
    'C13': {
        'modules': ['SE.Props.C13'],
        'streams': [{'component': 'mapper_c13', 'note_kinds': {'fresh'}}, {'component': 'binary', 'confirm': True, 'seed_off': 1300}],
        'level': 'proof',
        'trusted_base': ["groupcache lru.Cache (third party) modelled from its source", "Go map iteration order of the random-replacement eviction = oracle argument"],
        'assumptions': [],
    },
    'C14': {
        'modules': ['SE.Props.C14', 'SE.Gen.TieMapper', 'SE.Gen.TieSync'],
        'streams': [{'component': 'mapper_c14', 'note_kinds': {'fresh'}}, {'component': 'mapperrace'}, {'component': 'binary', 'confirm': True, 'seed_off': 900}],
        'level': 'proof',
        'trusted_base': ["sync.RWMutex semantics (GetMapping and the swap are atomic steps)", "yaml.v2"],
        'assumptions': [],
    },
    'C09': {
        'modules': ['SE.Props.C09', 'SE.Gen.TieLine'],
        'streams': [{'component': 'parse_c09', 'info_comparable': True}, {'component': 'binary', 'confirm': True}, {'component': 'parse_exh', 'info_comparable': True}],
        'level': 'proof',
        'trusted_base': ["strconv.ParseFloat results are shipped by the harness (oracle `pf`)"],
        'assumptions': [],
    },
    'C10': {
        'modules': ['SE.Props.C10', 'SE.Gen.TieLine'],
        'streams': [{'component': 'parse_c10', 'info_comparable': True}, {'component': 'parse_exh', 'info_comparable': True}],
        'level': 'proof',
        'trusted_base': ["strconv.ParseFloat results are shipped by the harness (oracle `pf`)"],
        'assumptions': [],
    },
    'C01': {
        'modules': ['SE.Props.C01', 'SE.Gen.TieRegistry', 'SE.Gen.TieDeps'],
        'streams': [{'component': 'pipe_c01', 'note_kinds': set()}, {'component': 'binary', 'confirm': True, 'seed_off': 500}],
        'level': 'proof',
        'trusted_base': ["client_golang v1.22.0 (vector constructors, child creation and its panics, counter/gauge/histogram/summary updates, Delete, Gather's family checks) and perks' Query fast path are modelled by hand from their sources (SE/Model/Registry.lean)", 'FNV-64 label-hash collisions assumed away', 'IEEE float64 = Lean Float in the driver; strconv.ParseFloat and regexp results shipped by the harness', 'yaml.v2 decodes the rendered configuration to the intended fields'],
        'assumptions': [],
    },
    'C02': {
        'modules': ['SE.Props.C02', 'SE.Gen.TieLine'],
        'streams': [{'component': 'pipe_c02', 'note_kinds': {'panic', 'mult'}}],
        'level': 'proof',
        'trusted_base': ["client_golang v1.22.0 (vector constructors, child creation and its panics, counter/gauge/histogram/summary updates, Delete, Gather's family checks) and perks' Query fast path are modelled by hand from their sources (SE/Model/Registry.lean)", 'FNV-64 label-hash collisions assumed away', 'IEEE float64 = Lean Float in the driver; strconv.ParseFloat and regexp results shipped by the harness', 'yaml.v2 decodes the rendered configuration to the intended fields'],
        'assumptions': [],
    },
    'C03': {
        'modules': ['SE.Props.C03', 'SE.Gen.TieRegistry'],
        'streams': [{'component': 'pipe_c03', 'note_kinds': {'gather'}}, {'component': 'binary_c03', 'confirm': True, 'note_kinds': {'gather'}}],
        'level': 'proof',
        'trusted_base': ["client_golang v1.22.0 (vector constructors, child creation and its panics, counter/gauge/histogram/summary updates, Delete, Gather's family checks) and perks' Query fast path are modelled by hand from their sources (SE/Model/Registry.lean)", 'FNV-64 label-hash collisions assumed away', 'IEEE float64 = Lean Float in the driver; strconv.ParseFloat and regexp results shipped by the harness', 'yaml.v2 decodes the rendered configuration to the intended fields'],
        'assumptions': [],
    },
    'C05': {
        'modules': ['SE.Props.C05'],
        'streams': [{'component': 'pipe_c05', 'note_kinds': set()}, {'component': 'hashlabels', 'note_kinds': {'hash'}}],
        'level': 'proof',
        'trusted_base': ["client_golang v1.22.0 (vector constructors, child creation and its panics, counter/gauge/histogram/summary updates, Delete, Gather's family checks) and perks' Query fast path are modelled by hand from their sources (SE/Model/Registry.lean)", 'FNV-64 label-hash collisions assumed away', 'IEEE float64 = Lean Float in the driver; strconv.ParseFloat and regexp results shipped by the harness', 'yaml.v2 decodes the rendered configuration to the intended fields'],
        'assumptions': [],
    },
    'C06': {
        'modules': ['SE.Props.C06'],
        'streams': [{'component': 'pipe_c06', 'note_kinds': {'counter'}}],
        'level': 'proof',
        'trusted_base': ["client_golang v1.22.0 (vector constructors, child creation and its panics, counter/gauge/histogram/summary updates, Delete, Gather's family checks) and perks' Query fast path are modelled by hand from their sources (SE/Model/Registry.lean)", 'FNV-64 label-hash collisions assumed away', 'IEEE float64 = Lean Float in the driver; strconv.ParseFloat and regexp results shipped by the harness', 'yaml.v2 decodes the rendered configuration to the intended fields'],
        'assumptions': [],
    },
    'C07': {
        'modules': ['SE.Props.C07'],
        'streams': [{'component': 'pipe_c07', 'note_kinds': set()}],
        'level': 'proof',
        'trusted_base': ["client_golang v1.22.0 (vector constructors, child creation and its panics, counter/gauge/histogram/summary updates, Delete, Gather's family checks) and perks' Query fast path are modelled by hand from their sources (SE/Model/Registry.lean)", 'FNV-64 label-hash collisions assumed away', 'IEEE float64 = Lean Float in the driver; strconv.ParseFloat and regexp results shipped by the harness', 'yaml.v2 decodes the rendered configuration to the intended fields'],
        'assumptions': [],
    },
    'C08': {
        'modules': ['SE.Props.C08', 'SE.Gen.TieRegistry'],
        'streams': [{'component': 'pipe_c08', 'note_kinds': {'gather'}}],
        'level': 'proof',
        'trusted_base': ["client_golang v1.22.0 (vector constructors, child creation and its panics, counter/gauge/histogram/summary updates, Delete, Gather's family checks) and perks' Query fast path are modelled by hand from their sources (SE/Model/Registry.lean)", 'FNV-64 label-hash collisions assumed away', 'IEEE float64 = Lean Float in the driver; strconv.ParseFloat and regexp results shipped by the harness', 'yaml.v2 decodes the rendered configuration to the intended fields'],
        'assumptions': [],
    },
    'C19': {
        'modules': ['SE.Props.C19', 'SE.Gen.TieMapper', 'SE.Gen.TieDeps'],
        'streams': [{'component': 'pipe_c19', 'note_kinds': {'panic', 'gather'}}, {'component': 'checkconfig', 'confirm': True}],
        'level': 'proof',
        'trusted_base': ["client_golang v1.22.0 (vector constructors, child creation and its panics, counter/gauge/histogram/summary updates, Delete, Gather's family checks) and perks' Query fast path are modelled by hand from their sources (SE/Model/Registry.lean)", 'FNV-64 label-hash collisions assumed away', 'IEEE float64 = Lean Float in the driver; strconv.ParseFloat and regexp results shipped by the harness', 'yaml.v2 decodes the rendered configuration to the intended fields'],
        'assumptions': [],
    },
    'C16': {
        'modules': ['SE.Props.C16', 'SE.Proofs.QueueDriver', 'SE.Gen.TieSync'],
        'streams': [{'component': 'queue'}, {'component': 'queueblk', 'confirm': True}, {'component': 'qconc', 'judge': _qjudge}],
        'level': 'proof',
        'trusted_base': ["Go runtime semantics of sync.Mutex and channels (a send blocks while the channel is full; the mutex is held across the send) as encoded in the step relation of SE/Model/Queue.lean", "real goroutine schedules are sampled, not enumerated (the theorems quantify over all schedules of the model's atomic steps)"],
        'assumptions': [],
    },
    'C17': {
        'modules': ['SE.Props.C17', 'SE.Gen.TieRelay'],
        'streams': [{'component': 'relay', 'confirm': True}, {'component': 'framerelay', 'confirm': True},
                    {'component': 'binary', 'confirm': True, 'seed_off': 700}],
        'level': 'proof',
        'trusted_base': ["Go `select` picks any ready case; channel/goroutine semantics as encoded in the step relation of SE/Model/Relay.lean", "loopback UDP delivers datagrams intact and in order", "the deterministic stream lets the sender take each line before the next operation (hook VerifPending); other schedules are covered only by the model's theorems"],
        'assumptions': [],
    },
    'C18': {
        'modules': ['SE.Props.C18', 'SE.Gen.TieDeps', 'SE.Gen.TieSync'],
        'streams': [{'component': 'frame', 'confirm': True, 'note_kinds': {'frame'}}, {'component': 'udpq', 'confirm': True}, {'component': 'udpl', 'confirm': True},
                    {'component': 'tcpconc', 'confirm': True}, {'component': 'framerelay', 'confirm': True},
                    {'component': 'binary', 'confirm': True, 'seed_off': 300}, {'component': 'binframe', 'confirm': True}],
        'level': 'proof',
        'trusted_base': ["bufio.Reader.ReadLine (4096-byte buffer) modelled from the Go standard library source at the level of buffer + chunks", "the kernel delivers loopback datagrams intact and TCP bytes in order; real TCP segmentation is whatever the kernel does with the generated writes", "goroutine scheduling of reader/processor is in the model as an arbitrary operation sequence; concurrent TCP connections are modelled as independent per-connection runs, justified by the regenerated fact that listener methods write no receiver field (SE.Gen.Tie.listeners_keep_no_state) and sampled by the tcpconc stream"],
        'assumptions': [],
    },
    'C20': {
        'modules': ['SE.Props.C20'],
        'streams': [{'component': 'race-stress'}],
        'level': 'proof',
        'trusted_base': ["the extractor /verif/extract (go/ast): lock regions are recognised as top-level recv.mu.Lock()/RLock() ... (defer) Unlock(); anything else is reported in irregularLocking and breaks the obligation", "hand-written tables in SE/Model/Sync.lean: which goroutine roles run which method (rolesOf) and which extracted locations are shared mutable state, incl. three facts about third-party code (groupcache lru.Cache.Get writes its list; prometheus collectors, channels and slog loggers synchronise internally)", "Go memory model: accesses ordered by a common mutex (writer exclusive) do not race", "the race detector runs are sampling (search support), not part of the proof"],
        'assumptions': [],
    },
}
