"""Property table of ./check: which theorem modules, which correspondence streams, which level."""

GLOBAL_TRUSTED_BASE = [
    "Lean 4.33.0 kernel (thorough tier: re-checked by leanchecker); axioms propext, Classical.choice, Quot.sound only (audited per theorem on every run)",
    "Lean compiler/runtime for the model driver `sedriver` (it executes the definitions the theorems are about)",
    "the Go harness /verif/harness, the fact extractor /verif/extract and this check script (unverified)",
    "all Go code is modelled, not verified: the tie between SE.Model and /repo is the differential correspondence run (sampling + the exhaustive small scopes named in `rule`) plus the regenerated facts",
]
GLOBAL_ASSUMPTIONS = [
    "the harness really exercises /repo's working tree (go.mod replace directive) and encodes what it observed faithfully",
]

PROPS = {
    'C15': {
        'modules': ['SE.Props.C15'],
        'streams': [{'component': 'escape'}],
        'level': 'proof',
        'trusted_base': ["Go's UTF-8 decoding (`range` over a string, utf8.DecodeRuneInString) as modelled in SE/Model/Utf8.lean — tied exhaustively on all 1- and 2-byte strings and on the symbol-class strings"],
        'assumptions': [],
    },
}
