"""Property table of ./check: which theorem modules, which correspondence streams, which level."""

GLOBAL_TRUSTED_BASE = [
    "Lean 4.33.0 kernel (thorough tier: re-checked by leanchecker); axioms propext, Classical.choice, Quot.sound only (audited per theorem on every run)",
    "Lean compiler/runtime for the model driver `sedriver` (it executes the definitions the theorems are about)",
    "the Go harness /verif/harness, the fact extractor /verif/extract and this check script (unverified)",
    "all Go code is modelled, not verified: the tie between SE.Model and /repo is the differential correspondence run (sampling + the exhaustive small scopes named in `rule`) plus the regenerated facts",
]
GLOBAL_ASSUMPTIONS = [
    "the harness really exercises /repo's working tree (go.mod replace directive) and encodes what it observed faithfully",
]

import re as _re

def _rule_only(s):
    """projection for C04/C12: which rule answered (or none); names and labels are C11's business"""
    return _re.sub(r'r(\d+|\?\S*) \S+ \[[^\]]*\]', r'r\1', s)

_TV_NOTE = "no property theorems yet for this id (proofs in progress): claimed as translation validation — the implementation is compared op by op with the executable Lean model AND the model with the executable Lean specification on the same ops"

PROPS = {
    'C15': {
        'modules': ['SE.Props.C15'],
        'streams': [{'component': 'escape'}],
        'level': 'proof',
        'trusted_base': ["Go's UTF-8 decoding (`range` over a string, utf8.DecodeRuneInString) as modelled in SE/Model/Utf8.lean — tied exhaustively on all 1- and 2-byte strings and on the symbol-class strings"],
        'assumptions': [],
    },
    'C04': {
        'modules': [],
        'streams': [{'component': 'mapper_c04', 'project': _rule_only, 'note_kinds': {'rule'}}],
        'level': 'translation_validation',
        'trusted_base': ["Go regexp (RE2) semantics: match results of regex rules are supplied by the harness from the real regexp package (oracle `rx`)", "yaml.v2 decodes the rendered configuration to the intended fields"],
        'assumptions': [_TV_NOTE],
    },
    'C12': {
        'modules': [],
        'streams': [{'component': 'mapper_c12', 'project': _rule_only, 'note_kinds': {'rule'}}],
        'level': 'translation_validation',
        'trusted_base': ["yaml.v2 decodes the rendered configuration to the intended fields"],
        'assumptions': [_TV_NOTE],
    },
    'C11': {
        'modules': [],
        'streams': [{'component': 'mapper_c11', 'note_kinds': {'tmpl'}}],
        'level': 'translation_validation',
        'trusted_base': ["fmt.Sprintf is modelled for %s and %% only; results of templates that reach other % sequences are not compared (model answers `?`)", "regexp.Expand template syntax modelled from the Go source", "Go regexp semantics via the rx oracle"],
        'assumptions': [_TV_NOTE],
    },
    'C13': {
        'modules': [],
        'streams': [{'component': 'mapper_c13', 'note_kinds': {'fresh'}}],
        'level': 'translation_validation',
        'trusted_base': ["groupcache lru.Cache (third party) modelled from its source", "Go map iteration order of the random-replacement eviction = oracle argument"],
        'assumptions': [_TV_NOTE],
    },
    'C14': {
        'modules': [],
        'streams': [{'component': 'mapper_c14', 'note_kinds': {'fresh'}}],
        'level': 'translation_validation',
        'trusted_base': ["sync.RWMutex semantics (GetMapping and the swap are atomic steps)", "yaml.v2"],
        'assumptions': [_TV_NOTE],
    },
    'C09': {
        'modules': [],
        'streams': [{'component': 'parse', 'info_comparable': True}],
        'level': 'translation_validation',
        'trusted_base': ["strconv.ParseFloat results are shipped by the harness (oracle `pf`)"],
        'assumptions': [_TV_NOTE],
    },
    'C10': {
        'modules': [],
        'streams': [{'component': 'parse', 'seed_off': 1000, 'info_comparable': True}],
        'level': 'translation_validation',
        'trusted_base': ["strconv.ParseFloat results are shipped by the harness (oracle `pf`)"],
        'assumptions': [_TV_NOTE],
    },
}
