"""Claim texts for MANIFEST.json (kept next to the property table)."""
HOOK_COMMITS = []
NOT_CLAIMED = {}
_TV = ("Translation-validation level for now: no Lean property theorem is claimed yet for this id (proofs in progress; the level moves to proof when SE/Props/%s.lean exists). "
       "The check compares, op by op, the real packages with the executable Lean model, and the model with the executable Lean specification (spec notes); a disagreement of either kind outside the recorded open findings is a violation. ")
_TECH_TV = "differential correspondence: Go implementation vs executable Lean model vs executable Lean specification (theorems pending)"
CLAIMS = {
    'C15': {'text': "Seven theorems over all byte strings (totality, refinement to the rune-wise spec, legality, alnum preservation, leading underscore, identity on legal names, idempotence) about the loop model of EscapeMetricName; model tied to the code exhaustively on strings of <=5 (thorough 6) symbols over 11 symbol classes, all 1-2 byte strings and 100k random strings.",
            'note': "Trusted: Lean kernel; the hand-written model of the loop and of Go's UTF-8 decoding (tied by correspondence); harness and check script.",
            'technique': "Lean 4 proof by loop invariant + differential correspondence (exhaustive small scope)"},
    'C04': {'text': _TV % 'C04' + "Streams: exhaustive 1-2 rule lists over {a,b,*}^<=3 x 3 type filters x all 117 lookups, sampled 3-rule lists, random 3-12 rule lists mixed glob/regex. Projection: which rule wins.",
            'note': "Trusted: regexp oracle, yaml.v2, harness. Spec = firstMatch (SE/Spec/Mapping.lean).", 'technique': _TECH_TV},
    'C12': {'text': _TV % 'C12' + "Streams: unordered mode, all ordered 1-2 rule lists (hence all permutations), 3-rule lists in all 6 permutations, random lists in 3 permutations. One open finding (backtracking_disabled_incomplete).",
            'note': "Trusted: yaml.v2, harness. Spec = mostSpecific (SE/Spec/Mapping.lean).", 'technique': _TECH_TV},
    'C11': {'text': _TV % 'C11' + "Streams: random templates over the statement's alphabet with $n/${n}, n in 0..12, patterns with 0-11 wildcards, glob rule and its regex translation side by side. Six open findings (template classes).",
            'note': "Trusted: Sprintf modelled for %s/%% only (other % sequences not compared), regexp.Expand modelled from source, harness. Spec = expandSpec.", 'technique': _TECH_TV},
    'C13': {'text': _TV % 'C13' + "Streams: identical lookup/reload histories through no cache, LRU and RR caches of sizes 1,2,3,8,1000; the model side runs the cached model and notes any difference from a freshly loaded uncached mapper.",
            'note': "Trusted: groupcache LRU model, map-iteration oracle, harness.", 'technique': _TECH_TV},
    'C14': {'text': _TV % 'C14' + "Streams: reload histories over valid configs and 21 classes of invalid configs with lookups after every load; sequential part only so far (the concurrent part is planned as lock-region facts + interleaving theorem).",
            'note': "Trusted: RWMutex semantics, yaml.v2, harness.", 'technique': _TECH_TV},
    'C09': {'text': _TV % 'C09' + "Streams: grammar-built lines in all four tagging syntaxes under all 16 flag combinations, malformed tags in every position, mixed styles, mutations, hostile bytes.",
            'note': "Trusted: strconv.ParseFloat oracle, harness.", 'technique': _TECH_TV},
    'C10': {'text': _TV % 'C10' + "Streams: 1-6 samples per line, each well-formed or malformed in every position, extended-aggregation value lists with valid and invalid types.",
            'note': "Trusted: strconv.ParseFloat oracle, harness.", 'technique': _TECH_TV},
}
